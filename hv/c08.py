"""C08 - every reported position is real, points at the culprit and can be rendered."""
import glob
import json
import os
import random

from . import common as C
from . import c05
from . import families as Fam
from . import progs as P
from . import sem


def rec(what, span, text, fileok=True, rendered=True, culprit=None, culprit_lines=None):
    lines = text.split("\n")
    whole = span["s"] == [0, 0, 0] and span["e"] == [0, 0, 0]
    r = {"what": what, "whole": whole, "s": span["s"], "e": span["e"], "lens": [len(x) for x in lines], "textlen": len(text),
         "fileok": fileok, "rendered": rendered, "hasculprit": culprit is not None,
         "cs": culprit[0] if culprit else 0, "ce": culprit[1] if culprit else 0, "cl": list(culprit_lines) if culprit_lines else [0, 0]}
    return r


def run(args):
    rep = C.Report("C08")
    thorough = C.tier() == "thorough"
    rnd = random.Random(C.seed())
    rep.cov["rule"] = ("position records collected from the real code: syntax errors and diagnostics of malformed inputs "
                       "(token-level mutations / truncations of valid programs, lexical errors, multi-line constructs, end "
                       "of input, inside imported modules) incl. the result of the real Display call, and interrupt spans / "
                       "caught-error positions of runtime failures whose culprit node is known from HmsSem; TLC evaluates "
                       "InFile, Ordered, Within(culprit), OnCulpritLines, Renderable on every record (TraceSpans); non-trivial = distinct "
                       "records")
    pool = C.Pool(C.build_worker(), memlimit_kb=6 * 1024 * 1024)
    records, owners = [], []
    # ---- (a) malformed inputs
    valid = [P.render(p)[0] for p in Fam.template_programs()[:25] + Fam.nestings(1)[:20] + Fam.singleton_programs()[:4]]
    for f in sorted(glob.glob(os.path.join(C.REPO, "examples", "*.hms")))[:8]:
        valid.append(open(f, encoding="utf-8").read())
    toks = c05.token_texts(pool, valid)
    inputs = []
    for src, tk in zip(valid, toks):
        if not tk:
            continue
        # keep the layout (multi-line) for some mutations: replace a token inside the original text
        inputs += c05.mutations(tk, rnd, 60 if thorough else 12)
        for cut in rnd.sample(range(len(src) + 1), 25 if thorough else 6):
            inputs.append(src[:cut])
    inputs += ["fn main() {\n  let s = \"abc\n  def;\n}\n", "fn main() {\n  /* never closed\n  let x = 1;\n}\n", "fn main() { let x = 1 +\n\n\n",
               "fn main() {\n  let x = \"\\q\";\n}\n", "fn main() { x = ; }\n", "fn main() {\n  undefined_fn(\n    1,\n    2\n  );\n}\n",
               "fn main() {\n  let a = 1;\n  let b = a +\n    \"s\";\n}\n", "", "\n\n\n", "fn main() { } }", "fn", "fn main(", "§", "fn main() { ~ }",
               "fn main() { let héllo = 1; }", "fn main() { let s = \"héé\" + 1; }", "fn f() {}\n", "let x = 1;\n"]
    # how the text ENDS decides where "the end of input" is: every cut-off program with every kind of ending (nothing,
    # blanks, line comment without line feed, closed and unclosed block comment, CR LF, non-ASCII, a lone quote)
    endings = ["", " ", "\n", "\t", "\r\n", " // cut", "\n// cut", "// é", " /* c */", "/* open", "/**", "/", "\"", "'", "é", "\\"]
    cuts = [x for x in inputs if x and not x.endswith("\n")][:: (3 if thorough else 12)]
    for x in cuts:
        for e in endings:
            inputs.append(x + e)
    for e in endings:
        inputs += ["fn main() {" + e, "fn main() { let x = 1;\n}" + e, "import a from b;" + e, "fn main() { let s = \"a" + e, e]
    inputs = list(dict.fromkeys(inputs))
    B = 100
    for as_import in (False, True):
        srcs = inputs if not as_import else inputs[::3]
        batches = [srcs[i:i + B] for i in range(0, len(srcs), B)]
        res = pool.map([{"op": "total", "id": i, "a": {"srcs": b, "as_import": as_import, "render": True}} for i, b in enumerate(batches)],
                       timeout=120, chunk=1)
        for b, r in zip(batches, res):
            if "crash" in r or "hang" in r:
                continue          # totality is C05's business
            for src, one in zip(b, r["r"]):
                files = {"main": src} if not as_import else {"main": "import { f } from imp;\nfn main() { }\n", "imp": src}
                for p in one.get("pos", []):
                    rep.count()
                    fname = p["span"]["f"]
                    text = files.get(fname)
                    records.append(rec(p["what"], p["span"], text if text is not None else "", fileok=text is not None,
                                       rendered=p["rendered"]))
                    owners.append({"input": src[:500], "as_import": as_import, "msg": p["msg"], "span": p["span"], "what": p["what"]})
    # ---- (b) runtime failures with a known culprit
    progs = [p for p in Fam.nestings(2, rnd, sample=400 if thorough else 150) if p["feats"]["exit"] in ("throw", "fatal")]
    progs += [p for p in Fam.template_programs() if p["id"] in ("t_uncaught", "t_uncaught_in_callee", "t_index_oob", "t_index_oob_neg",
                                                                 "t_catch_fields", "t_uncaught_trailing_if", "t_uncaught_trailing_block", "t_uncaught_trailing_arm",
                                                                 "t_uncaught_trailing_fn")]
    progs += [p for p in Fam.operator_programs() if p["feats"].get("zero_divisor")]
    cases = sem.run_spec(progs, rep)
    reqs, meta = [], []
    for p in progs:
        c = cases[p["id"]]
        if c["status"] not in ("uncaught", "fatal"):
            continue
        src, spans = P.render(p)
        for b in ("vm", "tree"):
            reqs.append({"op": "run", "id": len(reqs), "a": {"modules": {"main": src}, "entry": "main", "backend": b}})
            meta.append((p, c, src, spans, b))
    res = pool.map(reqs, timeout=30)
    for (p, c, src, spans, b), r in zip(meta, res):
        if "r" not in r or not r["r"].get("outcome"):
            continue
        oc = r["r"]["outcome"]
        if oc["kind"] not in ("uncaught", "fatal") or "span" not in oc:
            continue
        rep.count()
        cul = spans.get(c["info"].get("p"))
        culprit = (cul["s"][2], cul["e"][2]) if cul else None
        records.append(rec("interrupt", oc["span"], src, fileok=oc["span"]["f"] == "main", culprit=culprit,
                           culprit_lines=(cul["s"][0], cul["e"][0]) if cul else None))
        owners.append({"program": src[:1500], "backend": b, "outcome": oc, "culprit_span": cul})
    # ---- (c) a value that does not fit an annotated `let` / an `as` is reported at that statement, however the type was
    # written: inline, by a name defined elsewhere in the file, by a name imported from another module
    casts = []
    bad = "\"[1, \\\"x\\\"]\".parse_json()"
    for how, head, ty in (("inline", "", "[int]"), ("named", "type Numbers = [int];\n", "Numbers"), ("named-far", "type Numbers = [int];\n" + "\n" * 6, "Numbers"),
                          ("imported", "import type Numbers from lib;\n", "Numbers")):
        for form in ("let n: %s = %s;" % (ty, bad), "let n = %s as %s;" % (bad, ty), "let j: any = %s;\n    let n: %s = j;" % (bad, ty)):
            src = head + "fn pad() { }\n\nfn main() {\n    println(\"before\");\n    " + form + "\n    println(n);\n}\n"
            lines = src.split("\n")
            cl = max(i for i, l in enumerate(lines) if "let n" in l) + 1
            casts.append((how, src, cl))
    # the same for object types: every way of not fitting (a field missing, of another type, too many), the type used as it is,
    # inside an option, inside a list
    objty = "{ x: int,\n    y: int }"
    for how, head, ty in (("inline", "", "{ x: int, y: int }"), ("named", "type Point = %s;\n" % objty, "Point"), ("named-far", "type Point = %s;\n" % objty + "\n" * 6, "Point"),
                          ("imported", "import type Point from lib;\n", "Point")):
        for wrap, jwrap in (("%s", "%s"), ("?%s", "%s"), ("[%s]", "[%s]")):
            for fail, val in (("missing", "{\\\"x\\\":1}"), ("wrong-type", "{\\\"x\\\":1,\\\"y\\\":\\\"s\\\"}"), ("extra", "{\\\"x\\\":1,\\\"y\\\":2,\\\"z\\\":3}")):
                badv = "\"" + (jwrap % val) + "\".parse_json()"
                t = wrap % ty
                for form in ("let n: %s = %s;" % (t, badv), "let n = %s as %s;" % (badv, t), "let j: any = %s;\n    let n: %s = j;" % (badv, t)):
                    src = head + "fn pad() { }\n\nfn main() {\n    println(\"before\");\n    " + form + "\n    println(n);\n}\n"
                    lines = src.split("\n")
                    cl = max(i for i, l in enumerate(lines) if "let n" in l) + 1
                    casts.append((how + " object " + fail + " " + wrap, src, cl))
    creqs = [{"op": "run", "id": i, "a": {"modules": {"main": src, "lib": "pub type Numbers = [int];\npub type Point = { x: int,\n    y: int };\nfn main() { }\n"}, "entry": "main", "backend": b}}
             for i, (how, src, cl) in enumerate(casts) for b in ("vm", "tree")]
    cres = pool.map(creqs, timeout=30)
    k = 0
    for how, src, cl in casts:
        for b in ("vm", "tree"):
            r = cres[k]
            k += 1
            if "r" not in r or not r["r"].get("accepted"):
                raise C.Machinery("a cast-position program of C08 does not run: %s\n%s" % (str(r)[:300], src[:300]))
            oc = r["r"].get("outcome") or {}
            if oc.get("kind") not in ("uncaught", "fatal") or "span" not in oc:
                # (every one of these values must be refused: C12 decides that; a program which goes through has no position to look at)
                raise C.Machinery("a cast-position program of C08 is not refused: %s\n%s" % (oc, src[:400]))
            rep.count()
            start = sum(len(l) + 1 for l in src.split("\n")[:cl - 1])
            records.append(rec("interrupt", oc["span"], src, fileok=oc["span"]["f"] == "main", culprit=(start, start + len(src.split("\n")[cl - 1])),
                               culprit_lines=(cl, cl)))
            owners.append({"program": src, "backend": b, "outcome": oc, "how": how})
    # ---- TLC evaluates the predicates on every record
    for r in records:
        rep.nontrivial(json.dumps(r, sort_keys=True))
    text = "\n".join(json.dumps(r) for r in records) + "\n"
    t = C.run_tlc("TraceSpans", "SPECIFICATION Spec\nPOSTCONDITION AllChecked\nCHECK_DEADLOCK FALSE\n", files=[("spans.ndjson", text)],
                  workers=1, timeout=1800, heap="16g", tags=("BAD",))
    C.tlc_must_pass(t, "TraceSpans")
    rep.add_tlc(t)
    rep.cov["traces_validated_against_impl"] += 1
    for bd in t.tagged["BAD"]:
        o = owners[bd["i"] - 1]
        rec_ = records[bd["i"] - 1]
        rep.fail({"family": "runtime" if rec_["what"] == "interrupt" else "static", "kind": bd["bad"], "what": rec_["what"],
                  "backend": o.get("backend"), "zero_span": rec_["whole"]}, {"owner": o, "record": {k: v for k, v in rec_.items() if k != "lens"}})
    rep.notes["position_records"] = len(records)
    for i in rnd.sample(range(len(records)), 3):
        rep.sample({"owner": {k: (v if not isinstance(v, str) else v[:160]) for k, v in owners[i].items()},
                    "record": {k: v for k, v in records[i].items() if k != "lens"}})
    return rep.finish()
