"""C17 - spawned threads run to completion, are waited for, and do not race."""
import collections
import random
import re

from . import common as C
from . import cores as K


def spawn_program(n, rnd, fatal_at=None, nested=False):
    """main spawns n children; child k prints three lines with its arguments; -> (source, per-core line lists)"""
    lines = collections.OrderedDict()
    src = ["let cnt = 0;", "let glist = [0];", ""]
    src.append("fn child(id: int, tag: str, l: [int]) {")
    src.append("    println(\"c\", id, tag, \"a\", l);")
    src.append("    cnt += id;")
    src.append("    let seen = cnt;")
    # (`cnt += id` is a read and a write: another thread's stale write may follow it, but whatever is written is >= 1)
    src.append("    println(\"c\", id, tag, \"b\", seen >= 1);")
    if nested:
        src.append("    if id == 1 { spawn grand(id * 10, tag + \"g\"); }")
    if fatal_at is not None:
        src.append("    if id == %d { throw(\"child failed\"); }" % fatal_at)
    src.append("    println(\"c\", id, tag, \"c\", cnt >= 0);")
    src.append("}")
    src.append("fn grand(id: int, tag: str) { println(\"g\", id, tag); }")
    src.append("fn main() {")
    src.append("    println(\"main start\");")
    for k in range(1, n + 1):
        tag = "t%d" % rnd.randint(0, 99)
        arg = "[%d, %d]" % (k, k * 2)
        src.append("    spawn child(%d, \"%s\", %s);" % (k, tag, arg))
        ls = ["c %d %s a [%d, %d]" % (k, tag, k, k * 2), "c %d %s b true" % (k, tag), "c %d %s c true" % (k, tag)]
        if fatal_at == k:
            ls = ls[:2]
        lines["child%d" % k] = ls
        if nested and k == 1:
            lines["grand"] = ["g 10 %sg" % tag]
    src.append("    println(\"main end\");")
    src.append("}")
    lines["main"] = ["main start", "main end"]
    return "\n".join(src) + "\n", lines


def join_program(n, rnd, fatal_at=None, nested=False):
    """main spawns n threads and joins them (in another order, some twice, some never); a thread's result is computed from
    the arguments given at the spawn.  -> (source, per-core line lists, [(line of the joiner, core joined before it)])"""
    lines = collections.OrderedDict()
    afters = []
    src = ["fn leaf(id: int, l: [int]) -> int {", "    println(\"leaf\", id, \"a\", l);", "    l.push(id);"]
    if fatal_at is not None:
        src.append("    if id == %d { throw(\"child failed\"); }" % fatal_at)
    src += ["    println(\"leaf\", id, \"b\", l.len());", "    id * 100 + l.len()", "}",
            "fn mid(id: int) -> int {", "    let a = spawn leaf(id * 10 + 1, [id]);", "    let b = spawn leaf(id * 10 + 2, [id, id]);",
            "    let r = b.join() + a.join();", "    println(\"mid\", id, r);", "    r", "}",
            "fn quiet(id: int) { println(\"quiet\", id); }",
            "fn texts(id: int) -> [str] { println(\"texts\", id); [id.to_string(), \"x\"] }",
            "fn main() {", "    println(\"main start\");"]

    def leaf_lines(i, ln):
        ls = ["leaf %d a [%s]" % (i, ", ".join(str(x) for x in ln)), "leaf %d b %d" % (i, len(ln) + 1)]
        return ls[:1] if fatal_at == i else ls
    main_lines = ["main start"]
    kinds = {}
    for k in range(1, n + 1):
        kind = rnd.choice(["leaf", "leaf", "quiet", "texts"] + (["mid"] if nested else []))
        if k == fatal_at:
            kind = "leaf"               # the thread which fails is one whose result somebody waits for
        kinds[k] = kind
        if kind == "leaf":
            ln = [rnd.randint(0, 9) for _ in range(rnd.randint(0, 3))]
            src.append("    let l%d = [%s];" % (k, ", ".join(map(str, ln))) if ln else "    let l%d: [int] = [];" % k)
            src.append("    let h%d = spawn leaf(%d, l%d);" % (k, k, k))
            src.append("    l%d.push(77);" % k)             # the thread keeps the value given at the spawn
            lines["t%d" % k] = leaf_lines(k, ln)
            kinds[k] = ("leaf", k * 100 + len(ln) + 1)
        elif kind == "mid":
            src.append("    let h%d = spawn mid(%d);" % (k, k))
            a, b = k * 10 + 1, k * 10 + 2
            lines["t%da" % k] = leaf_lines(a, [k])
            lines["t%db" % k] = leaf_lines(b, [k, k])
            r = a * 100 + 2 + b * 100 + 3
            lines["t%d" % k] = ["mid %d %d" % (k, r)]
            afters += [("mid %d %d" % (k, r), "t%da" % k), ("mid %d %d" % (k, r), "t%db" % k)]
            kinds[k] = ("mid", r)
        elif kind == "quiet":
            src.append("    let h%d = spawn quiet(%d);" % (k, k))
            lines["t%d" % k] = ["quiet %d" % k]
            kinds[k] = ("quiet", None)
        else:
            src.append("    let h%d = spawn texts(%d);" % (k, k))
            lines["t%d" % k] = ["texts %d" % k]
            kinds[k] = ("texts", "[%d, x]" % k)
    order = list(range(1, n + 1))
    rnd.shuffle(order)
    if fatal_at is not None and rnd.randrange(3):
        order.remove(fatal_at)
        order.insert(0, fatal_at)       # mostly joined first: nothing of the joiner may follow that join
    for k in order:
        kind, val = kinds[k]
        how = rnd.randrange(4) if k != fatal_at else 1
        if how == 0:
            continue                    # never joined: the host's wait still waits for it
        reps = 2 if how == 3 else 1
        for j in range(reps):
            if kind == "quiet":
                src.append("    h%d.join();" % k)
                src.append("    println(\"joined\", %d, %d);" % (k, j))
                line = "joined %d %d" % (k, j)
            elif kind == "texts":
                src.append("    let v%d_%d = h%d.join();" % (k, j, k))
                src.append("    v%d_%d.push(\"mine\");" % (k, j))       # what join gives out is the joiner's own
                src.append("    println(\"joined\", %d, v%d_%d.len(), h%d.join());" % (k, k, j, k))
                line = "joined %d 3 %s" % (k, val)
            else:
                src.append("    println(\"joined\", %d, h%d.join(), %d);" % (k, k, j))
                line = "joined %d %d %d" % (k, val, j)
            main_lines.append(line)
            afters.append((line, "t%d" % k))
            if kind == "mid":
                afters += [(line, "t%da" % k), (line, "t%db" % k)]
    src += ["    println(\"main end\");", "}"]
    main_lines.append("main end")
    if fatal_at is not None and kinds.get(fatal_at, ("", 0))[0] != "leaf":
        fatal_at = None
    lines["main"] = main_lines
    return "\n".join(src) + "\n", lines, afters, fatal_at


def check_after(out, lines, afters):
    """a line printed after a join comes after every line of the joined thread"""
    got = [l for l in out.split("\n") if l != ""]
    for line, core in afters:
        if line not in got:
            continue
        at = got.index(line)
        for l in lines[core]:
            if l not in got:
                return "%r is printed although %s has not printed %r" % (line, core, l)
            if got.index(l) > at:
                return "%r is printed before %r of the joined %s" % (line, l, core)
    return None


def check_output(out, lines, fatal):
    """every line once and whole, per-core order preserved; with a fatal core the rest may be cut short"""
    got = [l for l in out.split("\n") if l != ""]
    if out and not out.endswith("\n"):
        return "output does not end with a newline (torn line?)"
    allowed = collections.Counter(l for ls in lines.values() for l in ls)
    seen = collections.Counter(got)
    for l, c in seen.items():
        if allowed[l] < c:
            return "line %r appears %d times, expected at most %d" % (l, c, allowed[l])
    for core, ls in lines.items():
        pos = [got.index(l) for l in ls if l in got]
        if pos != sorted(pos):
            return "lines of %s out of order" % core
        present = [l in got for l in ls]
        if not fatal and not all(present):
            return "line of %s missing: %r" % (core, ls[present.index(False)])
        # a prefix property even when cancelled
        if present != sorted(present, reverse=True):
            return "%s printed a later line without an earlier one" % core
    return None


def run(args):
    rep = C.Report("C17")
    thorough = C.tier() == "thorough"
    rnd = random.Random(C.seed())
    rep.cov["rule"] = ("(M) HmsCores model checked (fixed protocol: safety + liveness, also with joins of threads and with "
                       "WaitNonConsuming beside Wait; original protocol and original watcher refuted); (A) schedules chosen by TLC "
                       "(with and without joins and cancellation) replayed with the hooks as gates; "
                       "(B) programs spawning 1..8 cores that read/write globals and print, programs which join their threads (in "
                       "another order, twice, never, nested, after a failure) and the same watched by 1-2 WaitNonConsuming goroutines run free under "
                       "GOMAXPROCS in {1,2,4,16} with seeded yields in the hooks, each execution's event trace validated "
                       "by TLC against TraceCores with all HmsCores invariants; the same programs under the race "
                       "detector; non-trivial = distinct (program, procs, jitter seed) executions with >= 1 spawned core")
    rep.assumptions = ["the Go scheduler's interleavings are sampled (seeded yields, varying GOMAXPROCS), not enumerated; "
                       "the model is what is explored exhaustively",
                       "language-level races on `cnt += n` (two critical sections) are allowed; only Go-level data races "
                       "and lost/duplicated/torn output are violations"]
    K.model_check(rep, thorough)
    pool = C.Pool(C.build_worker())
    runs = []
    watched = set()
    nprog = 40 if thorough else 12
    for i in range(nprog):
        n = 1 + (i % 8)
        fatal = (1 + rnd.randrange(n)) if i % 4 == 3 else None
        src, lines = spawn_program(n, rnd, fatal_at=fatal, nested=(i % 3 == 1))
        for procs in ((1, 2, 4, 16) if thorough else (1, 4, 16)):
            for j in range(3 if thorough else 2):
                runs.append((src, lines, fatal, procs, rnd.randrange(1, 1 << 30), None))
        # the same with threads which are joined for their results
        src, lines, afters, jfatal = join_program(n, rnd, fatal_at=fatal, nested=(i % 3 != 0))
        for procs in ((1, 2, 4, 16) if thorough else (1, 4, 16)):
            for j in range(3 if thorough else 2):
                runs.append((src, lines, jfatal, procs, rnd.randrange(1, 1 << 30), afters))
        # and with further host goroutines which wait without consuming (WaitNonConsuming) beside the host's Wait
        watched.add(len(runs))
        runs.append((src, lines, jfatal, 4, rnd.randrange(1, 1 << 30), afters))
        watched.add(len(runs))
        runs.append(spawn_program(n, rnd, fatal_at=None, nested=True) + (None, 16, rnd.randrange(1, 1 << 30), None))
    reqs = [{"op": "run", "id": i, "a": {"modules": {"main": s}, "entry": "main", "backend": "vm", "trace": True,
                                         "jitter": j, "procs": p, "timeout_ms": 10000, "watchers": (1 + i % 2) if i in watched else 0}}
            for i, (s, l, f, p, j, af) in enumerate(runs)]
    res = pool.map(reqs, timeout=30)
    traces = []
    owners = []
    for (src, lines, fatal, procs, jit, afters), r in zip(runs, res):
        rep.count()
        rep.nontrivial((src, procs, jit))
        feat = {"family": "spawn" if afters is None else "spawn-join", "procs": procs, "fatal": fatal is not None, "ncores": len(lines) - 1}
        if "crash" in r or "hang" in r:
            rep.fail(dict(feat, kind="hostcrash" if "crash" in r else "hang",
                          panic=(r.get("crash") or {}).get("stderr", "")[:200]), {"program": src, "real": r})
            continue
        rr = r["r"]
        if not rr["accepted"]:
            raise C.Machinery("spawn program rejected by the analyzer: %s" % rr["diags"][:3])
        oc = rr["outcome"]
        if fatal is None and oc["kind"] != "done":
            rep.fail(dict(feat, kind="outcome", got=oc["kind"]), {"program": src, "outcome": oc, "out": rr["out"]})
        if fatal is not None and not (oc["kind"] == "uncaught" and oc["msg"].startswith("child failed")):
            rep.fail(dict(feat, kind="fatal-not-reported", got=oc["kind"]), {"program": src, "outcome": oc, "out": rr["out"]})
        err = check_output(rr["out"], lines, fatal is not None)
        if err:
            rep.fail(dict(feat, kind="output", what=re.sub(r"\d+", "N", err)[:60]), {"program": src, "out": rr["out"], "error": err})
        err = check_after(rr["out"], lines, afters) if afters else None
        if err:
            rep.fail(dict(feat, kind="join-order", what=re.sub(r"\d+", "N", err)[:60]), {"program": src, "out": rr["out"], "error": err})
        if rr.get("goroutines", 0) > 0:
            rep.fail(dict(feat, kind="goroutine-leak"), {"program": src, "goroutines": rr["goroutines"]})
        resd = rr.get("residue") or {}
        if resd.get("watchers"):
            feat["family"] += "-watched"
            if oc["kind"] == "wait-stuck" or resd.get("watchers_returned") != resd["watchers"]:
                rep.fail(dict(feat, kind="wait-wedged", wait=oc["kind"]), {"program": src, "residue": resd, "outcome": oc})
            elif resd.get("cores_seen_on_return"):
                rep.fail(dict(feat, kind="watcher-returned-early"), {"program": src, "residue": resd})
        traces.append(rr["trace"])
        owners.append((src, procs, jit))
    # trace validation in batches (a rejected trace stops its batch; the rest is re-validated without it)
    K.validate_all(traces, owners, rep, {"family": "spawn"})
    if traces:
        t = traces[0]
        rep.sample({"program": owners[0][0], "procs": owners[0][1],
                    "trace_events": [e["e"] + ":" + str(e.get("c")) for e in t if e["e"] in K.KEEP][:60]})
    # ---- A: schedules chosen by TLC (random walks of HmsCores), replayed with the hooks as gates
    nsched = 400 if thorough else 120
    scheds = K.export_schedules(rep, nsched, C.seed(), cancel=False) + K.export_schedules(rep, nsched // 2, C.seed() + 1, cancel=True) + \
        K.export_schedules(rep, nsched // 2, C.seed() + 2, cancel=False, joins=3) + K.export_schedules(rep, nsched // 4, C.seed() + 3, cancel=True, joins=2)
    rep.notes["schedules_with_joins"] = sum(1 for s in scheds if any(a == "JoinBegin" for p, a in s["hist"]))
    followed = 0
    rtraces = []
    rowners = []
    for s, src, r in K.replay_schedules(scheds, rep, pool):
        rep.count()
        rep.nontrivial(("sched", src, str(s["hist"])))
        feat = {"family": "schedule-replay", "steps": len(s["hist"])}
        if "crash" in r or "hang" in r:
            rep.fail(dict(feat, kind="hostcrash" if "crash" in r else "hang"), {"program": src, "schedule": s["hist"], "real": r})
            continue
        rr = r["r"]
        resd = rr["residue"]
        ok_follow = resd.get("sched_pos") == resd.get("sched_len") and not resd.get("diverged")
        call = rr["calls"][0]
        oc = call.get("outcome") or {}
        if ok_follow:
            followed += 1
            want = s["ret"]
            got_kind = {"done": "nil", "uncaught": "fatal", "fatal": "fatal", "terminated": "term"}.get(oc.get("kind"), oc.get("kind"))
            if want["k"] == "nil":
                good = got_kind == "nil"
            else:
                good = got_kind == want["i"] and oc.get("core") == want["c"]
            if not good:
                rep.fail(dict(feat, kind="replay-outcome", want=str(want.get("i", "nil")), got=str(got_kind)),
                         {"program": src, "schedule": s["hist"], "spec_ret": want, "real": oc})
            # every core that ended normally printed both of its lines, every started core its first
            for c, kind in enumerate(s["res"], start=1):
                if s["cst"][c - 1] == "done" and kind == "nil" and ("start %d\nend %d\n" % (c, c)) not in rr["out"] and \
                        not ("start %d\n" % c in rr["out"] and "end %d\n" % c in rr["out"]):
                    rep.fail(dict(feat, kind="replay-output"), {"program": src, "out": rr["out"], "core": c})
        if rr.get("goroutines", 0) > 0:
            rep.fail(dict(feat, kind="goroutine-leak"), {"program": src, "schedule": s["hist"], "goroutines": rr["goroutines"]})
        if call.get("cores", 0) != 0:
            rep.fail(dict(feat, kind="cores-left"), {"program": src, "schedule": s["hist"], "cores": call.get("cores")})
        rtraces.append(rr["trace"])
        rowners.append((src, s["hist"]))
    rep.notes["schedules_exported"] = len(scheds)
    rep.notes["schedules_followed_to_the_end"] = followed
    follow_problem = None
    if scheds and followed < len(scheds) // 2:
        # inconclusive on its own (exit 2) - but the free-running traces below may still show a violation
        follow_problem = "schedule replay follows only %d of %d schedules" % (followed, len(scheds))
    K.validate_all(rtraces, rowners, rep, {"family": "schedule-replay"})
    if scheds:
        rep.sample({"schedule": scheds[0]["hist"], "program": K.program_for(scheds[0])[0], "spec_ret": scheds[0]["ret"]})

    # the same programs under the race detector
    racebin = C.build_worker(race=True)
    rpool = C.Pool(racebin, n=8, env=dict(C.GOENV, GORACE="halt_on_error=1 exitcode=66"))
    rreqs = reqs[::5 if not thorough else 2]
    rruns = runs[::5 if not thorough else 2]
    rres = rpool.map([dict(q, a=dict(q["a"], trace=False, jitter=0)) for q in rreqs], timeout=60)
    nrace = 0
    for (src, lines, fatal, procs, jit, afters), r in zip(rruns, rres):
        rep.count()
        nrace += 1
        if "crash" in r:
            st = r["crash"]["stderr"]
            kind = "data-race" if "DATA RACE" in st else "hostcrash"
            where = re.findall(r"homescript/[\w/]+\.go:\d+", st)[:4]
            rep.fail({"family": "spawn-race", "kind": kind, "where": " ".join(sorted(set(where)))[:160]},
                     {"program": src, "stderr": st[:3000]})
        elif "hang" in r:
            rep.fail({"family": "spawn-race", "kind": "hang"}, {"program": src})
    # shared data: a list given to spawn and modified by the spawner afterwards (the child must see the value
    # given at the spawn); a scalar global updated by several cores; a global list pushed to by several cores
    shared = {
        "arg-list-mutated-after-spawn": (
            "fn child(l: [int]) { let s = 0; for i in 0..150 { s += l.len(); } println(\"child\", l, s); }\n"
            "fn main() { let l = [1]; spawn child(l); for i in 0..150 { l.push(i); } println(\"main\", l.len()); }\n",
            ["child [1] 150", "main 151"]),
        "global-scalar": (
            "let cnt = 0;\nfn child(n: int) { for i in 0..150 { cnt += 1; } println(\"child\", n); }\n"
            "fn main() { spawn child(1); spawn child(2); for i in 0..150 { cnt += 1; } println(\"main\"); }\n",
            ["child 1", "child 2", "main"]),
        "global-list-push": (
            "let g = [0];\nfn child(n: int) { for i in 0..100 { g.push(n); } println(\"child\", n); }\n"
            "fn main() { spawn child(1); spawn child(2); for i in 0..100 { g.push(0); } println(\"main\"); }\n",
            ["child 1", "child 2", "main"]),
    }
    # the same for every shape of argument that holds a list or an object somewhere inside: the thread gets the VALUE given
    # at the spawn, whatever the spawner does to the parts afterwards and whatever the thread does to its copy
    shapes = [   # (name, parameter type, argument expression over l / ob, what the thread reads, what it shows)
        ("list", "[int]", "l", "a.len()", "[1]"),
        ("object", "{ n: int, l: [int] }", "ob", "a.l.len() + a.n", "{\n    l: [1],\n    n: 1\n}"),
        ("option-of-list", "?[int]", "?l", "a.unwrap().len()", "Some([1])"),
        ("option-of-object", "?{ n: int, l: [int] }", "?ob", "a.unwrap().l.len()", "Some({\n    l: [1],\n    n: 1\n})"),
        ("list-of-lists", "[[int]]", "[l, l]", "a[0].len() + a[1].len()", "[[1], [1]]"),
        ("list-of-options", "[?[int]]", "[?l]", "a[0].unwrap().len()", "[Some([1])]"),
        ("object-with-option", "{ o: ?[int] }", "new { o: ?l }", "a.o.unwrap().len()", "{\n    o: Some([1])\n}"),
        ("option-of-option", "??[int]", "??l", "a.unwrap().unwrap().len()", "Some(Some([1]))"),
    ]
    for sname, ty, argx, read, shown in shapes:
        shared["arg-%s-mutated-by-spawner" % sname] = (
            "fn child(a: %s) { let s = 0; for i in 0..150 { s += %s; } println(\"child\", a); }\n"
            "fn main() { let l = [1]; let ob = new { n: 1, l: l }; spawn child(%s); for i in 0..150 { l.push(i); ob.n += 1; } println(\"main\", l.len(), ob.n); }\n"
            % (ty, read, argx), ["child " + shown, "main 151 151"])
    for sname, ty, argx, mut in (("list", "[int]", "l", "a.push(i); a[0] = 9;"), ("option-of-list", "?[int]", "?l", "a.unwrap().push(i); a.unwrap()[0] = 9;"),
                                 ("object", "{ n: int, l: [int] }", "ob", "a.l.push(i); a.n += 1;"),
                                 ("option-of-object", "?{ n: int, l: [int] }", "?ob", "a.unwrap().l.push(i); a.unwrap().n += 1;"),
                                 ("list-of-options", "[?[int]]", "[?l]", "a[0].unwrap().push(i);"), ("list-of-texts", "[str]", "ts", "a[0] = \"changed\"; a.push(\"x\");")):
        shared["arg-%s-mutated-by-thread" % sname] = (
            "fn child(a: %s) { for i in 0..150 { %s } println(\"child\"); }\n"
            "fn main() { let l = [1]; let ts = [\"a\", \"b\"]; let ob = new { n: 1, l: l }; spawn child(%s); let s = 0; for i in 0..3000 { s += l.len() + ob.n + ts.len(); } "
            "println(\"main\", l, ob.n, ts, s); }\n" % (ty, mut, argx), ["child", "main [1] 1 [a, b] 12000"])
    sreqs = []
    smeta = []
    for name, (src, want) in shared.items():
        for procs in (2, 8):
            sreqs.append({"op": "run", "id": len(sreqs), "a": {"modules": {"main": src}, "entry": "main", "backend": "vm",
                                                              "procs": procs, "timeout_ms": 15000}})
            smeta.append((name, src, want))
    sres = rpool.map(sreqs, timeout=60)
    for (name, src, want), r in zip(smeta, sres):
        rep.count()
        rep.nontrivial((name, src))
        nrace += 1
        feat = {"family": "spawn-shared", "variant": name}
        if "crash" in r:
            st = r["crash"]["stderr"]
            rep.fail(dict(feat, kind="data-race" if "DATA RACE" in st else "hostcrash"), {"program": src, "stderr": st[:3000]})
        elif "hang" in r:
            rep.fail(dict(feat, kind="hang"), {"program": src})
        else:
            # (what a thread prints stays together; the threads' outputs may come in any order)
            got = r["r"]["out"]
            rest = got
            for w in want:
                if w + "\n" in rest:
                    rest = rest.replace(w + "\n", "", 1)
                else:
                    rest = None
                    break
            if rest != "" or r["r"]["outcome"]["kind"] != "done":
                rep.fail(dict(feat, kind="output"), {"program": src, "out": r["r"]["out"], "want": want,
                                                    "outcome": r["r"]["outcome"]})
    rep.notes["race_detector_runs"] = nrace
    if follow_problem and not rep.violations:
        raise C.Machinery(follow_problem)
    return rep.finish()
