"""C04 - the tree-walking interpreter and the VM agree (and both agree with HmsSem where it applies)."""
import random

from . import common as C
from . import families as Fam
from . import sem
from . import c01


def run(args):
    rep = C.Report("C04")
    thorough = C.tier() == "thorough"
    rnd = random.Random(C.seed())
    rep.cov["rule"] = ("the program families of C01 (operators, templates, nestings, seeded random programs) run on both "
                       "backends; each backend is compared with HmsSem's observation and the two with each other "
                       "(same text, same outcome class, same message, corresponding fatal kind); non-trivial = "
                       "distinct program texts")
    rep.assumptions = ["shared fragment only: no spawn, no trigger, no -> / ~> member access",
                       "floats outside the dyadic model are compared between the backends only"]
    progs = c01.programs(thorough, C.seed() + 1000, rnd)
    pool = C.Pool(C.build_worker())
    results, cases, rendered = sem.run_programs(progs, rep, backends=("vm", "tree"), pool=pool)
    from . import int64
    int64.run_family(rep, pool, backends=("vm", "tree"))
    # cross comparison, independent of the oracle
    by = {}
    for p, b, v, r in results:
        by.setdefault(p["id"], {})[b] = (p, r)
    pairs = 0
    for pid, d in by.items():
        if "vm" not in d or "tree" not in d:
            continue
        (p, a), (_, t) = d["vm"], d["tree"]
        if "r" not in a or "r" not in t or not a["r"]["accepted"]:
            continue
        pairs += 1
        oa, ot = a["r"]["outcome"], t["r"]["outcome"]
        same = (a["r"]["out"] == t["r"]["out"] and oa["kind"] == ot["kind"] and oa.get("fatal") == ot.get("fatal")
                and sem.first_lines(oa.get("msg", "")) == sem.first_lines(ot.get("msg", "")))
        if not same:
            rep.fail(dict(p["feats"], kind="backends-disagree", family=p["feats"]["family"], id=pid),
                     {"program": rendered[pid][0], "vm": {"out": a["r"]["out"], "outcome": oa},
                      "tree": {"out": t["r"]["out"], "outcome": ot}})
    rep.notes["backend_pairs_compared"] = pairs
    ok = [p for p in progs if p["id"] in rendered]
    for p in rnd.sample(ok, 3):
        rep.sample({"family": p["feats"]["family"], "program": rendered[p["id"]][0][:1000],
                    "expected_status": cases[p["id"]]["status"]})
    return rep.finish()
