"""C04 - the tree-walking interpreter and the VM agree (and both agree with HmsSem where it applies)."""
import random

from . import common as C
from . import families as Fam
from . import sem
from . import c01


def run(args):
    rep = C.Report("C04")
    thorough = C.tier() == "thorough"
    rnd = random.Random(C.seed())
    rep.cov["rule"] = ("the program families of C01 (operators, templates, nestings, seeded random programs) run on both "
                       "backends; each backend is compared with HmsSem's observation and the two with each other "
                       "(same text, same outcome class, same message, corresponding fatal kind); programs HmsSem does not decide, texts "
                       "joined at run time where characters combine, failing builtins and the float edges of HmsFloat are compared between "
                       "the backends as well; non-trivial = distinct program texts")
    rep.assumptions = ["shared fragment only: no trigger; threads only where the functions are pure and results scalars (the interpreter has no threads)",
                       "floats outside the dyadic model are compared between the backends only"]
    progs = c01.programs(thorough, C.seed() + 1000, rnd)
    pool = C.Pool(C.build_worker())
    results, cases, rendered = sem.run_programs(progs, rep, backends=("vm", "tree"), pool=pool)
    from . import int64
    int64.run_family(rep, pool, backends=("vm", "tree"))
    # cross comparison, independent of the oracle
    by = {}
    for p, b, v, r in results:
        by.setdefault(p["id"], {})[b] = (p, r)
    pairs = 0
    for pid, d in by.items():
        if "vm" not in d or "tree" not in d:
            continue
        (p, a), (_, t) = d["vm"], d["tree"]
        if "r" not in a or "r" not in t or not a["r"]["accepted"]:
            continue
        pairs += 1
        oa, ot = a["r"]["outcome"], t["r"]["outcome"]
        same = (a["r"]["out"] == t["r"]["out"] and oa["kind"] == ot["kind"] and oa.get("fatal") == ot.get("fatal")
                and sem.first_lines(oa.get("msg", "")) == sem.first_lines(ot.get("msg", "")))
        if not same:
            rep.fail(dict(p["feats"], kind="backends-disagree", family=p["feats"]["family"], id=pid),
                     {"program": rendered[pid][0], "vm": {"out": a["r"]["out"], "outcome": oa},
                      "tree": {"out": t["r"]["out"], "outcome": ot}})
    # programs the specification does not decide (out of its model) and free-text programs over what it leaves out
    # (text beyond ASCII, catchability of failing builtins, members, JSON): the two backends are still compared with
    # each other - the property does not need an oracle for that
    from . import progs as P
    extra = [(p["id"], P.render(p)[0], p["feats"].get("family", "?")) for p in progs if cases[p["id"]]["status"] == "oom" and not p["feats"].get("vm_only")]
    texts = ['"e\u0301"', '"ae\u0301o\u0308b"', '"\u00e9"', '"\U0001F600a"', '"Stra\u00dfe"', '"\u01c4"', '"a\u200db"']
    for i, t in enumerate(texts):
        extra.append(("text%d" % i, "fn main() { let s = %s; println(s.len(), s == %s, s.to_upper(), s.to_lower(), s.contains(\"e\"), s.split(\"e\"), s.replace(\"e\", \"E\"), "
                      "s.repeat(2), s.starts_with(\"e\"), s.compare_lev(\"e\")); for c in s { print(c.len(), \" \"); } println(\"\"); let l = [s, %s]; l.sort(); println(l, l.join(\"|\"), [s].to_json()); "
                      "println(s[0], s.substring(1)); let o = new { ? }; o.set(s, 1); println(o.keys(), o.get(s), o.to_json()); }\n" % (t, texts[(i + 1) % len(texts)], texts[(i + 2) % len(texts)]), "free-text"))
    # text put together at run time: what stands at a junction may combine (letter + accent, Hangul jamo, two accents which
    # have to be reordered): the parts, the way of joining them and what is asked of the result
    parts = [('"e"', '"\u0301"'), ('"\u1100"', '"\u1161"'), ('"a\u0323"', '"\u0302"'), ('"\u0041"', '"\u030a"'), ('"o"', '"\u0308x"'),
             ('"ab"', '"cd"'), ('"\u00e9"', '"\u0301"'), ('"q\u0307"', '"\u0323"')]
    joins = ["let s = a + b;", "let s = a; s += b;", "let s = \"\"; for c in [a, b] { s += c; }", "let s = [a, b].join(\"\");", "let s = cat(a, b);",
             "let s = a.repeat(1) + b.replace(\"zz\", \"\");", "let s = fmt(\"%s%s\", a, b);"]
    for i, (a, b) in enumerate(parts):
        for j, jn in enumerate(joins):
            extra.append(("junction%d_%d" % (i, j), "fn cat(x: str, y: str) -> str { x + y }\nfn main() { let a = %s; let b = %s; %s println(s.len(), s, s == a + b, s == %s, s[0].len(), s.to_upper().len()); "
                          "for c in s { print(c.len(), \" \"); } println(\"\"); println((s + s).len(), [s, a].contains(a + b), s.substring(1).len(), [s].to_json(), s.split(a).len()); "
                          "let o = new { ? }; o.set(s, 1); println(o.keys()[0].len(), o.get(a + b)); }\n" % (a, b, jn, a[:-1] + b[1:]), "free-text"))
    failing = ['"zz".parse_json()', '"x".parse_int()', '"x".parse_float()', '"x".parse_bool()', 'none.unwrap()', 'none.expect("m")', '[1][5]', '"ab"[7]', '"ab".substring(9)', '"a".repeat(0 - 1)',
               '1 / 0', '1 % 0', '1.5 / 0.0', '2 ** (0 - 1)', '1 << 64', '1 << (0 - 1)', '[1].remove(4)', '[1].insert(9, 1)', '(new { ? })~>k', '"[1]".parse_json() as str', '[1..2].to_json()',
               'assert(false)', 'throw("t")', '"é".parse_int()', '9223372036854775807 + 1', '(0 - 9223372036854775807 - 1) / (0 - 1)']
    for i, e in enumerate(failing):
        extra.append(("failing%d" % i, "fn main() { let o: ?int = none; try { let v%s = %s; println(\"value\"%s); } catch e { println(\"caught\"); } println(\"after\"); }\n" % (
            ": any" if e.endswith("parse_json()") or "~>" in e else "", e.replace("none.", "o."),
            "" if e.endswith("parse_json()") or "~>" in e or ".remove(" in e or ".insert(" in e or e.startswith("assert") else ", v"), "failing-builtin"))
    xreqs = [{"op": "run", "id": i, "a": {"modules": {"main": src}, "entry": "main", "backend": b, "timeout_ms": 8000}}
             for i, (pid, src, fam) in enumerate(extra) for b in ("vm", "tree")]
    xres = pool.map(xreqs, timeout=30)
    for k, (pid, src, fam) in enumerate(extra):
        a, t = xres[2 * k], xres[2 * k + 1]
        rep.count()
        rep.nontrivial(src)
        feat = {"family": fam, "kind": "backends-disagree", "id": pid if fam != "free-text" and fam != "failing-builtin" else fam}
        if "r" not in a or "r" not in t:
            bad = a if "r" not in a else t
            rep.fail(dict(feat, kind="hostcrash" if "crash" in bad else "hang", backend="vm" if "r" not in a else "tree",
                          panic=sem.panic_class((bad.get("crash") or {}).get("stderr", ""))), {"program": src, "real": str(bad)[:1200]})
            continue
        if not a["r"]["accepted"]:
            if fam in ("free-text", "failing-builtin"):
                raise C.Machinery("the %s program %s is not accepted: %s" % (fam, pid, [d["msg"] for d in a["r"]["diags"] if d["level"] == "Error"][:2] + a["r"]["syntax"][:1]))
            continue
        pairs += 1
        oa, ot = a["r"]["outcome"], t["r"]["outcome"]
        if not (a["r"]["out"] == t["r"]["out"] and oa["kind"] == ot["kind"] and oa.get("fatal") == ot.get("fatal")):
            rep.fail(feat, {"program": src, "vm": {"out": a["r"]["out"], "outcome": oa}, "tree": {"out": t["r"]["out"], "outcome": ot}})
    rep.notes["compared_without_oracle"] = len(extra)
    rep.notes["backend_pairs_compared"] = pairs
    ok = [p for p in progs if p["id"] in rendered]
    for p in rnd.sample(ok, 3):
        rep.sample({"family": p["feats"]["family"], "program": rendered[p["id"]][0][:1000],
                    "expected_status": cases[p["id"]]["status"]})
    # float values at the edges (nan, infinities, signed zeros): HmsFloat decides every comparison and arithmetic result
    from . import floatspec
    floatspec.run(rep, pool, backends=("vm", "tree"))
    return rep.finish()
