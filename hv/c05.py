"""C05 - lexing, parsing and analysis are total.

The input space comes from the specifications: HmsLex's class alphabet (all strings up to length
3/4) and lexeme catalogue (all adjacencies), token-level mutations (every prefix, single-token
deletion / replacement / insertion) of the valid programs rendered from the spec-AST families and
of the repository's examples, and parameterised nesting / size stress.  Each input is analysed as
entry module and as the text a host returns for an imported module, in memory-limited workers.
"""
import glob
import os
import random

from . import common as C
from . import c06
from . import families as Fam
from . import progs as P

BATCH = 150
REPL = ["(", ")", "{", "}", "[", "]", ";", ",", "x", "1", "\"s\"", "fn", "let", "if", "else", "match", "=>", "=", "+", "-", ".", "..",
        "as", "?", "$", "@", "#", "import", "from", "try", "catch", "for", "in", "return", "new", "spawn", "trigger", "impl", "type",
        "pub", "event", "|", "_", "->", ":", "templ", "with", "loop", "while", "break", "null", "none", "true"]


def token_texts(pool, srcs):
    """token lexemes (as source slices) of valid programs, using the real lexer's spans"""
    res = pool.map([{"op": "lex", "id": i, "a": C.cps(s)} for i, s in enumerate(srcs)], timeout=30)
    out = []
    for s, r in zip(srcs, res):
        if "r" not in r or r["r"]["status"] != "done":
            out.append(None)
            continue
        toks = []
        for t in r["r"]["toks"][:-1]:
            toks.append(s[t["s"]["i"]:t["e"]["i"] + 1])
        out.append(toks)
    return out


def mutations(toks, rnd, per_kind):
    """prefixes, deletions, replacements, insertions at token level"""
    n = len(toks)
    outs = []
    idxs = list(range(n))
    for i in (idxs if n <= per_kind else sorted(rnd.sample(idxs, per_kind))):
        outs.append(" ".join(toks[:i]))                                  # truncation
        outs.append(" ".join(toks[:i] + toks[i + 1:]))                   # deletion
        outs.append(" ".join(toks[:i] + [rnd.choice(REPL)] + toks[i + 1:]))   # replacement
        outs.append(" ".join(toks[:i] + [rnd.choice(REPL)] + toks[i:]))       # insertion
        # what the LEXER refuses, right behind a token the parser has just taken: a character that is no token at all, an
        # unfinished string / escape / operator
        bad = rnd.choice(["\u00a7", "\u00e4", "\\", "`", "#", "\"", "'", "\"\\q\"", "~", "0x", "1e", "\u2028"])
        outs.append(" ".join(toks[:i + 1]) + " " + bad + " " + " ".join(toks[i + 1:]))
        outs.append(" ".join(toks[:i + 1]) + bad + " ".join(toks[i + 1:]))
    return outs


def stress():
    out = []
    for n in (10, 100, 400, 1000):
        for opener, closer in (("(", ")"), ("[", "]"), ("{", "}"), ("!", ""), ("-", ""), ("?", ""), ("if x {", "}"),
                               ("match x { 1 => ", ", }"), ("fn() {", "}"), ("[[", "]]"), ("new { a: ", " }"), ("try {", "} catch e { }")):
            body = opener * n + "1" + closer * n
            out.append("fn main() { let v = %s; }" % body)
            out.append("fn main() { %s }" % (opener * n))                # unclosed
        out.append("fn main() { let x = 1; let v = " + "match x { _ => " * n + "1" + " }" * n + "; }")          # default arms in default arms
        out.append("fn main() { let x = 1; let v = " + "match x { 1 => 2, _ => " * n + "1" + " }" * n + "; }")
        out.append("fn main() { let v = " + "if true { 1 } else { " * n + "1" + " }" * n + "; }")
        out.append("fn main() { let v = " + "try { 1 } catch e { " * n + "1" + " }" * n + "; }")
        out.append("fn main() { x" + ".a" * n + "; }")
        out.append("fn main() { f" + "()" * n + "; }")
        out.append("fn main() { let t: " + "[" * n + "int" + "]" * n + " = 1; }")
        out.append("type T = " + "?" * n + "int;")
        out.append("fn main() { 1" + " + 1" * n + "; }")
        out.append("fn main() {" + " let a = 1;" * n + " }")
        out.append("/*" * n)
        out.append("\"" + "\\n" * n)
    out.append("fn main() { let s = \"" + "a" * 65000 + "\"; }")
    out.append("// " + "c" * 65000)
    out.append("fn main() { " + "x; " * 21000 + "}")
    out.append("\x00" * 100)
    out.append("\xff\xfe" * 50)
    # import statements: cycles through the entry module, self imports, chains (the host decides what a name means)
    for body in ("import a from main;", "import a from imp;", "import { a, b } from imp; import c from main;", "import a from other;",
                 "import a from other; import b from main;", "import type T from imp; import templ X from main; import trigger t from imp;",
                 "import a from b; import a from b;", "import a from", "import { a from main;", "import a from main"):
        out.append(body + "\nfn main() { }\n")
        out.append(body + "\npub fn f() { }\npub fn a() { }\nfn main() { }\n")
    # every kind of import x every name the host knows as something (and as something else)
    for kind in ("", "type ", "templ ", "trigger "):
        for mod, item in (("net", "ping"), ("net", "http"), ("net", "HttpResponse"), ("triggers", "minute"), ("templates", "FooFeature"), ("testing", "assert_eq"),
                          ("testing", "any_list"), ("testing", "any_func"), ("hosta", "tag"), ("hostb", "num"), ("nowhere", "x"), ("net", "nothing")):
            out.append("import %s%s from %s;\nfn main() { }\n" % (kind, item, mod))
            out.append("import { %s%s, %sother } from %s;\nfn main() { %s; }\n" % (kind, item, kind, mod, item))
    # functions with variable argument lists as values: compared, collected, passed on
    for e in ("[print, println]", "print == println", "[println, fmt]", "new { p: print, q: println }", "if true { print } else { println }",
              "match 1 { 1 => print, _ => println }", "[assert, debug, print]"):
        out.append("fn main() { let v = %s; }\n" % e)
    out.append("import trigger minute from triggers;\nevent fn cb(e: int) { }\nlet a = { trigger cb at minute(1); 1 };\nfn main() { }\n")
    out.append("let a = { return 1; };\nlet b = { break; 2 };\nlet c = fn() -> int { 1 };\nfn main() { }\n")
    for bad in ("\u00a7", "\u00e4", "\\", "`", "#"):
        for stmt in ("continue", "break", "return", "return 1", "let", "let x", "let x =", "if", "if true", "else", "loop", "while", "for", "for i", "for i in", "match", "match 1",
                     "try", "catch", "fn", "new", "x as", "import", "spawn", "trigger", "1 +", "x.", "x[", "f(", "!", "-", "?", "type", "pub", "event"):
            out.append("fn main() { loop { %s %s } }" % (stmt, bad))
            out.append("fn main() { loop { %s%s; } }\nfn g() { }\n" % (stmt, bad))
            out.append("%s %s\nfn main() { }\n" % (stmt, bad))
    # types that name each other twice per level: a chain of n definitions denotes a tree of 2^n nodes
    for n in (8, 14, 28):
        out.append("type T0 = { a: int, b: int };\n" + "".join("type T%d = { a: T%d, b: T%d };\n" % (i, i - 1, i - 1) for i in range(1, n + 1)) +
                   "fn f(x: T%d) { x; }\nfn main() { }\n" % n)
    out.append("fn main() { let x = 9223372036854775808; }")
    out.append("fn main() { let x = 1" + "0" * 400 + ".5; }")
    return out


LEVELS = ["f(@)", "g(1, @)", "g(@, 1)", "c(@)", "l[@ * 0]", "(@).to_string().len()", "s.repeat(@ % 2).len()", "(1 + @)", "(@ + 1)", "(@ * 2 - 1)",
          "[@][0]", "[0, @][1]", "new { a: @ }.a", "{ let t = @; t }", "if true { @ } else { 0 }", "if @ == 0 { 1 } else { 2 }",
          "match @ { 0 => 1, _ => 2 }", "match 1 { 1 => @, _ => 0 }", "match 1 { 0 => 0, _ => @ }", "((@) as int)", "try { @ } catch e { 0 }",
          "(-@)", "(?@).unwrap()", "(?@).unwrap_or(@)", "(0..@).diff()", "f(f(@))", "g(@, @)", "(@ + @)", "[@, @][0]"]
STMT_LEVELS = ["if true { @ }", "if false { } else { @ }", "loop { @ break; }", "for i in 0..1 { @ }", "while true { @ break; }",
               "try { @ } catch e { }", "try { throw(\"x\"); } catch e { @ }", "{ @ }", "let v = { @ 1 };", "f({ @ 1 });",
               "match 1 { 1 => { @ }, _ => { } }", "let h = fn() { @ };"]
PRE = "fn f(a: int) -> int { a }\nfn g(a: int, b: int) -> int { a + b }\n"
MAINPRE = "let c = fn(a: int) -> int { a }; let l = [0]; let s = \"ab\"; "


def typed_nestings(rnd, thorough):
    """WELL-TYPED nesting: the analyzer goes all the way down (an ill-typed level would end the descent), through every
    child position of every nestable construct; levels with two holes only to a depth where the source stays small"""
    out = []
    depths = (8, 30, 120, 400) if thorough else (8, 30, 120)
    for lv in LEVELS:
        two = lv.count("@") > 1
        for n in depths:
            if two and n > 8:
                # (a level with two holes doubles the source per level: its own cost, not the analyzer's)
                continue
            e = "1"
            for _ in range(n):
                e = lv.replace("@", e)
            out.append(PRE + "fn main() { " + MAINPRE + "let v = " + e + "; println(v); }\n")
    for lv in STMT_LEVELS:
        for n in depths:
            b = "f(1);"
            for _ in range(n):
                b = lv.replace("@", b)
            out.append(PRE + "fn main() { " + MAINPRE + b + " }\n")
    one = [lv for lv in LEVELS if lv.count("@") == 1]
    for k in range(40 if thorough else 12):
        e = "1"
        for _ in range(rnd.choice(depths[1:])):
            e = rnd.choice(one).replace("@", e)
        out.append(PRE + "fn main() { " + MAINPRE + "let v = " + e + "; println(v); }\n")
        b = "f(1);"
        for _ in range(rnd.choice(depths[1:3])):
            b = rnd.choice(STMT_LEVELS).replace("@", b)
        out.append(PRE + "fn main() { " + MAINPRE + b + " }\n")
    return out


def global_initializers():
    """every expression form (with degenerate operands: empty block, empty list / object, none, null) as the initializer
    of a global: the analyzer looks at it in ways of its own (is it constant? what is its type without annotation?)"""
    atoms = ["1", "{}", "{ }", "{ 1 }", "{ {} }", "[]", "[{}]", "new {}", "new { ? }", "new { a: {} }", "none", "null", "\"\"", "x", "f(1)", "fn() { }", "fn() -> int { 1 }",
             "1..2", "{}..{}", "if true { } else { }", "match 1 { _ => {} }", "try { } catch e { }", "loop { }", "(({}))", "-{}", "!{}", "?{}", "{} as int",
             "{}.a", "{}[0]", "{}()", "[{}][0]", "{ let a = 1; }", "{ return; }", "{ break; }", "spawn f(1)", "x = 1"]
    out = []
    for a in atoms:
        out.append("let g = %s;\nfn f(a: int) -> int { a }\nfn main() { }\n" % a)
        out.append("pub let g = %s;\nlet x = 1;\nfn f(a: int) -> int { a }\nfn main() { println(g); }\n" % a)
        out.append("let x = 2;\nlet g: int = %s;\nfn main() { }\n" % a)
    for lv in LEVELS:
        for a in ("1", "{}", "x"):
            out.append(PRE + "let x = 1;\nlet g = %s;\nfn main() { }\n" % lv.replace("@", a))
    out.append("fn main() {}\nlet cfg = {")
    out.append("let a = {};\nlet b = [a, {}];\nlet c = new { k: b };\nfn main() { }\n")
    return out


def run(args):
    rep = C.Report("C05")
    thorough = C.tier() == "thorough"
    rnd = random.Random(C.seed())
    rep.cov["rule"] = ("inputs derived from the specifications: every string over HmsLex's class alphabet up to length %d, "
                       "lexeme adjacencies of its catalogue, token-level truncation / deletion / replacement / insertion of "
                       "valid programs (spec-AST families and the repository's .hms files), nesting depth up to 1000 (ill-typed levels) and "
                       "up to 120 / 400 well-typed levels through every child position of every nestable expression and statement, every "
                       "expression form with degenerate operands as a global initializer, "
                       "64 KiB inputs; each as entry module, as imported module text, and (inputs with import statements) as the "
                       "text a host returns for every module name; non-trivial = distinct inputs" %
                       (4 if thorough else 3))
    worker = C.build_worker()
    pool = C.Pool(worker, memlimit_kb=6 * 1024 * 1024)
    inputs = []
    # (1) strings over the lexer's class alphabet, (2) lexeme adjacencies
    r = C.run_tlc("HmsLex", c06.cfg("exh", maxlen=4 if thorough else 3), timeout=3000, heap="24g" if thorough else "8g")
    C.tlc_must_pass(r, "HmsLex strings")
    rep.add_tlc(r)
    inputs += [C.text(c["src"]) for c in r.cases]
    lo = 1 + (C.seed() * 53) % 120
    for a, b in ([(1, 60), (61, 120), (121, 200)] if thorough else [(lo, lo + 39)]):
        r = C.run_tlc("HmsLex", c06.cfg("pairs", lo=a, hi=b), timeout=1800, heap="16g")
        C.tlc_must_pass(r, "HmsLex pairs")
        rep.add_tlc(r)
        # as program text the adjacency sits where an item / a statement is expected
        for c in r.cases:
            t = C.text(c["src"])
            inputs.append(t)
            if len(inputs) % 3 == 0:
                inputs.append("fn main() { " + t + " }")
    # (3) mutations of valid programs
    valid = []
    progs = Fam.template_programs() + Fam.lambda_programs() + Fam.singleton_programs() + Fam.nestings(1) + Fam.random_programs(40, C.seed())
    for p in progs:
        valid.append(P.render(p)[0])
    for f in sorted(glob.glob(os.path.join(C.REPO, "examples", "*.hms")) + glob.glob(os.path.join(C.REPO, "tests", "*.hms"))):
        try:
            valid.append(open(f, encoding="utf-8").read())
        except Exception:
            pass
    toks = token_texts(pool, valid)
    per = 400 if thorough else 25
    for src, tk in zip(valid, toks):
        inputs.append(src)
        if tk:
            inputs += mutations(tk, rnd, per)
        # character-level truncation
        for cut in rnd.sample(range(len(src) + 1), min(len(src) + 1, 60 if thorough else 10)):
            inputs.append(src[:cut])
    # (4) stress
    inputs += stress()
    inputs += typed_nestings(rnd, thorough)
    inputs += global_initializers()
    inputs = list(dict.fromkeys(inputs))
    rep.notes["inputs"] = len(inputs)

    def sweep(srcs, as_import, label, echo=False):
        batches = [srcs[i:i + BATCH] for i in range(0, len(srcs), BATCH)]
        res = pool.map([{"op": "total", "id": i, "a": {"srcs": b, "as_import": as_import, "echo": echo}} for i, b in enumerate(batches)],
                       timeout=120, chunk=1)
        suspects = []
        for b, r in zip(batches, res):
            if "crash" in r or "hang" in r:
                suspects += b
            else:
                rep.count(len(b))
        # a batch that died is replayed input by input
        if suspects:
            res1 = pool.map([{"op": "total", "id": i, "a": {"srcs": [s], "as_import": as_import, "echo": echo}} for i, s in enumerate(suspects)],
                            timeout=20, chunk=1)
            for s, r in zip(suspects, res1):
                rep.count()
                if "crash" in r or "hang" in r:
                    from .sem import panic_class
                    st = (r.get("crash") or {}).get("stderr", "")
                    kind = "hang-or-memory" if "hang" in r else ("out-of-memory" if "out of memory" in st or "cannot allocate" in st else
                                                                 ("stack-exhausted" if "stack overflow" in st or "goroutine stack exceeds" in st else "panic"))
                    rep.fail({"family": label, "kind": kind, "panic": panic_class(st) if kind == "panic" else kind,
                              "as_import": as_import, "shape": "type-dag" if s.startswith("type T0 = {") else "other"},
                             {"input": s[:600], "len": len(s), "stderr": st[:1500]})

    for s in inputs:
        rep.nontrivial(s)
    sweep(inputs, False, "entry")
    imp_inputs = inputs if thorough else inputs[::4]
    sweep(imp_inputs, True, "import")
    # a host that answers every module name with the input itself: every input with an import statement imports itself
    echo_inputs = [s for s in inputs if "import" in s and "from" in s]
    rep.notes["inputs_with_imports"] = len(echo_inputs)
    sweep(echo_inputs, True, "import-echo", echo=True)
    for s in rnd.sample(inputs, 4):
        rep.sample({"input": s[:200], "len": len(s)})
    return rep.finish()
