"""C10 - cancellation always stops execution promptly."""
import random

from . import common as C
from . import cores as K

PROGRAMS = {
    # name: (source, runs on the interpreter too, terminates by itself)
    "tight_loop": ("fn main() { let i = 0; while i < 3000 { i += 1; } println(\"done\", i); }\n", True, True),
    "infinite_loop": ("fn main() { loop { } }\n", True, False),
    "infinite_while_work": ("fn main() { let x = 0; while true { x = (x + 1) % 1000; } }\n", True, False),
    "nested_calls": ("fn f(n: int) -> int { if n == 0 { 0 } else { 1 + f(n - 1) } }\n"
                     "fn main() { let s = 0; for i in 0..120 { s += f(20); } println(s); }\n", True, True),
    "try_in_loop": ("fn main() { let n = 0; for i in 0..400 { try { if i % 2 == 0 { throw(\"x\"); } n += 1; } catch e { n += 2; } }"
                    " println(n); }\n", True, True),
    "catch_handler_loops": ("fn main() { try { throw(\"x\"); } catch e { loop { } } }\n", True, False),
    "loop_in_callee_in_try": ("fn spin() { loop { } }\nfn main() { try { spin(); } catch e { println(\"never\"); } }\n", True, False),
    "sleep": ("fn main() { for i in 0..3 { time.sleep(0.03); } println(\"slept\"); }\n", True, True),
    "spawn_loops": ("fn spin(n: int) { loop { } }\nfn main() { spawn spin(1); spawn spin(2); loop { } }\n", False, False),
    "spawn_finite": ("fn work(n: int) { let i = 0; while i < 1500 { i += 1; } println(\"w\", n); }\n"
                     "fn main() { spawn work(1); spawn work(2); spawn work(3); println(\"main\"); }\n", False, True),
    "spawn_then_fail": ("fn spin(n: int) { loop { } }\nfn main() { spawn spin(1); spawn spin(2); let i = 0; while i < 400 { i += 1; }"
                        " throw(\"main failed\"); }\n", False, True),
    # threads which are joined: a core blocked in h.join() has to notice the cancellation as well
    "join_never_ending": ("fn spin(n: int) -> int { loop { } }\nfn main() { let h = spawn spin(1); println(h.join()); }\n", False, False),
    "join_chain_never_ending": ("fn spin(n: int) -> int { loop { } }\nfn mid(n: int) -> int { let h = spawn spin(n); h.join() + 1 }\n"
                                "fn main() { let a = spawn mid(1); let b = spawn mid(2); println(a.join() + b.join()); }\n", False, False),
    # (a thread which waits for itself, and two which wait for each other: nothing but the cancellation ends these)
    "join_self": ("let slot: ?{ join: fn() -> int } = none;\nfn w(n: int) -> int { while slot.is_none() { } slot.unwrap().join() }\n"
                  "fn main() { slot = ?(spawn w(5)); println(\"set\"); loop { } }\n", False, False),
    "join_each_other": ("let a: ?{ join: fn() -> int } = none;\nlet b: ?{ join: fn() -> int } = none;\n"
                        "fn wa(n: int) -> int { while b.is_none() { } b.unwrap().join() }\nfn wb(n: int) -> int { while a.is_none() { } a.unwrap().join() }\n"
                        "fn main() { a = ?(spawn wa(1)); b = ?(spawn wb(2)); println(\"set\"); loop { } }\n", False, False),
    "join_finite": ("fn work(n: int) -> int { let i = 0; while i < 1500 { i += 1; } i + n }\n"
                    "fn main() { let a = spawn work(1); let b = spawn work(2); println(b.join(), a.join()); }\n", False, True),
    "join_sleeping": ("fn nap(n: int) -> int { time.sleep(0.05); n }\nfn main() { let a = spawn nap(1); println(a.join()); }\n", False, True),
    "join_then_fail": ("fn spin(n: int) -> int { loop { } }\nfn boom(n: int) -> int { let i = 0; while i < 400 { i += 1; } throw(\"thread failed\"); n }\n"
                       "fn main() { let s = spawn spin(1); let b = spawn boom(2); println(b.join()); println(s.join()); }\n", False, True),
}


# endless loops in every shape: whatever the loop consists of, some step of it has to look at the cancellation signal
_PRE = "fn yes() -> bool { true }\nfn main() { let flag = true; let n = 1; let l = [1]; "
for _name, _loop in {
    "while_true_empty": "while true { }", "while_flag_empty": "while flag { }", "while_cmp_empty": "while n == 1 { }",
    "while_call_empty": "while yes() { }", "while_not_empty": "while !false { }", "while_and_empty": "while flag && true { }",
    "loop_continue": "loop { continue; }", "loop_literal_stmt": "loop { 1; }", "loop_ident_stmt": "loop { flag; }",
    "loop_string_stmt": "loop { \"s\"; }", "loop_empty_block": "loop { { } }", "loop_empty_if": "loop { if flag { } }",
    "loop_empty_match": "loop { match n { 1 => { }, _ => { } } }", "loop_empty_try": "loop { try { } catch e { } }",
    "loop_nested_empty": "loop { while flag { } }", "for_huge_empty": "for i in 0..2000000000 { }",
    "for_huge_literal": "for i in 0..2000000000 { n; }", "loop_index": "loop { l[0]; }", "loop_member": "loop { l.len(); }",
    "loop_in_closure": "let f = fn() -> null { loop { } }; f();", "while_in_if": "if flag { while true { } }",
    # loops that are left and entered again through an exception, a call, a return, a break in every round: no way of
    # going round may skip the look at the signal for good
    "loop_throw_catch": "loop { try { throw(\"x\"); } catch e { } }", "loop_throw_catch_count": "loop { try { throw(\"x\"); } catch e { n += 1; } }",
    "loop_member_throw_catch": "loop { try { \"x\".parse_int(); } catch e { } }",
    "loop_unwrap_throw_catch": "let o: ?int = none; loop { try { o.unwrap(); } catch e { n = 1; } }",
    "loop_callee_throws": "let t = fn() -> null { throw(\"x\"); }; loop { try { t(); } catch e { } }",
    "loop_throw_in_catch_caught": "loop { try { try { throw(\"a\"); } catch e { throw(\"b\"); } } catch f { } }",
    "loop_inner_break": "loop { loop { break; } }", "loop_inner_for_break": "loop { for i in 0..9 { break; } }",
    "loop_call_returning_early": "let r = fn() -> int { for i in 0..9 { return i; } 0 }; loop { r(); }",
    "loop_match_throw_catch": "loop { try { match n { 1 => throw(\"x\"), _ => null } } catch e { } }",
    "while_throw_catch": "while flag { try { throw(\"x\"); } catch e { } }", "for_huge_throw_catch": "for i in 0..2000000000 { try { throw(\"x\"); } catch e { } }",
    "loop_let": "loop { let z = 1; }", "loop_assign": "loop { n = 1; }", "loop_none": "loop { none; }", "loop_null": "loop { null; }",
}.items():
    PROGRAMS["spin_" + _name] = (_PRE + _loop + " }\n", True, False)


def run(args):
    rep = C.Report("C10")
    thorough = C.tier() == "thorough"
    rnd = random.Random(C.seed())
    kmax = 1500 if thorough else 120
    rep.cov["rule"] = ("(M) HmsCores (fixed protocol) with the canceller enabled in every state: safety + "
                       "CancelLeadsToReturn / OffersAreTaken under fairness; (A) for each of %d programs and every k up to "
                       "min(polls of the uncancelled run, %d) the context is cancelled at the k-th poll (hook) on the VM and "
                       "on the interpreter; (B) the VM's event trace is validated against TraceCores; non-trivial = distinct "
                       "(program, backend, k)" % (len(PROGRAMS), kmax))
    rep.assumptions = ["blocking host builtins are represented by the test host's time.sleep (polls every 10 ms)"]
    K.model_check(rep, thorough)
    pool = C.Pool(C.build_worker())
    # 1. how many polls does each terminating program make?
    base = []
    for name, (src, tree, fin) in PROGRAMS.items():
        for b in (("vm", "tree") if tree else ("vm",)):
            base.append((name, src, b, fin))
    res = pool.map([{"op": "run", "id": i, "a": {"modules": {"main": s}, "entry": "main", "backend": b, "trace": True,
                                                 "timeout_ms": (400 if n.startswith("spin_") else 1500) if not fin else 20000}}
                    for i, (n, s, b, fin) in enumerate(base)], timeout=60)
    plan = []
    for (name, src, b, fin), r in zip(base, res):
        rep.count()
        feat = {"family": "cancel", "program": name, "backend": b}
        if "crash" in r or "hang" in r:
            rep.fail(dict(feat, kind="hostcrash" if "crash" in r else "timeout-does-not-stop"), {"source": src, "real": str(r)[:2000]})
            continue
        rr = r["r"]
        if not rr["accepted"]:
            raise C.Machinery("program %s rejected: %s" % (name, rr["diags"][:3]))
        polls = (rr.get("residue") or {}).get("polls", 0)
        if not fin and rr["outcome"]["kind"] != "terminated":
            rep.fail(dict(feat, kind="deadline-ignored", got=rr["outcome"]["kind"]), {"source": src, "outcome": rr["outcome"]})
        if fin and rr["outcome"]["kind"] not in ("done", "uncaught"):
            raise C.Machinery("baseline run of %s ended with %s" % (name, rr["outcome"]))
        n = min(polls, kmax) if fin else kmax
        ks = list(range(1, n + 1))
        cap = (400 if thorough else 60) if not name.startswith("spin_") else (40 if thorough else 10)
        if len(ks) > cap:
            ks = sorted(set(ks[:cap // 2] + rnd.sample(ks, cap - cap // 2)))
        for k in ks:
            plan.append((name, src, b, fin, k, rr["outcome"]["kind"], rr["out"]))
    reqs = [{"op": "run", "id": i, "a": {"modules": {"main": s}, "entry": "main", "backend": b, "trace": b == "vm",
                                         "cancel_at": k, "timeout_ms": 15000}}
            for i, (n, s, b, fin, k, oc, out) in enumerate(plan)]
    res = pool.map(reqs, timeout=40)
    traces, owners = [], []
    for (name, src, b, fin, k, own_kind, own_out), r in zip(plan, res):
        rep.count()
        rep.nontrivial((name, b, k))
        feat = {"family": "cancel", "program": name, "backend": b, "k": k}
        if "crash" in r:
            rep.fail(dict(feat, kind="hostcrash", panic=r["crash"]["stderr"][:160]), {"source": src, "real": r})
            continue
        if "hang" in r:
            rep.fail(dict(feat, kind="outlives-cancellation"), {"source": src, "cancel_at": k})
            continue
        rr = r["r"]
        oc = rr["outcome"]
        resd = rr.get("residue") or {}
        if oc["kind"] == "terminated":
            pass
        elif oc["kind"] == own_kind and fin:
            pass            # the program finished first
        else:
            rep.fail(dict(feat, kind="wrong-outcome", got=oc["kind"]), {"source": src, "cancel_at": k, "outcome": oc})
        for core, n in (resd.get("after_cancel") or {}).items():
            lim = 4 if core == "-2" else 50
            if n > lim:
                rep.fail(dict(feat, kind="not-prompt"), {"source": src, "cancel_at": k, "core": core, "steps_after_cancel": n})
        if rr.get("goroutines", 0) > 0:
            rep.fail(dict(feat, kind="goroutine-leak"), {"source": src, "cancel_at": k, "goroutines": rr["goroutines"]})
        if b == "vm" and resd.get("cores", 0) != 0:
            rep.fail(dict(feat, kind="cores-left"), {"source": src, "cancel_at": k})
        if b == "vm" and rr.get("trace") and (k % 5 == 0 or "spawn" in name or "join" in name):
            traces.append(rr["trace"])
            owners.append((name, k))
    K.validate_all(traces, owners, rep, {"family": "cancel"})
    rep.sample({"program": "spawn_loops", "source": PROGRAMS["spawn_loops"][0], "cancel_points": "k = 1..%d" % kmax})
    rep.sample({"program": "try_in_loop", "source": PROGRAMS["try_in_loop"][0]})
    return rep.finish()
