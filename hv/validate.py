import json, sys, glob
import jsonschema
m = json.load(open('/verif/MANIFEST.json'))
jsonschema.validate(m, json.load(open('/root/.vp/MANIFEST.schema.json')))
es = json.load(open('/root/.vp/EVIDENCE.schema.json'))
for f in glob.glob('/verif/evidence/*.json'):
    jsonschema.validate(json.load(open(f)), es)
    print("ok", f)
print("manifest valid")
