"""B-binding for the bytecode machine: instruction traces validated against HmsVM by TLC (TraceVM)."""
import json
import re

from . import common as C

KEEP_I = ("e", "c", "f", "ip", "op", "a", "s", "sh", "cs", "mp", "nh")


def lines_of(trace):
    out = []
    for e in trace:
        k = e["e"]
        if k == "I":
            out.append({f: e[f] for f in KEEP_I if f in e})
        elif k == "Prog":
            out.append({"e": "Prog", "sig": e.get("sig") or {}, "lim": e["lim"]})
        elif k in ("Catch", "Offer"):
            out.append({"e": k, "c": e["c"], "a": e.get("a", "")})
    out.append({"e": "Reset"})
    return out


def validate(traces, rep, timeout=2400):
    """-> (ok, index of first offending trace, detail)"""
    lines, starts = [], []
    for t in traces:
        starts.append(len(lines))
        lines += lines_of(t)
    text = "\n".join(json.dumps(x) for x in lines) + "\n"
    cfg = "SPECIFICATION TraceSpec\nINVARIANTS NoViolation\nPOSTCONDITION TraceAccepted\nCHECK_DEADLOCK FALSE\n"
    r = C.run_tlc("TraceVM", cfg, files=[("vm_trace.ndjson", text)], workers=1, timeout=timeout, heap="16g")
    rep.add_tlc(r)
    rep.notes["vm_trace_events"] = rep.notes.get("vm_trace_events", 0) + len(lines)
    if r.ok:
        rep.cov["traces_validated_against_impl"] += len(traces)
        return True, None, None
    m = re.search(r"The depth of the complete state graph search is (\d+)", r.stdout)
    depth = int(m.group(1)) if m else 0
    inv = "NoViolation" if "Invariant NoViolation is violated" in r.stdout else None
    # with an invariant violation the last state is the one after the offending event
    line_no = max(0, depth - 2) if inv else max(0, depth - 1)
    idx = max(i for i, s in enumerate(starts) if s <= line_no) if starts else 0
    which = re.findall(r'viol \|-> "(\w+)"', r.stdout)
    which = [w for w in which if w != "none"]
    detail = {"line": line_no, "trace_index": idx, "event": lines[line_no] if line_no < len(lines) else None,
              "property": which[-1] if which else ("not-a-behaviour" if not inv else "?"),
              "context": lines[max(starts[idx], line_no - 6):line_no + 2]}
    rep.cov["traces_validated_against_impl"] += idx
    return False, idx, detail


def validate_all(traces, owners, rep, feat, max_rejections=6):
    todo = list(range(len(traces)))
    rej = 0
    while todo:
        ok, idx, detail = validate([traces[i] for i in todo], rep)
        if ok:
            return
        bad = todo[idx]
        ow = owners[bad] if isinstance(owners[bad], dict) else {}
        rep.fail(dict(feat, kind="vm-trace", property=detail["property"], op=(detail["event"] or {}).get("op"),
                      owner=ow.get("what") or ow.get("id") or "?"),
                 {"owner": owners[bad], "detail": detail})
        rej += 1
        todo = todo[idx + 1:]
        if rej >= max_rejections:
            rep.notes["vm_traces_not_validated_after_rejections"] = len(todo)
            return
