"""C15 - modules are isolated and linked by name and visibility."""
import json
import random

from . import common as C
from . import link as L


def run(args, prop="C15", reps=1, finish=True):
    rep = C.Report(prop)
    thorough = C.tier() == "thorough"
    rnd = random.Random(C.seed())
    nsl = 16 if thorough else 16
    if prop != "C15":      # (C14 repeats every graph: a smaller part of the space)
        nsl = 96 if thorough else 192
    rep.cov["rule"] = ("module graphs enumerated by TLC from HmsLink (3 modules, contested function name f private / pub / "
                       "absent per module, globals x and hist and helper h in every module, every import list incl. private "
                       "items, missing items, a missing module and cycles; 663552 graphs, this run %s of them): per import "
                       "item the specified verdict, for accepted graphs the specified output; analysed once and run on both "
                       "backends; import statements in 2 (thorough: 3) different orders, two naming schemes (b / c, and lib / lib_x with x_h, x_hist against h, hist); non-trivial = distinct rendered graphs" % ("all" if thorough else "1/%d" % nsl))
    pool = C.Pool(C.build_worker())
    all_cases = []
    # one slice of the graph space at a time: generated, rendered, run, judged and dropped (the whole space does not fit into memory)
    for sl in (range(nsl) if thorough and prop == "C15" else [C.seed() % nsl]):
        seen = {}
        r = C.run_tlc("HmsLink", L.cfg(sl, nsl), timeout=2400, heap="16g")
        C.tlc_must_pass(r, "HmsLink")
        rep.add_tlc(r)
        for c in r.cases:
            key = json.dumps(c["g"], sort_keys=True)
            seen.setdefault(key, c)
        r = None
        cases = [c for c in seen.values() if not c["unspecified"]]
        rep.notes["unspecified_graphs_skipped"] = rep.notes.get("unspecified_graphs_skipped", 0) + len(seen) - len(cases)
        reqs, meta = [], []
        # (order of the import statements, naming scheme)
        orders = ((0, 0), (1, 1), (2, 0), (2, 1)) if thorough else ((0, C.seed() % 2), (1 + C.seed() % 2, 1 - C.seed() % 2))
        for c in cases:
            done = set()
            for order, naming in orders:
                mods, lines = L.render(c["g"], order, naming)
                key = json.dumps(mods, sort_keys=True)
                if key in done:
                    continue
                done.add(key)
                rep.nontrivial(key)
                for b in ("vm", "tree"):
                    for k in range(reps):
                        reqs.append({"op": "run", "id": len(reqs), "a": {"modules": mods, "entry": "main", "backend": b, "timeout_ms": 8000}})
                        meta.append((c, mods, lines, b, naming, k))
        res = pool.map(reqs, timeout=30)
        first = {}
        for (c, mods, lines, b, naming, k), rr in zip(meta, res):
            rep.count()
            g = c["g"]
            feat = {"family": "graph", "backend": b, "overlap": L.overlap(g), "hasc": g["hasc"], "accepted": c["accepted"], "naming": naming}
            if "crash" in rr or "hang" in rr:
                from .sem import panic_class
                rep.fail(dict(feat, kind="hostcrash" if "crash" in rr else "hang", panic=panic_class((rr.get("crash") or {}).get("stderr", ""))),
                         {"modules": mods, "real": str(rr)[:1500]})
                continue
            a = rr["r"]
            errs = [{"file": d["file"], "span": d["span"], "msg": d["msg"]} for d in a["diags"] if d["level"] == "Error"] + \
                   [{"file": s["span"]["f"], "span": s["span"], "msg": s["msg"]} for s in a["syntax"]]
            oc = a.get("outcome") or {}
            obs = {"errs": sorted((e["file"], e["span"]["s"][0], e["msg"]) for e in errs), "out": a["out"], "kind": oc.get("kind"), "accepted": a["accepted"]}
            # C14: every repetition of the same sources gives the same diagnostics, output and outcome
            fk = (json.dumps(mods, sort_keys=True), b)
            if fk not in first:
                first[fk] = obs
            elif first[fk] != obs:
                rep.fail(dict(feat, kind="repetition-differs", what="diagnostics" if first[fk]["errs"] != obs["errs"] else "output"),
                         {"modules": mods, "first": first[fk], "now": obs, "repetition": k})
                continue
            if k > 0:
                continue
            exp_err = {(e[0], e[1][0], e[1][1]): e[2] for e in c["errors"]}
            if b == "vm":      # the analysis is the same for both backends: judge it once
                for (m, item, frm), line in lines.items():
                    here = [e for e in errs if e["file"] == L.fname(m, naming) and e["span"]["s"][0] == line]
                    want = exp_err.get((m, item, frm))
                    if want == "cycle":
                        if not any("cyclic" in e["msg"].lower() for e in errs):
                            rep.fail(dict(feat, kind="bad-import-not-diagnosed", cls=want), {"modules": mods, "import": [m, item, frm], "diags": errs})
                    elif want and not here:
                        rep.fail(dict(feat, kind="bad-import-not-diagnosed", cls=want), {"modules": mods, "import": [m, item, frm], "diags": errs})
                    elif not want and [e for e in here if "cyclic" not in e["msg"].lower()]:
                        # (a cycle is reported at whichever import statement the analyzer was at: not attributed to an item)
                        here = [e for e in here if "cyclic" not in e["msg"].lower()]
                        rep.fail(dict(feat, kind="good-import-diagnosed", msg=here[0]["msg"][:40]), {"modules": mods, "import": [m, item, frm], "diags": errs})
                if c["accepted"] and errs:
                    rep.fail(dict(feat, kind="well-formed-graph-rejected", msg=errs[0]["msg"][:60]), {"modules": mods, "diags": errs[:4]})
                if not c["accepted"] and not errs:
                    rep.fail(dict(feat, kind="ill-formed-graph-accepted", cls=sorted(set(exp_err.values()))[0]),
                             {"modules": mods, "expected_errors": c["errors"]})
            if c["accepted"] and a["accepted"]:
                want = L.expected_text(c["out"])
                if a["out"] != want or oc.get("kind") != "done":
                    rep.fail(dict(feat, kind="wrong-output"), {"modules": mods, "want": want, "got": a["out"], "outcome": oc})
        all_cases += rnd.sample(cases, min(2, len(cases)))
        reqs = meta = res = first = seen = None
    cases = all_cases
    # an imported function which fails: when the importer catches the exception it is back in its own module - its globals, its
    # private functions, its locals - on both backends (HmsLink's graphs have no exceptions; written out with their expected output)
    lib = ("let x = \"b.x\";\nlet calls = 0;\nfn helper() -> str { \"b.helper\" }\n"
           "pub fn risky(n: int) -> str { calls += 1; if n > 0 { throw(\"b failed \" + x); } helper() }\n"
           "pub fn nested(n: int) -> str { try { risky(n) } catch e { \"b caught \" + x } }\nfn main() { }\n")
    handwritten = [
        ({"main": "import { risky, nested } from lib;\nlet x = \"a.x\";\nfn helper() -> str { \"a.helper\" }\n"
                  "fn main() {\n    let local = \"a.local\";\n    try { println(risky(1)); } catch e { println(\"caught\", e.message, x, helper(), local); }\n"
                  "    println(x, helper(), local, risky(0), nested(1));\n    for i in 0..2 { try { risky(i + 1); } catch e { println(i, x, helper()); } }\n    println(\"end\", x);\n}\n", "lib": lib},
         "caught b failed b.x a.x a.helper a.local\na.x a.helper a.local b.helper b caught b.x\n0 a.x a.helper\n1 a.x a.helper\nend a.x\n"),
    ]
    hreqs = [{"op": "run", "id": i, "a": {"modules": mods, "entry": "main", "backend": b, "timeout_ms": 8000}} for i, (mods, want) in enumerate(handwritten) for b in ("vm", "tree")]
    hres = pool.map(hreqs, timeout=30)
    k = 0
    for mods, want in handwritten:
        for b in ("vm", "tree"):
            rr = hres[k]
            k += 1
            rep.count()
            rep.nontrivial(("handwritten", json.dumps(mods, sort_keys=True), b))
            feat = {"family": "exception-across-modules", "backend": b}
            if "r" not in rr:
                from .sem import panic_class
                rep.fail(dict(feat, kind="hostcrash" if "crash" in rr else "hang", panic=panic_class((rr.get("crash") or {}).get("stderr", ""))), {"modules": mods, "real": str(rr)[:1200]})
                continue
            a = rr["r"]
            if not a["accepted"]:
                raise C.Machinery("the hand-written module program of %s is not accepted: %s" % (prop, [d["msg"] for d in a["diags"] if d["level"] == "Error"][:3]))
            if a["out"] != want or (a.get("outcome") or {}).get("kind") != "done":
                rep.fail(dict(feat, kind="wrong-output"), {"modules": mods, "want": want, "got": a["out"], "outcome": a.get("outcome")})
    for c in rnd.sample(cases, min(2, len(cases))):
        rep.sample({"graph": c["g"], "accepted": c["accepted"], "errors": c["errors"], "modules": L.render(c["g"])[0]})
    rep.cov["exhaustive"] = thorough and prop == "C15"
    if not finish:
        return rep
    return rep.finish()
