"""C13 - runtime values obey equality, copy and serialisation laws."""
import json
import random

from . import common as C
from .c12 import norm


def cfg(mode, maxmut=2):
    return ("SPECIFICATION Spec\nCONSTANTS\n Mode = \"%s\"\n MaxMut = %d\n"
            "INVARIANTS EqReflexive EqSymmetric CloneStartsEqual Export\nCHECK_DEADLOCK FALSE\n" % (mode, maxmut))


def lines_sorted(text):
    return sorted(l.strip().rstrip(",").strip() for l in text.split("\n"))


def tname(t):
    if t["t"] == "list":
        return "[" + tname(t["e"]) + "]"
    if t["t"] == "opt":
        return "?" + tname(t["e"])
    if t["t"] == "obj":
        return "{" + ",".join("%s:%s" % (k, tname(x)) for k, x in zip(t["ks"], t["ts"])) + "}"
    return t["t"]


def run(args):
    rep = C.Report("C13")
    thorough = C.tier() == "thorough"
    rnd = random.Random(C.seed())
    rep.cov["rule"] = ("TLC enumerates from HmsValue, for 20 static types (scalars, ranges, any-objects, lists, nested lists, "
                       "options, objects): all pairs (a, b) of one type with the specified structural equality; all "
                       "histories Clone + <= %d mutations (overwrite a scalar element/field, push) on either side with "
                       "the resulting pair of trees; all JSON-representable values; each replayed on the runtime value "
                       "libraries; non-trivial = distinct cases involving a container or an unequal pair" % (3 if thorough else 2))
    rep.assumptions = ["floats are halves of small integers (exact in binary); NaN is excluded by the property",
                       "the interpreter's value library has no Clone: copy laws are checked on the VM's library"]
    pool = C.Pool(C.build_worker())
    # ---- equality + display
    r = C.run_tlc("HmsValue", cfg("eq"), timeout=1200, heap="8g")
    C.tlc_must_pass(r, "HmsValue eq")
    rep.add_tlc(r)
    cases = r.cases
    res = pool.map([{"op": "valueops", "id": i, "a": {"what": "eq", "a": c["a"], "b": c["b"]}} for i, c in enumerate(cases)])
    for c, rr in zip(cases, res):
        rep.count()
        if c["a"]["k"] in ("list", "obj", "anyobj", "opt", "range") or not c["eq"]:
            rep.nontrivial(json.dumps(["eq", c["a"], c["b"]], sort_keys=True))
        if "crash" in rr or "hang" in rr:
            rep.fail({"family": "eq", "kind": "hostcrash", "type": tname(c["t"])}, {"case": c, "real": str(rr)[:1500]})
            continue
        got = rr["r"]
        for lib in ("vm", "tree"):
            g = got[lib]
            feat = {"family": "eq", "lib": lib, "type": tname(c["t"])}
            if "panic" in g:
                rep.fail(dict(feat, kind="panic"), {"case": c, "got": g})
                continue
            if not g["aa"]:
                rep.fail(dict(feat, kind="not-reflexive"), {"case": c, "got": g})
            if g["ab"] != g["ba"]:
                rep.fail(dict(feat, kind="not-symmetric"), {"case": c, "got": g})
            elif g["ab"] != c["eq"]:
                rep.fail(dict(feat, kind="equal-but-different" if g["ab"] else "different-but-equal-content"), {"case": c, "got": g})
        if "panic" not in got["vm"] and "panic" not in got["tree"]:
            for side in ("da", "db"):
                if lines_sorted(got["vm"][side]) != lines_sorted(got["tree"][side]):
                    rep.fail({"family": "display", "kind": "runtimes-render-differently", "type": tname(c["t"])},
                             {"case": c, "vm": got["vm"][side], "tree": got["tree"][side]})
                    break
            # equal values are rendered as the same text
            if c["eq"] and lines_sorted(got["vm"]["da"]) != lines_sorted(got["vm"]["db"]):
                rep.fail({"family": "display", "kind": "equal-values-render-differently", "type": tname(c["t"])},
                         {"case": c, "a": got["vm"]["da"], "b": got["vm"]["db"]})
    for c in rnd.sample(cases, 2):
        rep.sample({"mode": "eq", "type": tname(c["t"]), "a": c["a"], "b": c["b"], "specified_equal": c["eq"]})
    # ---- clone + mutation histories
    r = C.run_tlc("HmsValue", cfg("clone", 3 if thorough else 2), timeout=2400, heap="16g")
    C.tlc_must_pass(r, "HmsValue clone")
    rep.add_tlc(r)
    cases = r.cases
    res = pool.map([{"op": "valueops", "id": i, "a": {"what": "clone", "a": c["v0"], "b": c["v0"], "hist": c["hist"]}}
                    for i, c in enumerate(cases)])
    for c, rr in zip(cases, res):
        rep.count()
        rep.nontrivial(json.dumps(["clone", c["v0"], c["hist"]], sort_keys=True))
        feat = {"family": "clone", "type": tname(c["t"]), "steps": len(c["hist"])}
        if "crash" in rr or "hang" in rr:
            rep.fail(dict(feat, kind="hostcrash"), {"case": c, "real": str(rr)[:1500]})
            continue
        g = rr["r"]["vm"]
        if "panic" in g:
            rep.fail(dict(feat, kind="panic"), {"case": c, "got": g})
            continue
        if "machinery" in g:
            raise C.Machinery("clone replay: %s on %s" % (g["machinery"], json.dumps(c)[:300]))
        if not g["eq0"]:
            rep.fail(dict(feat, kind="clone-not-equal"), {"case": c, "got": g})
        if norm(g["orig"]) != norm(c["a"]) or norm(g["copy"]) != norm(c["b"]):
            which = "original-changed-by-copy" if norm(g["orig"]) != norm(c["a"]) else "copy-changed-by-original"
            rep.fail(dict(feat, kind="shared-state", which=which), {"case": c, "got": g})
    for c in [x for x in cases if len(x["hist"]) == 2][:2]:
        rep.sample({"mode": "clone", "start": c["v0"], "history": c["hist"], "expected_original": c["a"], "expected_copy": c["b"]})
    # ---- JSON round trip
    r = C.run_tlc("HmsValue", cfg("json"), timeout=1200, heap="8g")
    C.tlc_must_pass(r, "HmsValue json")
    rep.add_tlc(r)
    cases = r.cases
    res = pool.map([{"op": "valueops", "id": i, "a": {"what": "json", "a": c["a"], "b": c["a"], "t": c["t"]}}
                    for i, c in enumerate(cases)])
    for c, rr in zip(cases, res):
        rep.count()
        rep.nontrivial(json.dumps(["json", c["a"]], sort_keys=True))
        if "crash" in rr or "hang" in rr:
            rep.fail({"family": "json", "kind": "hostcrash", "type": tname(c["t"])}, {"case": c, "real": str(rr)[:1500]})
            continue
        for lib in ("vm", "tree"):
            g = rr["r"][lib]
            feat = {"family": "json", "lib": lib, "type": tname(c["t"])}
            if "panic" in g:
                rep.fail(dict(feat, kind="panic"), {"case": c, "got": g})
            elif "no_to_json" in g or "nofields" in g:
                if c["t"]["t"] in ("list", "obj", "anyobj"):
                    rep.fail(dict(feat, kind="no-to_json"), {"case": c, "got": g})
            elif "back" not in g:
                rep.fail(dict(feat, kind="round-trip-fails"), {"case": c, "got": g})
            elif norm(g["back"]) != norm(c["a"]) or not g["eq"]:
                rep.fail(dict(feat, kind="round-trip-changes-value"), {"case": c, "got": g})
    return rep.finish()
