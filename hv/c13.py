"""C13 - runtime values obey equality, copy and serialisation laws."""
import json
import random

from . import common as C
from .c12 import norm


def cfg(mode, maxmut=2):
    return ("SPECIFICATION Spec\nCONSTANTS\n Mode = \"%s\"\n MaxMut = %d\n"
            "INVARIANTS EqReflexive EqSymmetric CloneStartsEqual Export\nCHECK_DEADLOCK FALSE\n" % (mode, maxmut))


def lines_sorted(text):
    # the text itself: members are displayed in the order of their names and nested values are indented (since the
    # displays were made deterministic), so equal values have to give the same characters
    return text


def tname(t):
    if t["t"] == "list":
        return "[" + tname(t["e"]) + "]"
    if t["t"] == "opt":
        return "?" + tname(t["e"])
    if t["t"] == "obj":
        return "{" + ",".join("%s:%s" % (k, tname(x)) for k, x in zip(t["ks"], t["ts"])) + "}"
    return t["t"]


def run(args):
    rep = C.Report("C13")
    thorough = C.tier() == "thorough"
    rnd = random.Random(C.seed())
    rep.cov["rule"] = ("TLC enumerates from HmsValue, for 23 static types (scalars, ranges, any-objects incl. nested containers of every kind "
                       "as members, lists, nested lists, options, objects, objects / options / lists of any-objects): all pairs (a, b) of one type with the specified structural equality; all "
                       "histories Clone + <= %d mutations (overwrite a scalar element/field, push) on either side with "
                       "the resulting pair of trees; all JSON-representable values; each replayed on the runtime value "
                       "libraries; non-trivial = distinct cases involving a container or an unequal pair" % (3 if thorough else 2))
    rep.assumptions = ["floats are halves of small integers (exact in binary); NaN is excluded by the property",
                       "the interpreter's value library has no Clone: copy laws are checked on the VM's library"]
    pool = C.Pool(C.build_worker())
    # ---- equality + display
    r = C.run_tlc("HmsValue", cfg("eq"), timeout=1200, heap="8g")
    C.tlc_must_pass(r, "HmsValue eq")
    rep.add_tlc(r)
    cases = r.cases
    res = pool.map([{"op": "valueops", "id": i, "a": {"what": "eq", "a": c["a"], "b": c["b"]}} for i, c in enumerate(cases)])
    for c, rr in zip(cases, res):
        rep.count()
        if c["a"]["k"] in ("list", "obj", "anyobj", "opt", "range") or not c["eq"]:
            rep.nontrivial(json.dumps(["eq", c["a"], c["b"]], sort_keys=True))
        if "crash" in rr or "hang" in rr:
            rep.fail({"family": "eq", "kind": "hostcrash", "type": tname(c["t"])}, {"case": c, "real": str(rr)[:1500]})
            continue
        got = rr["r"]
        for lib in ("vm", "tree"):
            g = got[lib]
            feat = {"family": "eq", "lib": lib, "type": tname(c["t"])}
            if "panic" in g:
                rep.fail(dict(feat, kind="panic"), {"case": c, "got": g})
                continue
            if not g["aa"]:
                rep.fail(dict(feat, kind="not-reflexive"), {"case": c, "got": g})
            if g["ab"] != g["ba"]:
                rep.fail(dict(feat, kind="not-symmetric"), {"case": c, "got": g})
            elif g["ab"] != c["eq"]:
                rep.fail(dict(feat, kind="equal-but-different" if g["ab"] else "different-but-equal-content"), {"case": c, "got": g})
        if "panic" not in got["vm"] and "panic" not in got["tree"]:
            for side in ("da", "db"):
                if lines_sorted(got["vm"][side]) != lines_sorted(got["tree"][side]):
                    rep.fail({"family": "display", "kind": "runtimes-render-differently", "type": tname(c["t"])},
                             {"case": c, "vm": got["vm"][side], "tree": got["tree"][side]})
                    break
            # equal values are rendered as the same text
            if c["eq"] and lines_sorted(got["vm"]["da"]) != lines_sorted(got["vm"]["db"]):
                rep.fail({"family": "display", "kind": "equal-values-render-differently", "type": tname(c["t"])},
                         {"case": c, "a": got["vm"]["da"], "b": got["vm"]["db"]})
    for c in rnd.sample(cases, 2):
        rep.sample({"mode": "eq", "type": tname(c["t"]), "a": c["a"], "b": c["b"], "specified_equal": c["eq"]})
    # ---- clone + mutation histories
    r = C.run_tlc("HmsValue", cfg("clone", 3 if thorough else 2), timeout=2400, heap="16g")
    C.tlc_must_pass(r, "HmsValue clone")
    rep.add_tlc(r)
    cases = r.cases
    res = pool.map([{"op": "valueops", "id": i, "a": {"what": "clone", "a": c["v0"], "b": c["v0"], "hist": c["hist"]}}
                    for i, c in enumerate(cases)])
    for c, rr in zip(cases, res):
        rep.count()
        rep.nontrivial(json.dumps(["clone", c["v0"], c["hist"]], sort_keys=True))
        feat = {"family": "clone", "type": tname(c["t"]), "steps": len(c["hist"])}
        if "crash" in rr or "hang" in rr:
            rep.fail(dict(feat, kind="hostcrash"), {"case": c, "real": str(rr)[:1500]})
            continue
        g = rr["r"]["vm"]
        if "panic" in g:
            rep.fail(dict(feat, kind="panic"), {"case": c, "got": g})
            continue
        if "machinery" in g:
            raise C.Machinery("clone replay: %s on %s" % (g["machinery"], json.dumps(c)[:300]))
        if not g["eq0"]:
            rep.fail(dict(feat, kind="clone-not-equal"), {"case": c, "got": g})
        if norm(g["orig"]) != norm(c["a"]) or norm(g["copy"]) != norm(c["b"]):
            which = "original-changed-by-copy" if norm(g["orig"]) != norm(c["a"]) else "copy-changed-by-original"
            rep.fail(dict(feat, kind="shared-state", which=which), {"case": c, "got": g})
    for c in [x for x in cases if len(x["hist"]) == 2][:2]:
        rep.sample({"mode": "clone", "start": c["v0"], "history": c["hist"], "expected_original": c["a"], "expected_copy": c["b"]})
    # ---- JSON round trip
    r = C.run_tlc("HmsValue", cfg("json"), timeout=1200, heap="8g")
    C.tlc_must_pass(r, "HmsValue json")
    rep.add_tlc(r)
    cases = r.cases
    res = pool.map([{"op": "valueops", "id": i, "a": {"what": "json", "a": c["a"], "b": c["a"], "t": c["t"]}}
                    for i, c in enumerate(cases)])
    for c, rr in zip(cases, res):
        rep.count()
        rep.nontrivial(json.dumps(["json", c["a"]], sort_keys=True))
        if "crash" in rr or "hang" in rr:
            rep.fail({"family": "json", "kind": "hostcrash", "type": tname(c["t"])}, {"case": c, "real": str(rr)[:1500]})
            continue
        for lib in ("vm", "tree"):
            g = rr["r"][lib]
            feat = {"family": "json", "lib": lib, "type": tname(c["t"])}
            if "panic" in g:
                rep.fail(dict(feat, kind="panic"), {"case": c, "got": g})
            elif "no_to_json" in g or "nofields" in g:
                if c["t"]["t"] in ("list", "obj", "anyobj"):
                    rep.fail(dict(feat, kind="no-to_json"), {"case": c, "got": g})
            elif "back" not in g:
                rep.fail(dict(feat, kind="round-trip-fails"), {"case": c, "got": g})
            elif norm(g["back"]) != norm(c["a"]) or not g["eq"]:
                rep.fail(dict(feat, kind="round-trip-changes-value"), {"case": c, "got": g})
    # ---- JSON round trip of numbers at the edges of what JSON libraries like to do with them (inside programs, on both
    # backends): every int64 comes back as itself, floats stay floats, nested or not
    ints = [0, 1, -1, 255, 2 ** 31, 2 ** 32 + 1, 2 ** 53 - 1, 2 ** 53, 2 ** 53 + 1, -(2 ** 53) - 1, 9007199254740993, 1727308800123456789, 10 ** 18 + 1,
            2 ** 63 - 1, -(2 ** 63) + 1, 2 ** 62 + 3, 123456789012345678]
    def lit(n):
        return str(n) if n >= 0 else "(0 - %d)" % -n
    progs = []
    for n in ints:
        progs.append(("int", n, "fn main() { let v = %s; let j = [v].to_json(); let back = j.parse_json() as [int]; println(j); println(back[0] == v, back[0]); "
                      "let o = new { k: v, l: [v, v] }; let jo = o.to_json(); let bo = jo.parse_json() as { k: int, l: [int] }; println(jo); println(bo.k == v, bo.l[1] == v, bo == o); }\n" % lit(n),
                      "[%d]\ntrue %d\n{\"k\":%d,\"l\":[%d,%d]}\ntrue true true\n" % (n, n, n, n, n)))
    for f, shown in (("2.0", "2.0"), ("0.5", "0.5"), ("1000000.0", "1000000.0"), ("(0.0 - 3.0)", "-3.0"), ("9007199254740993.0", "9007199254740992.0"), ("0.1", "0.1")):
        progs.append(("float", f, "fn main() { let v = %s; let j = [v].to_json(); let back = j.parse_json() as [float]; println(j); println(back[0] == v); }\n" % f,
                      "[%s]\ntrue\n" % shown))
    # member names are text like any other: a name which arrives decomposed (escaped in the JSON text, or put together at run time)
    # is the same member as its composed form - every key which keys() returns finds its member, and the round trip keeps it
    for name, key in (("escaped-accent", "e\\\\u0301"), ("escaped-jamo", "\\\\u1100\\\\u1161"), ("escaped-two-accents", "a\\\\u0323\\\\u0302"), ("plain", "k")):
        progs.append(("key", name, "fn main() { let o = \"{\\\"%s\\\":1}\".parse_json() as { ? }; let ks = o.keys(); println(ks.len(), ks[0].len() < 3, o.get(ks[0])); "
                      "let back = o.to_json().parse_json() as { ? }; println(back == o, back.get(ks[0]), back.keys() == ks); "
                      "let p = new { ? }; for c in ks[0] { p.set(c, 1); } println(p.keys().len()); }\n" % key,
                      "1 true Some(1)\ntrue Some(1) true\n%d\n" % (1 if name != "plain" else 1)))
    res = pool.map([{"op": "run", "id": i, "a": {"modules": {"main": src}, "entry": "main", "backend": b, "timeout_ms": 8000}}
                    for i, (k, n, src, want) in enumerate(progs) for b in ("vm", "tree")], timeout=30)
    k = 0
    for kind, n, src, want in progs:
        for b in ("vm", "tree"):
            rr = res[k]
            k += 1
            rep.count()
            rep.nontrivial(("json-number", kind, str(n), b))
            feat = {"family": "json-numbers", "backend": b, "kind_of_number": kind}
            if "crash" in rr or "hang" in rr:
                rep.fail(dict(feat, kind="hostcrash"), {"program": src, "real": str(rr)[:1200]})
                continue
            r_ = rr["r"]
            if not r_["accepted"] or r_["out"] != want or (r_.get("outcome") or {}).get("kind") != "done":
                rep.fail(dict(feat, kind="round-trip-changes-number"), {"program": src, "want": want, "got": r_["out"], "outcome": r_.get("outcome"),
                                                                       "diags": [d for d in r_["diags"] if d["level"] == "Error"][:2]})
    return rep.finish()