"""C09 - configured resource limits are enforced as interrupts."""
import random

from . import common as C
from . import vmtrace

Q = 50   # the VM polls its limits every 50 instructions


def shapes(sizes):
    out = []
    for d in sizes:
        out.append(("recursion", d,
                    "fn r(n: int) -> int { if n == 0 { 0 } else { 1 + r(n - 1) } }\nfn main() { println(r(%d)); }\n" % d, str(d) + "\n"))
        expr = "1"
        for _ in range(d):
            expr = "(1 + %s)" % expr
        out.append(("nesting", d, "fn main() { println(%s); }\n" % expr, str(d + 1) + "\n"))
        lets = "".join("    let v%d = %d;\n" % (i, i) for i in range(d))
        out.append(("locals", d, "fn f() -> int {\n%s    v0 + v%d\n}\nfn main() { println(f()); }\n" % (lets, d - 1), str(d - 1) + "\n"))
        out.append(("rec_locals", d,
                    "fn r(n: int) -> int { let a = n; let b = a + 1; let c = b + 1; if n == 0 { c } else { r(n - 1) + 0 * (a + b) } }\n"
                    "fn main() { println(r(%d)); }\n" % d, "2\n"))
    return out


LONG = [
    ("loop_100k", "fn main() { let s = 0; let i = 0; while i < 100000 { i += 1; s = (s + i) % 1000; } println(s); }\n", "0\n"),
    ("calls_20k", "fn f(n: int) -> int { let t = n + 1; t * 2 }\nfn main() { let s = 0; for i in 0..20000 { s = (s + f(i)) % 1000; } println(s); }\n", None),
    ("try_loop_20k", "fn main() { let n = 0; for i in 0..20000 { try { if i % 3 == 0 { throw(\"x\"); } n += 1; } catch e { n += 2; } } println(n); }\n", None),
    ("match_loop_20k", "fn main() { let n = 0; for i in 0..20000 { n += match i % 3 { 0 => 1, 1 => 2, _ => 3 }; } println(n); }\n", None),
    ("lists_20k", "fn main() { let n = 0; for i in 0..20000 { let l = [i, i + 1]; n = (n + l[1]) % 7; null; } println(n); }\n", None),
    ("break_continue_20k", "fn main() { let n = 0; for i in 0..20000 { for j in 0..3 { if j == 1 { continue; } if j == 2 { break; } n += 1; } } println(n); }\n", "20000\n"),
]


def exit_path_programs(n=5000):
    """a frame (and whatever else a call takes) must be given back on every way out of the call: calls of named
    functions, closures, builtins and members x the place where an exception leaves them, repeated far more often than
    any limit allows frames"""
    helpers = ("fn fail(i: int) -> int { if i >= 0 { throw(\"f\"); } i }\n"
               "fn pass(x: int) -> int { x }\n"
               "fn deep(n: int, i: int) -> int { if n == 0 { fail(i) } else { deep(n - 1, i) + 1 } }\n")
    callees = {
        "named": ("", "pass(%s)"),
        "named2": ("", "pass(pass(%s))"),
        "closure": ("let c = fn(x: int) -> int { x };", "c(%s)"),
        "closure_in_named": ("let c = fn(x: int) -> int { x };", "pass(c(%s))"),
        "builtin": ("", "println(%s)"),
        "member": ("let l = [0];", "l.push(%s)"),
        "list_literal": ("", "[1, pass(%s)]"),
        "infix": ("", "1 + pass(%s)"),
    }
    # the exception may also be raised in the frame of the try itself, with operands of the expression already evaluated
    callees.update({
        "same_frame_member": ("let t = \"x\";", "1 + (2 * t.parse_int()) + %s"),
        "same_frame_unwrap": ("let o: ?int = none;", "[1, 2, o.unwrap() + %s]"),
        "same_frame_throw": ("", "pass(1) + { throw(\"t\"); %s }"),
        "same_frame_index": ("let l = [1];", "l[0] + l[0] * { throw(\"t\"); %s }"),
        "same_frame_arrow": ("let c = new { ? };", "pass(3) - { let q: int = c~>missing; q + %s }"),
    })
    exits = {"throw_in_argument": "fail(i)", "throw_in_body_of_argument": "deep(3, i)", "throw_in_second_argument_position": "pass(1) + fail(i)"}
    out = []
    for cn, (pre, call) in callees.items():
        for en, arg in exits.items():
            src = helpers + "fn main() { let n = 0; %s for i in 0..%d { try { %s; n += 100; } catch e { n += 1; } } println(n); }\n" % (pre, n, call % arg)
            out.append(("exit_%s_%s" % (cn, en), src, "%d\n" % n))
    # exceptions leaving the callee's own body, a loop in the callee left by return, a callee returning from inside try
    out.append(("exit_body_throw", helpers + "fn main() { let n = 0; for i in 0..%d { try { deep(4, i); } catch e { n += 1; } } println(n); }\n" % n, "%d\n" % n))
    out.append(("exit_return_in_loop", "fn f(i: int) -> int { for j in 0..10 { if j == 3 { return i; } } 0 }\nfn main() { let n = 0; for i in 0..%d { n += f(1); } println(n); }\n" % n, "%d\n" % n))
    out.append(("exit_return_in_try", "fn f(i: int) -> int { try { return i; } catch e { return 0; } }\nfn main() { let n = 0; for i in 0..%d { n += f(1); } println(n); }\n" % n, "%d\n" % n))
    out.append(("exit_return_in_catch", "fn f(i: int) -> int { try { throw(\"x\"); } catch e { return i; } }\nfn main() { let n = 0; for i in 0..%d { n += f(1); } println(n); }\n" % n, "%d\n" % n))
    # statements which take one way out of several, none of which may leave an operand behind: a match in which no arm
    # matches (with and without a default), an if without else, a loop left at once, a null-typed block - far more often than the
    # operand stack has room
    stmts = {
        "match_no_arm_matches": "match i { 1000001 => println(\"a\"), 1000002 => println(\"b\") }",
        "match_default_taken": "match i { 1000001 => println(\"a\"), _ => { } }",
        "match_value_no_arm": "let v = match i { 1000007 => 1, _ => 2 }; n += v - 2;",
        "match_on_text_no_arm": "match \"k\" { \"a\" => println(\"a\"), \"b\" | \"c\" => println(\"b\") }",
        "if_without_else_not_taken": "if i < 0 { println(\"neg\"); }",
        "loop_left_at_once": "loop { break; }",
        "for_over_nothing": "for q in 0..0 { println(q); }",
        "try_nothing_thrown": "try { i; } catch e { println(\"c\"); }",
        "block_statement": "{ i; }",
        "call_of_null_function": "nothing(i);",
    }
    for name, st in stmts.items():
        src = "fn nothing(x: int) { }\nfn step(i: int, n: int) -> int { %s n + 1 }\nfn main() { let n = 0; for i in 0..%d { %s n += 1; } for i in 0..%d { n = step(i, n); } println(n); }\n" % (st.replace("n += v - 2;", ""), n, st, n)
        out.append(("stmt_" + name, src, "%d\n" % (2 * n)))
    return out


def needs(trace):
    cs = sh = mp = 0
    for e in trace:
        if e["e"] == "I" and e["c"] >= 1:
            cs, sh, mp = max(cs, e["cs"]), max(sh, e["sh"]), max(mp, e["mp"])
    return {"call": cs, "stack": sh, "mem": mp}


def run(args):
    rep = C.Report("C09")
    thorough = C.tier() == "thorough"
    rnd = random.Random(C.seed())
    sizes = [1, 2, 5, 10, 20, 40, 70, 110, 160, 230, 320, 450] if thorough else [2, 8, 30, 70, 120, 260]
    rep.cov["rule"] = ("programs parameterised by recursion depth, expression nesting, locals per frame and iteration count "
                       "(sizes %s); each one's need (max frames, operand-stack height, memory pointer) is measured from its "
                       "instruction trace under generous limits, then it runs under limit triples below / at / above each "
                       "need: need <= limit => normal completion; need > limit + 50 (one quantum) => the corresponding "
                       "fatal interrupt; in between either; never a host crash; all traces validated against HmsVM "
                       "(LimitOvershoot, LoopNeutral, ReturnBalanced); long-running bounded programs complete under tight "
                       "limits, among them calls of named functions / closures / builtins / members left by an exception in an argument, in the "
                       "callee or in a nested call, repeated far beyond every limit; interpreter: call depth vs its limit; non-trivial = distinct (program, limits, backend)" % sizes)
    pool = C.Pool(C.build_worker())
    progs = shapes(sizes)
    GEN = {"call": 4000, "stack": 20000, "mem": 200000}
    base = pool.map([{"op": "run", "id": i, "a": {"modules": {"main": s}, "entry": "main", "backend": "vm", "limits": GEN,
                                                  "trace": True, "trace_instr": True, "timeout_ms": 20000}}
                     for i, (k, d, s, o) in enumerate(progs)], timeout=60)
    plan = []
    traces, owners = [], []
    for (kind, d, src, out), r in zip(progs, base):
        rep.count()
        if "crash" in r or "hang" in r:
            rep.fail({"family": "limits", "shape": kind, "kind": "hostcrash-generous"}, {"source": src[:400], "real": str(r)[:1200]})
            continue
        rr = r["r"]
        if not rr["accepted"] or rr["outcome"]["kind"] != "done" or rr["out"] != out:
            raise C.Machinery("baseline run of %s(%d) failed: %s %r" % (kind, d, rr["outcome"], rr["out"][:80]))
        nd = needs(rr["trace"])
        traces.append(rr["trace"])
        owners.append({"shape": kind, "size": d})
        for res in ("call", "stack", "mem"):
            for off in ([-Q - 30, -Q - 2, -3, -1, 0, 1, 4] if thorough else [-Q - 5, -1, 0, 2]):
                lim = dict(GEN)
                lim[res] = nd[res] + off
                if lim[res] < 1:
                    continue
                plan.append((kind, d, src, out, res, off, lim, nd))
    res = pool.map([{"op": "run", "id": i, "a": {"modules": {"main": s}, "entry": "main", "backend": "vm", "limits": lim,
                                                 "trace": i % 5 == 0, "trace_instr": i % 5 == 0, "timeout_ms": 20000}}
                    for i, (k, d, s, o, r_, off, lim, nd) in enumerate(plan)], timeout=60)
    for (kind, d, src, out, resn, off, lim, nd), r in zip(plan, res):
        rep.count()
        rep.nontrivial((kind, d, resn, off, "vm"))
        feat = {"family": "limits", "backend": "vm", "shape": kind, "resource": resn,
                "zone": "within" if off >= 0 else ("far-below" if off < -Q else "near-below")}
        if "crash" in r or "hang" in r:
            from .sem import panic_class
            rep.fail(dict(feat, kind="hostcrash" if "crash" in r else "hang", panic=panic_class((r.get("crash") or {}).get("stderr", ""))),
                     {"source": src[:400], "limits": lim, "need": nd, "real": str(r)[:1500]})
            continue
        rr = r["r"]
        oc = rr["outcome"]
        want_fatal = "OutOfMemoryError" if resn == "mem" else "StackOverFlow"
        completed = oc["kind"] == "done" and rr["out"] == out
        stopped = oc["kind"] == "fatal" and oc.get("fatal") == want_fatal
        # memory is checked on every allocation: exact.  frames / operands are polled once per quantum.
        slack = 0 if resn == "mem" else Q
        if off >= 0 and resn != "mem" or (resn == "mem" and off >= 1):
            if not completed:
                rep.fail(dict(feat, kind="stopped-within-limits", got=oc["kind"] + ":" + str(oc.get("fatal"))),
                         {"source": src[:400], "limits": lim, "need": nd, "outcome": oc})
        elif off < -slack:
            if not stopped:
                rep.fail(dict(feat, kind="limit-not-enforced", got=oc["kind"] + ":" + str(oc.get("fatal"))),
                         {"source": src[:400], "limits": lim, "need": nd, "outcome": oc, "out": rr["out"][:100]})
        else:
            if not (completed or stopped):
                rep.fail(dict(feat, kind="neither-completed-nor-stopped", got=oc["kind"] + ":" + str(oc.get("fatal"))),
                         {"source": src[:400], "limits": lim, "need": nd, "outcome": oc})
        if rr.get("trace"):
            traces.append(rr["trace"])
            owners.append({"shape": kind, "size": d, "limits": lim})
    # ---- bounded programs run indefinitely under tight limits
    TIGHT = {"call": 12, "stack": 40, "mem": 64}
    LONGS = LONG + exit_path_programs(5000 if thorough else 1500)
    res = pool.map([{"op": "run", "id": i, "a": {"modules": {"main": s}, "entry": "main", "backend": b, "limits": TIGHT,
                                                 "tree_limit": 12, "timeout_ms": 60000}}
                    for i, (n, s, o) in enumerate(LONGS) for b in ("vm", "tree")], timeout=90)
    k = 0
    for (name, src, out) in LONGS:
        for b in ("vm", "tree"):
            r = res[k]
            k += 1
            rep.count()
            rep.nontrivial(("long", name, b))
            feat = {"family": "long-run", "program": name, "backend": b}
            if "crash" in r or "hang" in r:
                rep.fail(dict(feat, kind="hostcrash" if "crash" in r else "hang"), {"source": src, "real": str(r)[:1500]})
                continue
            rr = r["r"]
            if rr["outcome"]["kind"] != "done" or (out is not None and rr["out"] != out):
                rep.fail(dict(feat, kind="bounded-program-stopped", got=rr["outcome"]["kind"] + ":" + str(rr["outcome"].get("fatal"))),
                         {"source": src, "limits": TIGHT, "outcome": rr["outcome"], "out": rr["out"][:100]})
    # ---- interpreter: call depth
    tplan = []
    for d in sizes:
        src = "fn r(n: int) -> int { if n == 0 { 0 } else { 1 + r(n - 1) } }\nfn main() { println(r(%d)); }\n" % d
        for off in (-10, -3, 0, 3, 10):
            if d + off >= 1:
                tplan.append((d, off, src))
    res = pool.map([{"op": "run", "id": i, "a": {"modules": {"main": s}, "entry": "main", "backend": "tree", "tree_limit": d + off,
                                                 "timeout_ms": 20000}} for i, (d, off, s) in enumerate(tplan)], timeout=60)
    for (d, off, src), r in zip(tplan, res):
        rep.count()
        rep.nontrivial(("tree", d, off))
        feat = {"family": "limits", "backend": "tree", "shape": "recursion", "resource": "call",
                "zone": "within" if off >= 3 else ("far-below" if off <= -10 else "near")}
        if "crash" in r or "hang" in r:
            rep.fail(dict(feat, kind="hostcrash" if "crash" in r else "hang"), {"depth": d, "limit": d + off, "real": str(r)[:1500]})
            continue
        oc = r["r"]["outcome"]
        completed = oc["kind"] == "done" and r["r"]["out"] == str(d) + "\n"
        stopped = oc["kind"] == "fatal" and oc.get("fatal") == "StackOverFlow"
        if off >= 3 and not completed:
            rep.fail(dict(feat, kind="stopped-within-limits"), {"depth": d, "limit": d + off, "outcome": oc})
        elif off <= -3 and not stopped:
            rep.fail(dict(feat, kind="limit-not-enforced"), {"depth": d, "limit": d + off, "outcome": oc})
        elif not (completed or stopped):
            rep.fail(dict(feat, kind="neither-completed-nor-stopped"), {"depth": d, "limit": d + off, "outcome": oc})
    vmtrace.validate_all(traces, owners, rep, {"family": "vm-trace"})
    rep.sample({"shape": "recursion", "size": sizes[2], "need": "measured from the trace", "limit_offsets": "need-55 .. need+4"})
    rep.sample({"long_run": LONG[2][0], "source": LONG[2][1], "limits": TIGHT})
    return rep.finish()
