"""Writes MANIFEST.json from the table below (python3 -m hv.mkmanifest)."""
import json
import os

VERIF = os.path.dirname(os.path.dirname(os.path.abspath(__file__)))

CHECKS = {
    "C06": dict(
        technique="TLA+ spec of the lexical grammar (HmsLex) model-checked with TLC; every terminal state replayed "
                  "on the real lexer; recorded token streams of real files trace-validated (TraceLex)",
        text="TLC enumerates every input of the bounded families (all strings over a class alphabet up to length "
             "3/4, all lexeme adjacencies with 6 separators), checks the design invariants (partition, longest "
             "match, span = lexeme, determinism) in every state and exports the expected token list with spans; "
             "the real lexer must produce exactly that list. Token streams recorded from the real lexer on the "
             "repository's 59 .hms files are validated against the same spec by TLC.",
        note="Trusted: the transcription of grammar.ebnf into HmsLex.tla, TLC, the JSON bridge. Inputs longer than "
             "the bounds are covered only through the recorded real files.",
        design="5/C06"),
    "C07": dict(
        technique="TLA+ operator-precedence machine (HmsExpr, shunting-yard) model-checked with TLC; every terminal "
                  "state rendered in several layouts and replayed on the real parser",
        text="TLC runs a shunting-yard parser driven by the property's operator table on all operator pairs, "
             "operator triples and prefix/postfix decorations, checks YieldPreserved / NoLooserChild in every state "
             "and exports (item sequence, tree). Each is rendered with spaces, newlines, comments, no spaces, "
             "parenthesised atoms, inside lists / call arguments with trailing commas and as seeded compositions; "
             "the real parser's tree (spans dropped) must equal the expected tree in every layout.",
        note="Trusted: the transcription of the operator table into HmsExpr.tla, the harness' renderer and tree "
             "normaliser. The range operator `..` is outside the property's table and not generated.",
        design="5/C07"),
    "C01": dict(
        technique="TLA+ small-step source semantics (HmsSem, CEK machine) run by TLC on every generated program; "
                  "expected output/outcome replayed on the compiler+VM in isolated workers",
        text="Programs are spec ASTs (operator x operand tables, scoping/sharing/snapshot/branch-value/call "
             "templates, control nestings, seeded random well-typed programs). TLC executes HmsSem on each, checking "
             "KontWellFormed, CleanExit, ExitsAreLexical, FatalNotCaught, OutputMonotone in every state, and exports "
             "the host-visible output and outcome; the rendered source is analysed, compiled and run on the real VM "
             "and must produce exactly that output and outcome.",
        note="Trusted: HmsSem as the reading of the language description, the renderer, TLC. Integers < 2^30 and "
             "dyadic floats only (64-bit boundaries incl. integer powers: HmsInt64 family; nan, infinities and signed zeros under "
             "comparison and arithmetic: HmsFloat family). Threads whose functions are pure are run by HmsSem at their join.",
        design="5/C01"),
    "C04": dict(
        technique="TLA+ source semantics (HmsSem) as common oracle for both backends plus direct VM/interpreter "
                  "cross comparison on every generated program",
        text="Every program of the C01 families runs on the tree-walking interpreter and on the VM; each must match "
             "HmsSem's observation and the two observations (text, outcome class, message, fatal kind) must be equal.",
        note="Shared fragment only (no spawn / trigger / any-object member operators).",
        design="5/C04"),
    "C11": dict(
        technique="TLA+ source semantics (HmsSem: BreakUnwind/ContinueUnwind/ReturnUnwind/ThrowUnwind/FatalStop) on "
                  "exhaustively enumerated control nestings, replayed on both backends",
        text="All legal nestings (depth <= 2 quick / 3 thorough) of loop, while, for, block, if, match arm, match "
             "default, try, catch, call around break/continue/return/throw/fatal, each with marker output, a second "
             "use of locals/try/loop and two endings (normal, final uncaught throw that a stale handler would "
             "catch). TLC computes the exact expected output and outcome; VM and interpreter must reproduce it.",
        note="Trusted: HmsSem, renderer. 9244 programs x 2 backends in the thorough tier.",
        design="5/C11"),
    "C10": dict(
        technique="TLA+ spec of cores/Wait/cancel (HmsCores) model-checked incl. liveness under fairness; cancel at "
                  "every k-th poll replayed on VM and interpreter; event traces validated against TraceCores",
        text="TLC proves for the bounded HmsCores model (cancel enabled in every state) the safety properties and "
             "CancelLeadsToReturn / OffersAreTaken under weak fairness, and refutes them for the protocol of the "
             "original snapshot. On the code, the context is cancelled at the k-th poll for every k (hook) for loops, "
             "calls, try/catch, looping handlers, sleeps and spawned cores on both backends: outcome must be a "
             "termination interrupt (or the program's own), <= 50 instructions per core after the cancel, no core or "
             "goroutine left; VM event traces must be behaviours of HmsCores.",
        note="Trusted: hooks at the linearization points (build tag verif), TLC, the bounded model (<= 4 cores).",
        design="5/C10"),
    "C16": dict(
        technique="TLA+ source semantics (HmsSem) as oracle for invocation histories on one VM + TraceCores trace "
                  "validation of the SpawnSync/Wait protocol after every call",
        text="All histories of <= 2 (thorough: 3) invocations over 23 (function, argument) choices are executed on ONE "
             "VM through SpawnSync; HmsSem runs the same calls with persistent globals and fixes each result / "
             "exception; after every call the core list must be empty and later calls must be answered; recorded "
             "event traces are validated against TraceCores (LocksReleasedOnReturn, ListEmptyOnReturn, ...).",
        note="Trusted: HmsSem, the worker's projection of return values.",
        design="5/C16"),
    "C17": dict(
        technique="TLA+ spec of spawn/Wait (HmsCores) model-checked; TLC-chosen schedules replayed on the real VM "
                  "with hooks as scheduler gates; free-running traces validated against TraceCores; race detector",
        text="HmsCores is checked exhaustively for <= 3/4 cores (WaitOnlyAfterAllDone, FatalReported, "
             "NoCoreStranded, LockDiscipline, ...). Random walks of the model are exported as schedules and the real "
             "goroutines are forced through them (gates in the hooks); free-running executions of programs spawning "
             "1..8 cores under GOMAXPROCS 1..16 with seeded yields are recorded; every trace must be a behaviour of "
             "the spec with all invariants holding after every event; outputs must be an interleaving of the per-core "
             "line sequences; the same programs run under -race. HmsCores also models the joiner (h.join(): JoinSound, "
             "JoinEndsAfterThread, NoJoinerLeft, JoinsEnd under fairness) and WaitNonConsuming beside Wait (WatchSound, "
             "WatchReturns under strong fairness of the write-lock acquisitions; the watcher as found is refuted); join "
             "programs (order, twice, never, nested, failing threads) and watched runs are traced and validated, "
             "schedules with joins are replayed.",
        note="Go scheduler interleavings are sampled, the model is exhaustive; data races are observed by the race "
             "detector (auxiliary monitor). Known finding: unsynchronised pushes to a list held in a global.",
        design="5/C17"),
    "C12": dict(
        technique="TLA+ spec of the cast relation (HmsCast: Conforms, Cast, BadPaths) with its theorems model-checked "
                  "by TLC over the enumerated (value, type, mode) space; every triple replayed on both DeepCast "
                  "implementations; in-program and host-boundary forms replayed on both backends",
        text="TLC enumerates all values/types of depth <= 1 (quick: + a slice of depth 2; thorough: all of depth 2) and "
             "both modes, proves AdmittedConforms, ConformingUnchanged, StrictAdmitsOnlyByShape, RefusalNamesPosition, "
             "PathsAgree on every triple and exports the specified verdict, admitted value and the set of offending "
             "positions; runtime/value.DeepCast and interpreter/value.DeepCast must give the same verdict and value "
             "and name one of the offending positions. `as`, annotated let and parse_json refusals must be catchable "
             "with intact locals afterwards; non-conforming SpawnSync arguments must be refused without running.",
        note="Trusted: HmsCast as the reading of the property's conversion list; floats as halves; the worker's "
             "value projection.",
        design="5/C12"),
    "C13": dict(
        technique="TLA+ spec of values (HmsValue: structural equality, clone as independent copy, mutation histories) "
                  "enumerated by TLC; every pair / history / JSON-representable value replayed on the runtime value "
                  "libraries",
        text="For 20 static types TLC enumerates all value pairs with the specified structural equality (checked "
             "reflexive/symmetric in the model), all histories Clone + <= 2/3 mutations on either side with the "
             "resulting pair of trees, and all JSON-representable values. Both value libraries must agree with the "
             "specified equality in both directions, render equal values identically in both runtimes, keep original "
             "and copy independent after every history, and return an equal value from to_json -> parse_json -> cast.",
        note="Trusted: HmsValue, the worker's projection. The interpreter's library has no Clone (copy laws on the "
             "VM's library only).",
        design="5/C13"),
    "C18": dict(
        technique="analyzer member table extracted and compared with both runtimes; TLA+ spec of member semantics "
                  "(HmsMembers) enumerated by TLC over boundary receivers / indices and replayed on both runtimes",
        text="The finite cross product (type kind x offered member) is checked for existence in both runtimes and "
             "every member is called with boundary arguments (no panic, result conforms to the advertised type). "
             "HmsMembers specifies list / option / range / int / string members and indexing with indices "
             "-n-1..n+1 (negative = from the end, out of range = interrupt); TLC enumerates 420 cases with specified "
             "result and receiver-afterwards, both runtimes must reproduce them.",
        note="Type-only (no value oracle) for compare_lev, parse_float, to_json_indent, to_lower/upper, replace, join.",
        design="5/C18"),
    "C03": dict(
        technique="TLA+ type checker (HmsTypes: Compat, TypeOf, CheckStmt, CheckProgram with frozen operator / member / builtin "
                  "tables) evaluated by TLC on every generated program and single-fault mutant; verdict and let-bound types "
                  "replayed on the real analyzer",
        text="Well-typed programs (typing forms, templates, captures, lambdas, operators x operand types, control nestings, seeded "
             "random programs) and their single-fault mutants (a literal of another type in every expression position, arity, "
             "unknown identifier / member / type, break / continue outside a loop or inside a function literal, duplicate function / "
             "parameter / global, non-constant global, implicit any, main shape, declared / returned type incl. after a function "
             "literal, operator outside its type, calling / indexing a non-function / non-container, loop and if values, missing "
             "match default, 13 ways to break an impl block, 11 ways to break a trigger statement) are judged by HmsTypes: ok with the type of every let-bound variable, the class of the first broken "
             "rule, or unspec. The analyzer must report no error-level diagnostic exactly for the ok programs and must have "
             "recorded the same variable types.",
        note="Also modelled: singletons and singleton parameters, impl blocks against the host template (capabilities, required "
             "methods, parameter names / types, extraction), trigger statements (imported trigger, event callback of the "
             "trigger's shape, arguments). Not modelled: #[trigger] annotations, imports between Homescript modules (C15). "
             "Trusted: the transcription of the rule tables and of the test host's template / trigger.",
        design="5/C03"),
    "C15": dict(
        technique="TLA+ spec of modules, imports and name resolution (HmsLink) model-checked with TLC over the "
                  "exhaustively enumerated 3-module graph space and all module visiting orders; every graph rendered "
                  "as real modules and analysed / run on both backends",
        text="HmsLink enumerates 663552 graphs of three modules (contested function f private / pub / absent per module, "
             "same-named globals x / hist and helper h in every module, a type T, every import list incl. private and "
             "missing items, a missing module, cycles through and beside main) and lets the modules be initialised in "
             "every order; TLC checks OnlyPubImportable, InitExactlyOnceBeforeMain, OrderIndependent, "
             "ResolvesToDefiningModule in every state and exports per import item the specified verdict and per accepted "
             "graph the specified output. The rendered modules (import statements in 2-3 orders) must be diagnosed "
             "exactly there and produce exactly that output on VM and interpreter.",
        note="Imports whose name clashes with a local definition or another import are left unspecified (skipped). A "
             "cycle is demanded to be reported, not attributed to a particular statement.",
        design="5/C15"),
    "C14": dict(
        technique="deterministic TLA+ specifications as the single allowed result (HmsLink: OrderIndependent over all "
                  "module visiting orders, model-checked; HmsSem: one behaviour per program) against R repetitions of "
                  "analyse+compile+run per backend under varied GOMAXPROCS / seeded yields / process histories",
        text="Every module graph of a slice of HmsLink and every program of the order family (objects with 2..12 "
             "fields, 40 shadowed locals, 14 functions / globals in shuffled definition order) and of the template / "
             "lambda / singleton / random families is analysed, compiled and run 4 (thorough: 8) times per backend; each "
             "repetition must produce the output and outcome the specification fixes, and the diagnostics multiset of "
             "sources with several errors and warnings (token-level mutants, many unused names) must be identical in "
             "every repetition.",
        note="Repetitions sample Go's map orders (each fresh map draws a new order), they do not enumerate them; "
             "12-field objects make an accidental match of all repetitions negligible (1/12! per print).",
        design="5/C14"),
    "C19": dict(
        technique="TLA+ source semantics (HmsSem) and module-linking spec (HmsLink) as the meaning that must survive; every "
                  "generated program and module graph is printed from its parsed and analysed form by the real printers, "
                  "re-parsed / re-analysed, optimised, and replayed on both backends",
        text="For every program of the families (printer forms: string escapes, non-identifier and keyword keys, nested value "
             "blocks, operator nesting, statements, type forms, globals; typing forms, templates, captures, lambdas, closures, "
             "singletons, control nestings, operators, random programs), hand-written form files (impl blocks, pub items, "
             "any-objects, spawn) and the repository's .hms files: parse -> print -> parse -> print and analyse -> print -> "
             "analyse -> print must be fixed points after one round and keep acceptance; original, both printed forms and the "
             "optimiser's output must behave identically on the VM (original and printed also on the interpreter), the original "
             "as HmsSem prescribes. Accepted HmsLink graphs are printed module by module and must still link and print what "
             "HmsLink specifies.",
        note="Positions inside messages are masked when two behaviours are compared (they move when text is re-printed). The "
             "optimiser only drops statements after a diverging one at function level; deeper rewrites do not exist yet.",
        design="5/C19"),
    "C20": dict(
        technique="TLA+ source semantics (HmsSem) fixes the behaviour of the original program; the real Transformer is run "
                  "with several seeds and passes on every program of the stated class and every printed variant is "
                  "re-analysed and replayed on both backends against that behaviour",
        text="Programs of the class (syntactic filter over the spec-AST families plus programs and pure arithmetic trees written "
             "for it: side-effect free operands wherever the transformer swaps or duplicates, integer multiplications with "
             "literal operands 0..12, small literals) x 3 (thorough: 10) transformer seeds x 2 (3) passes: every variant must be "
             "accepted by the analyzer and produce on VM and interpreter exactly the output and outcome HmsSem computes for the "
             "original; a transformer panic is a violation.",
        note="The repository's example programs are not used (membership in the class cannot be decided for them). Known "
             "finding: variants that give a capturing function literal a local hit the VM's closure defect.",
        design="5/C20"),
    "C09": dict(
        technique="TLA+ bytecode-machine spec (HmsVM: one rule per opcode, LimitOvershoot / LoopNeutral / "
                  "ReturnBalanced / NoUnderflow / HandlersLive) validated against recorded instruction traces "
                  "(TraceVM) of limit-parameterised programs; three-zone oracle on the outcome",
        text="Programs parameterised by recursion depth, expression nesting, locals and iterations run under limit "
             "triples below / at / above their measured need: need <= limit must complete, need > limit + one quantum "
             "must end in the corresponding fatal interrupt, never a host crash; bounded long-running programs must "
             "complete under tight limits on both backends; every recorded instruction trace must be a behaviour of "
             "HmsVM with all its invariants holding at every instruction.",
        note="Trusted: the per-opcode rule table of HmsVM (transcribed from the instruction set), the hooks.",
        design="5/C09"),
    "C05": dict(
        technique="input space enumerated from the TLA+ lexical specification (HmsLex alphabet strings, lexeme "
                  "adjacencies via TLC) plus token-level mutations of spec-rendered programs; totality observed in "
                  "memory-limited isolated workers",
        text="TLC enumerates every string over HmsLex's class alphabet up to length 3/4 and the lexeme adjacencies of "
             "its catalogue; the harness adds every truncation and single-token deletion / replacement / insertion of "
             "the valid programs rendered from the spec-AST families and of the repository's .hms files, nesting depth "
             "up to 1000 and 64 KiB inputs. Each input is lexed, parsed and analysed as entry module and as imported "
             "module text; a worker that dies, exhausts memory or does not answer is a violation for that input.",
        note="The predicate is totality only; the specification supplies the input space, not an expected result.",
        design="5/C05"),
    "C08": dict(
        technique="position records from the real code (syntax errors, diagnostics, interrupt spans) evaluated by TLC "
                  "against the TLA+ predicates of TraceSpans (InFile, Ordered, Within(culprit), Renderable); culprit "
                  "nodes from HmsSem; real Display calls executed",
        text="Malformed inputs (token-level mutations / truncations of valid programs, lexical errors, multi-line "
             "constructs, end of input, imported-module text) and runtime failures whose culprit node is fixed by "
             "HmsSem produce ~10^4 position records per run; TLC evaluates InFile, Ordered, Within and Renderable on "
             "every record and the real Error.Display / Diagnostic.Display call must have returned.",
        note="Line lengths are counted in characters. Caught-error positions (line/column/filename of the error "
             "object) are checked by the C01/C11 comparisons.",
        design="5/C08"),
    "C02": dict(
        technique="isolated-worker execution of spec-derived program families under a CoreLimits grid; VM instruction "
                  "traces validated against the TLA+ bytecode-machine spec (HmsVM / TraceVM)",
        text="Every (operator, operand type) the analyzer admits x boundary operands (zero divisors, negative / >= 64 "
             "shift counts, extreme ints and floats), compound assignments on variables / elements / fields, boundary "
             "member / option / cast / closure / global programs and the C01 families run on both backends under 2/4 "
             "limit settings in worker processes: the observation must be completion or an interrupt, never a panic, a "
             "hang or a dead worker; recorded instruction traces must satisfy NoUnderflow, LoopNeutral, ReturnBalanced, "
             "HandlersLive, LimitOvershoot at every instruction.",
        note="The specification contributes the input families and the per-instruction invariants; the crash-freedom "
             "predicate itself is observed, not modelled. Two known findings (NewVM panics on failing global "
             "initialisers; return in the middle of an expression leaves operands).",
        design="5/C02"),
}

NOT_YET = {}


def main():
    props = [json.loads(l)["id"] for l in open(os.path.join(VERIF, "properties.jsonl"))]
    checks = []
    for pid in props:
        if pid not in CHECKS:
            continue
        c = CHECKS[pid]
        checks.append({
            "property_id": pid,
            "quick_cmd": "VERIF_TIER=quick ./check %s" % pid,
            "thorough_cmd": "VERIF_TIER=thorough ./check %s" % pid,
            "evidence_file": "evidence/%s.json" % pid,
            "replay_cmd_template": "./check %s --replay {path}" % pid,
            "engine": "tlc+hvworker",
            "level_claimed": {"category": "model_checking", "text": c["text"], "design_ref": c["design"]},
            "level_note": c["note"],
            "technique": c["technique"],
        })
    na = [{"property_id": p, "reason": NOT_YET.get(p, "check not built yet; planned in DESIGN.md section 5")}
          for p in props if p not in CHECKS]
    hooks_commits = []
    hp = os.path.join(VERIF, "hooks_commits.txt")
    if os.path.exists(hp):
        hooks_commits = [l.strip() for l in open(hp) if l.strip()]
    m = {
        "version": 1,
        "setup_cmd": "./setup.sh",
        "hooks": {
            "guard": "verif",
            "enable": "go build -tags verif (the harness module replaces the homescript module with /repo)",
            "baseline_off_cmd": "cd /repo && GOFLAGS=-mod=mod GOPROXY=off go test -vet=off -count=1 ./...",
            "source_commits": hooks_commits,
            "add_only": True,
        },
        "engines": [
            {"name": "tlc+hvworker", "path": "check",
             "serves_properties": [c["property_id"] for c in checks],
             "kind_free_text": "TLA+ specifications in spec/ checked with TLC 1.8; cases exported by TLC are replayed "
                               "on the real code in isolated Go worker processes (harness/); traces recorded from "
                               "the real code are validated by TLC against Trace*.tla"},
        ],
        "checks": checks,
        "not_applicable": na,
        "notes": "Exit codes: 0 held, 1 violation (VIOLATION line), 2 machinery problem (inconclusive). "
                 "known_findings.jsonl lists recorded defects and fix: commits.",
    }
    with open(os.path.join(VERIF, "MANIFEST.json"), "w") as fh:
        json.dump(m, fh, indent=1)
        fh.write("\n")


if __name__ == "__main__":
    main()
