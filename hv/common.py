"""Shared machinery of the homescript verification driver.

  * build_worker():  go build -tags verif of /verif/harness against /repo's working tree
  * run_tlc():       TLC in a scratch directory, CASE / stats parsing
  * Pool:            isolated worker subprocesses (a dead or silent worker is an observation)
  * Report:          violations, known findings, evidence, exit code
"""
import hashlib
import json
import os
import queue
import re
import shutil
import subprocess
import sys
import tempfile
import threading
import time

VERIF = os.path.dirname(os.path.dirname(os.path.abspath(__file__)))
REPO = os.environ.get("VERIF_REPO", "/repo")
BUILD = os.environ.get("VERIF_BUILD", os.path.join(VERIF, ".build"))
OUT = os.environ.get("VERIF_OUT", VERIF)      # evidence/ and replays/ (only my seeded-change experiments redirect them)
SPEC = os.path.join(VERIF, "spec")
NCPU = min(16, os.cpu_count() or 4)

GOENV = dict(os.environ, GOFLAGS="-mod=mod", GOPROXY="off", GOSUMDB="off", GOTOOLCHAIN="local")


class Machinery(Exception):
    """A problem of the verification machinery itself: exit 2, never a violation."""


def tier():
    t = os.environ.get("VERIF_TIER", "quick")
    return t if t in ("quick", "thorough") else "quick"


def seed():
    try:
        return int(os.environ.get("VERIF_SEED", "1"))
    except ValueError:
        return 1


# --------------------------------------------------------------------------------------
# building the worker from /repo's current working tree

_built = {}


def build_worker(race=False, tags="verif"):
    key = (race, tags)
    if key in _built:
        return _built[key]
    os.makedirs(BUILD, exist_ok=True)
    out = os.path.join(BUILD, "hvworker" + ("-race" if race else "") + ("-notag" if not tags else ""))
    harness = os.path.join(VERIF, "harness")
    if REPO != "/repo":
        # (my own experiments with seeded changes run against a scratch copy of the repository: VERIF_REPO / VERIF_BUILD;
        # the registered checks never set them)
        alt = os.path.join(BUILD, "harness")
        shutil.rmtree(alt, ignore_errors=True)
        shutil.copytree(harness, alt)
        gm = open(os.path.join(alt, "go.mod")).read().replace("=> /repo", "=> " + REPO)
        open(os.path.join(alt, "go.mod"), "w").write(gm)
        harness = alt
    # go.sum must be the repository's (no network to verify anything else)
    try:
        shutil.copyfile(os.path.join(REPO, "go.sum"), os.path.join(harness, "go.sum"))
    except OSError:
        pass
    cmd = ["go", "build"]
    if tags:
        cmd += ["-tags", tags]
    if race:
        cmd += ["-race"]
    cmd += ["-o", out, "./cmd/hvworker"]
    p = subprocess.run(cmd, cwd=harness, env=GOENV, capture_output=True, text=True)
    if p.returncode != 0:
        raise Machinery("worker build failed:\n" + p.stdout + p.stderr)
    _built[key] = out
    return out


# --------------------------------------------------------------------------------------
# TLC

_tlc_stats_re = re.compile(r"(\d+) states generated, (\d+) distinct states found")


class TlcResult:
    def __init__(self):
        self.cases = []
        self.lines = []
        self.generated = 0
        self.distinct = 0
        self.ok = False
        self.violation = None  # text of an invariant violation / error reported by TLC
        self.wall = 0.0
        self.stdout = ""


def _unquote_tla(s):
    # TLC prints strings with \\ and \" escapes; that is a subset of JSON string syntax
    return json.loads('"' + s + '"')


def parse_tagged(line, tag):
    pre = '<<"%s", "' % tag
    if line.startswith(pre) and line.endswith('">>'):
        return json.loads(_unquote_tla(line[len(pre):-3]))
    return None


def run_tlc(module, cfg_text, files=(), workers=None, timeout=900, tags=("CASE",), extra_args=(),
            heap=None, keep=False, simulate=None):
    """Run TLC on spec/<module>.tla with the given cfg text in a scratch copy of /verif/spec.

    files: iterable of (name, text) written next to the spec (e.g. ndjson traces).
    Returns TlcResult; lines tagged <<"TAG", json>> are parsed into result.tagged[TAG].
    """
    os.makedirs(BUILD, exist_ok=True)
    d = tempfile.mkdtemp(prefix="tlc-", dir=BUILD)
    res = TlcResult()
    res.module = module
    res.tagged = {t: [] for t in tags}
    try:
        for f in os.listdir(SPEC):
            if f.endswith(".tla"):
                shutil.copyfile(os.path.join(SPEC, f), os.path.join(d, f))
        for name, text in files:
            with open(os.path.join(d, name), "w") as fh:
                fh.write(text)
        with open(os.path.join(d, "run.cfg"), "w") as fh:
            fh.write(cfg_text)
        w = workers or NCPU
        cmd = ["timeout", str(timeout), "java", "-XX:+UseParallelGC", "-Xss64m", "-Djava.io.tmpdir=" + d]
        if heap:
            cmd.append("-Xmx" + heap)
        cmd += ["-cp", "/opt/veriftools/tla/tla2tools.jar:/opt/veriftools/tla/CommunityModules-deps.jar",
                "tlc2.TLC", "-workers", str(w), "-metadir", os.path.join(d, "md"), "-config", "run.cfg"]
        if simulate:
            cmd += ["-simulate", simulate]
        cmd += list(extra_args) + [module + ".tla"]
        t0 = time.time()
        p = subprocess.Popen(cmd, cwd=d, stdout=subprocess.PIPE, stderr=subprocess.STDOUT, text=True,
                             errors="replace")
        other = []
        for line in p.stdout:
            line = line.rstrip("\n")
            hit = False
            if line.startswith('<<"'):
                for t in tags:
                    v = None
                    try:
                        v = parse_tagged(line, t)
                    except Exception:
                        v = None
                    if v is not None:
                        res.tagged[t].append(v)
                        hit = True
                        break
            if not hit:
                other.append(line)
        rc = p.wait()
        res.wall = time.time() - t0
        res.stdout = "\n".join(other)
        m = None
        for m in _tlc_stats_re.finditer(res.stdout):
            pass
        if m:
            res.generated, res.distinct = int(m.group(1)), int(m.group(2))
        res.cases = res.tagged.get("CASE", [])
        if rc == 124:
            raise Machinery("TLC timed out after %ds on %s" % (timeout, module))
        if "Model checking completed. No error has been found." in res.stdout or \
           (simulate and rc == 0):
            res.ok = True
        else:
            res.ok = False
            res.violation = res.stdout[-6000:]
        return res
    finally:
        if not keep:
            shutil.rmtree(d, ignore_errors=True)


def tlc_must_pass(res, what):
    if not res.ok:
        raise Machinery("TLC did not complete cleanly for %s:\n%s" % (what, (res.violation or "")[-4000:]))


# --------------------------------------------------------------------------------------
# worker pool

import fcntl
import select


class _Worker:
    """One isolated worker subprocess; requests are pipelined, answers come back in order."""

    def __init__(self, binary, env=None, memlimit_kb=None):
        self.binary = binary
        self.env = env
        self.memlimit_kb = memlimit_kb
        self.p = None
        self.start()

    def start(self):
        cmd = [self.binary]
        if self.memlimit_kb:
            cmd = ["bash", "-c", "ulimit -v %d; exec %s" % (self.memlimit_kb, self.binary)]
        self.errf = tempfile.TemporaryFile(dir=BUILD)
        self.p = subprocess.Popen(cmd, stdin=subprocess.PIPE, stdout=subprocess.PIPE, stderr=self.errf,
                                  env=self.env, bufsize=0)
        for fd in (self.p.stdin.fileno(), self.p.stdout.fileno()):
            fl = fcntl.fcntl(fd, fcntl.F_GETFL)
            fcntl.fcntl(fd, fcntl.F_SETFL, fl | os.O_NONBLOCK)
        self.rbuf = b""

    def stderr_tail(self):
        """the panic line and the first frames, plus the end, of what the dead worker wrote"""
        try:
            self.errf.seek(0, 2)
            n = self.errf.tell()
            self.errf.seek(max(0, n - 200000))
            t = self.errf.read().decode("utf-8", "replace")
        except Exception:
            return ""
        k = t.find("panic:")
        if k < 0:
            k = t.find("fatal error:")
        head = t[k:k + 1800] if k >= 0 else t[:600]
        return head + ("\n...\n" + t[-700:] if len(t) > k + 2500 else "")

    def run_chunk(self, reqs, timeout):
        """Pipeline reqs through the worker.  Returns list of responses (same order).
        A request during which the worker died gets {'crash':..}, one that exceeded the
        timeout gets {'hang': True}; the worker is restarted and the rest continues."""
        out = []
        i = 0
        while i < len(reqs):
            got, fate = self._pipeline(reqs[i:], timeout)
            out.extend(got)
            i += len(got)
            if fate is not None and i < len(reqs):
                out.append(fate)
                i += 1
        return out

    def _pipeline(self, reqs, timeout):
        datas = [(json.dumps(r) + "\n").encode() for r in reqs]
        got = []
        sent = 0          # number of requests fully written
        wbuf = b""
        win = 32
        fin, fout = self.p.stdin.fileno(), self.p.stdout.fileno()
        last = time.time()
        while len(got) < len(reqs):
            if not wbuf and sent < len(reqs) and sent - len(got) < win:
                wbuf = datas[sent]
                sent += 1
            wl = [fin] if wbuf else []
            try:
                r, w, _ = select.select([fout], wl, [], 1.0)
            except (OSError, ValueError):
                r, w = [], []
            if w:
                try:
                    n = os.write(fin, wbuf)
                    wbuf = wbuf[n:]
                except BlockingIOError:
                    pass
                except (BrokenPipeError, OSError):
                    # the worker is gone, but answers to earlier requests may still sit in the pipe: read them first,
                    # or the crash would be blamed on a request that was answered
                    wbuf = b""
                    sent = len(reqs)
                    continue
            if r:
                try:
                    data = os.read(fout, 1 << 20)
                except BlockingIOError:
                    data = None
                except OSError:
                    data = b""
                if data == b"":
                    return got, self._dead()
                if data:
                    self.rbuf += data
                    while True:
                        k = self.rbuf.find(b"\n")
                        if k < 0:
                            break
                        line, self.rbuf = self.rbuf[:k], self.rbuf[k + 1:]
                        try:
                            got.append(json.loads(line))
                        except Exception:
                            raise Machinery("worker wrote a non-JSON line: %r" % line[:300])
                        last = time.time()
            if time.time() - last > timeout:
                self.kill()
                self.start()
                return got, {"hang": True}
        return got, None

    def _dead(self):
        try:
            rc = self.p.wait(timeout=5)
        except Exception:
            rc = None
        tail = self.stderr_tail()
        self.kill()
        self.start()
        return {"crash": {"rc": rc, "stderr": tail}}

    def kill(self):
        try:
            self.p.kill()
            self.p.wait(timeout=5)
        except Exception:
            pass
        try:
            self.errf.close()
        except Exception:
            pass

    def close(self):
        try:
            self.p.stdin.close()
        except Exception:
            pass
        self.kill()


class Pool:
    def __init__(self, binary, n=None, env=None, memlimit_kb=None):
        self.n = n or NCPU
        self.binary = binary
        self.env = env
        self.memlimit_kb = memlimit_kb

    def map(self, reqs, timeout=20, chunk=None):
        """reqs: list of request dicts.  Returns list of responses in the same order."""
        reqs = list(reqs)
        if not reqs:
            return []
        out = [None] * len(reqs)
        if chunk is None:
            chunk = max(1, min(256, len(reqs) // (self.n * 4) or 1))
        chunks = [(i, min(i + chunk, len(reqs))) for i in range(0, len(reqs), chunk)]
        idx = {"next": 0, "hangs": 0}
        lock = threading.Lock()
        errors = []

        def run():
            w = _Worker(self.binary, self.env, self.memlimit_kb)
            try:
                while True:
                    with lock:
                        c = idx["next"]
                        if c >= len(chunks):
                            return
                        idx["next"] = c + 1
                    lo, hi = chunks[c]
                    # every request is run and judged, but once many have not answered in time the rest of a run
                    # that has failed anyway gets less patience (8 hangs: 5 s, 48 hangs: 2 s; answers take milliseconds)
                    t = timeout if idx["hangs"] < 8 else (min(timeout, 5) if idx["hangs"] < 48 else min(timeout, 2))
                    res = w.run_chunk(reqs[lo:hi], t)
                    nh = sum(1 for r in res if r is not None and "hang" in r)
                    if nh:
                        with lock:
                            idx["hangs"] += nh
                    out[lo:hi] = res
            except Machinery as e:
                errors.append(e)
            except Exception as e:
                errors.append(Machinery("pool thread: %r" % e))
            finally:
                w.close()

        ts = [threading.Thread(target=run) for _ in range(min(self.n, len(chunks)))]
        for t in ts:
            t.start()
        for t in ts:
            t.join()
        if errors:
            raise errors[0]
        # A request that did not answer in time may only have been starved (other checks, TLC, a loaded machine):
        # the first few are asked again on an otherwise idle pool with three times the patience.  A real hang hangs again.
        hung = [i for i, r in enumerate(out) if r is not None and "hang" in r]
        if hung:
            # (16 requests at a time, each with a worker of its own; long timeouts are not multiplied - starvation costs
            # seconds, not minutes.  Rounds go on while they clear anything: two rounds in a row in which every request
            # hangs again mean the code under test hangs, and the rest is not asked again.)
            patience = min(timeout * 3, max(timeout, 45))

            def again(i, cleared):
                w = _Worker(self.binary, self.env, self.memlimit_kb)
                try:
                    r = w.run_chunk([reqs[i]], patience)[0]
                    if r is not None and "hang" not in r:
                        out[i] = r
                        cleared.append(i)
                except Exception:
                    pass
                finally:
                    w.close()
            pending = list(hung)
            barren = 0
            while pending and barren < 2:
                batch, pending = pending[:16], pending[16:]
                cleared = []
                rts = [threading.Thread(target=again, args=(i, cleared)) for i in batch]
                for t in rts:
                    t.start()
                for t in rts:
                    t.join()
                barren = 0 if cleared else barren + 1
        for i, r in enumerate(out):
            if r is None:
                raise Machinery("no response for request %d" % i)
            if "machinery_error" in r:
                raise Machinery("worker: " + str(r["machinery_error"]))
        return out


# --------------------------------------------------------------------------------------
# known findings

def load_findings(prop):
    path = os.path.join(VERIF, "known_findings.jsonl")
    out = []
    if os.path.exists(path):
        for line in open(path):
            line = line.strip()
            if not line or line.startswith("#"):
                continue
            f = json.loads(line)
            if f.get("property") == prop and f.get("status") == "known":
                out.append(f)
    return out


def _sig_match(sig, feat):
    for k, want in sig.items():
        have = feat.get(k)
        if isinstance(want, str) and want.startswith("re:"):
            if have is None or not re.search(want[3:], str(have), re.S):
                return False
        elif isinstance(want, list):
            if have not in want:
                return False
        elif isinstance(want, dict):
            if "min" in want and not (isinstance(have, (int, float)) and have >= want["min"]):
                return False
            if "max" in want and not (isinstance(have, (int, float)) and have <= want["max"]):
                return False
            if "contains" in want and not (isinstance(have, (list, str)) and want["contains"] in have):
                return False
        else:
            if have != want:
                return False
    return True


# --------------------------------------------------------------------------------------
# reporting

UNGROUPED = {"src", "index", "case", "program", "seed", "id", "ops", "ctxs", "depth", "throw_depth", "exit_inside_try", "exit_inside_catch", "has_call", "has_dflt", "a", "template", "ending", "steps", "first", "last", "len", "fn", "k", "procs", "ncores"}


class Report:
    def __init__(self, prop, level="model_checking"):
        self.prop = prop
        self.level = level
        self.t0 = time.time()
        self.findings = load_findings(prop)
        import glob as _glob
        for f in _glob.glob(os.path.join(OUT, "replays", prop + "-*.json")):
            try:
                os.remove(f)
            except OSError:
                pass
        self.known_hits = {}     # finding id -> (count, example)
        self.violations = []     # (features, detail)
        self.cov = {"states": 0, "transitions": 0, "traces_validated_against_impl": 0, "evaluations": 0,
                    "distinct_nontrivial": 0, "samples": [], "rule": "", "exhaustive": False}
        self.assumptions = []
        self._distinct = set()
        self.notes = {}

    # coverage -------------------------------------------------------------------------
    def add_tlc(self, res):
        self.cov["states"] += res.distinct
        self.cov["transitions"] += res.generated
        if os.environ.get("VERIF_DEBUG"):
            sys.stderr.write("TLC %s: %d distinct, %d generated, %.1fs\n" % (getattr(res, "module", "?"), res.distinct, res.generated, res.wall))

    def count(self, n=1):
        self.cov["evaluations"] += n

    def nontrivial(self, key):
        if not isinstance(key, (str, int)):
            key = json.dumps(key, sort_keys=True)
        if isinstance(key, str) and len(key) > 40:
            key = hashlib.sha1(key.encode("utf-8", "surrogatepass")).digest()     # (millions of sources do not fit into memory)
        self._distinct.add(key)

    def sample(self, s, limit=6):
        if len(self.cov["samples"]) < limit:
            self.cov["samples"].append(s)

    # verdicts --------------------------------------------------------------------------
    def fail(self, features, detail):
        """An observation on the real code that the specification does not allow."""
        for f in self.findings:
            if _sig_match(f.get("signature", {}), features):
                c, ex = self.known_hits.get(f["id"], (0, None))
                self.known_hits[f["id"]] = (c + 1, ex or detail)
                return "known"
        self.violations.append((features, detail))
        return "violation"

    def finish(self):
        wall = time.time() - self.t0
        self.cov["distinct_nontrivial"] = len(self._distinct)
        for k, v in self.notes.items():
            self.cov[k] = v
        ev = {"property_id": self.prop, "tier": tier(), "seed": seed(), "level": self.level,
              "coverage": self.cov, "assumptions": self.assumptions, "wall_s": round(wall, 2),
              "violations": len(self.violations)}
        ev["coverage"]["known_findings_hit"] = {k: v[0] for k, v in self.known_hits.items()}
        os.makedirs(os.path.join(OUT, "evidence"), exist_ok=True)
        with open(os.path.join(OUT, "evidence", self.prop + ".json"), "w") as fh:
            json.dump(ev, fh, indent=1, sort_keys=True, default=str)
            fh.write("\n")
        for f in self.findings:
            if f["id"] in self.known_hits:
                c, ex = self.known_hits[f["id"]]
                print("KNOWN-FINDING: property=%s %s: %s (%d cases this run)" % (self.prop, f["id"], f["what"], c))
        if self.violations:
            os.makedirs(os.path.join(OUT, "replays"), exist_ok=True)
            # one VIOLATION line (and one replay file) per group of like failures
            groups = {}
            for feat, detail in self.violations:
                key = json.dumps({k: v for k, v in feat.items() if k not in UNGROUPED}, sort_keys=True, default=str)
                groups.setdefault(key, []).append((feat, detail))
            shown = 0
            for key, items in sorted(groups.items(), key=lambda kv: -len(kv[1])):
                if shown >= 60:
                    break
                feat, detail = items[0]
                h = hashlib.sha1(json.dumps([feat, detail], sort_keys=True, default=str).encode()).hexdigest()[:12]
                path = os.path.join(OUT, "replays", "%s-%s.json" % (self.prop, h))
                with open(path, "w") as fh:
                    json.dump({"property": self.prop, "features": feat, "detail": detail, "like_cases": len(items),
                               "more": [f for f, _ in items[1:6]],
                               "rerun": "./check %s --replay %s" % (self.prop, path)}, fh, indent=1, default=str)
                print("VIOLATION property=%s replay=%s" % (self.prop, path))
                print("  %d like cases; first: %s" % (len(items), json.dumps(feat, default=str)[:700]))
                shown += 1
            if len(groups) > shown:
                print("  ... and %d more groups (not written)" % (len(groups) - shown))
            print("%s: %d violations in %d groups, %d evaluations, %.1fs" % (
                self.prop, len(self.violations), len(groups), self.cov["evaluations"], wall))
            return 1
        print("%s: held on everything explored: %d evaluations, %d distinct non-trivial, %d TLC states, "
              "%d traces validated, %.1fs" % (self.prop, self.cov["evaluations"], self.cov["distinct_nontrivial"],
                                              self.cov["states"], self.cov["traces_validated_against_impl"], wall))
        return 0


def cps(s):
    return [ord(c) for c in s]


def text(cps_):
    return "".join(chr(c) for c in cps_)
