"""C16 - host invocations on one VM are correct, repeatable and leave no residue."""
import itertools
import random

from . import common as C
from . import cores as K
from . import progs as P
from . import sem
from .progs import *  # noqa: F401,F403


def library():
    fns = {
        "add": Fn(["a", "b"], Block([], Bin("+", V("a"), V("b"))), ret="int"),
        "sub3": Fn(["a", "b", "c"], Block([], Bin("-", Bin("-", V("a"), V("b")), V("c"))), ret="int"),
        "inc": Fn([], Block([Expr(Asg(V("counter"), I(1), "+="))], V("counter")), ret="int"),
        "ret_from_loop": Fn(["n"], Block([For("i", Range(I(0), I(10)), Block([
            Expr(If(Bin("==", V("i"), V("n")), Block([Ret(Bin("*", V("i"), I(2)))])))]))], I(-1)), ret="int"),
        "ret_from_try": Fn(["n"], Block([Expr(Try(Block([Expr(If(Bin(">", V("n"), I(0)), Block([Ret(V("n"))]))),
                                                         Expr(Call("throw", S("neg")))]), "e", Block([Ret(I(-1))])))], I(-2)), ret="int"),
        "ret_from_nested": Fn(["n"], Block([While(B(True), Block([Expr(Try(Block([For("i", Range(I(0), I(5)), Block([
            Expr(If(Bin("==", V("i"), V("n")), Block([Ret(Bin("+", V("i"), I(100)))])))])), Expr(Call("throw", S("none")))]),
            "e", Block([Break()])))]))], I(-1)), ret="int"),
        "thrower": Fn(["n"], Block([Expr(If(Bin(">", V("n"), I(0)), Block([Expr(Call("throw", S("thrown")))])))])),
        "catcher": Fn(["n"], Block([], Try(Block([Expr(Call("thrower", V("n")))], S("no")), "e", Block([], Mem(V("e"), "message")))), ret="str"),
        "div": Fn(["a", "b"], Block([], Bin("/", V("a"), V("b"))), ret="int"),
        "deep": Fn(["n"], Block([], If(Bin("==", V("n"), I(0)), Block([], I(0)), Block([], Bin("+", I(1), Call("deep", Bin("-", V("n"), I(1))))))), ret="int"),
        "mk_list": Fn(["n"], Block([Let("l", List(V("n"))), Expr(MCall(V("l"), "push", Bin("+", V("n"), I(1))))], V("l")), ret="[int]"),
        "id_str": Fn(["s"], Block([], V("s")), ret="str", pts=["str"]),
        "is_pos": Fn(["n"], Block([], Bin(">", V("n"), I(0))), ret="bool"),
        "nullfn": Fn([], Block([])),
        "glist_push": Fn(["n"], Block([Expr(MCall(V("glist"), "push", V("n")))], MCall(V("glist"), "len")), ret="int"),
        # loops over values that outlive the call (globals, literals of the program text), left early in every way: the
        # next call - or the next loop of the same call - starts at the beginning again
        "find_char": Fn(["c"], Block([Let("i", I(0)), For("ch", V("gtext"), Block([
            Expr(If(Bin("==", V("ch"), V("c")), Block([Ret(V("i"))]))), Expr(Asg(V("i"), I(1), "+="))]))], I(-1)), ret="int", pts=["str"]),
        "first_multiple": Fn(["n"], Block([For("i", V("grange"), Block([
            Expr(If(Bin("&&", Bin(">", V("i"), I(0)), Bin("==", Bin("%", V("i"), V("n")), I(0))), Block([Ret(V("i"))])))]))], I(-1)), ret="int"),
        "hex_value": Fn(["c"], Block([Let("i", I(0)), For("ch", S("0123456789abcdef"), Block([
            Expr(If(Bin("==", V("ch"), V("c")), Block([Ret(V("i"))]))), Expr(Asg(V("i"), I(1), "+="))]))], I(-1)), ret="int", pts=["str"]),
        "count_until": Fn(["c"], Block([Let("n", I(0)), For("ch", V("gtext"), Block([
            Expr(If(Bin("==", V("ch"), V("c")), Block([Break()]))), Expr(Asg(V("n"), I(1), "+="))])),
            For("ch", V("gtext"), Block([Expr(Asg(V("n"), I(10), "+="))]))], V("n")), ret="int", pts=["str"]),
        "find_throw": Fn(["c"], Block([Let("n", I(0))], Try(Block([For("ch", V("gtext"), Block([
            Expr(If(Bin("==", V("ch"), V("c")), Block([Expr(Call("throw", S("found")))]))), Expr(Asg(V("n"), I(1), "+="))]))], I(-1)),
            "e", Block([], V("n")))), ret="int", pts=["str"]),
        "find_in_glist": Fn(["n"], Block([Let("i", I(0)), For("x", V("glist"), Block([
            Expr(If(Bin("==", V("x"), V("n")), Block([Ret(V("i"))]))), Expr(Asg(V("i"), I(1), "+="))]))], I(-1)), ret="int"),
        # an exception raised and caught inside one function, in the middle of an expression, while the caller has operands
        # pending: nothing of it may stay behind for the rest of this call or for the next one
        "value_of": Fn(["s"], Block([], Try(Block([], Bin("*", I(1), Bin("+", I(0), MCall(V("s"), "parse_int")))), "e", Block([], I(-1)))), ret="int", pts=["str"]),
        "acc_parse": Fn(["s"], Block([Expr(Asg(V("counter"), Bin("+", Bin("+", V("counter"), I(100)), Call("value_of", V("s")))))], V("counter")), ret="int", pts=["str"]),
        # threads without host-visible effects
        "idle": Fn(["n"], Block([Let("i", I(0)), While(Bin("<", V("i"), V("n")), Block([Expr(Asg(V("i"), I(1), "+="))]))])),
        "spin": Fn([], Block([Loop(Block([]))])),
        "spawner_ok": Fn(["n"], Block([Expr(Spawn("idle", I(50))), Expr(Spawn("idle", I(500))), Expr(Spawn("idle", V("n")))],
                                       Bin("+", V("n"), I(1))), ret="int"),
        "spawner_boom": Fn(["n"], Block([Expr(Spawn("spin")), Expr(Spawn("spin")), Expr(Spawn("spin")), Expr(Spawn("idle", V("n"))),
                                         Expr(Call("throw", S("boom")))])),
        # threads which are joined for their results inside one host call: nothing of them (cores, joins) may stay behind
        "sq": Fn(["n"], Block([], Bin("*", V("n"), V("n"))), ret="int"),
        "par_sum": Fn(["n"], Block([Let("a", Spawn("sq", V("n"))), Let("b", Spawn("sq", Bin("+", V("n"), I(1))))],
                                   Bin("+", MCall(V("b"), "join"), Bin("+", MCall(V("a"), "join"), MCall(V("a"), "join")))), ret="int"),
        "par_in_loop": Fn(["n"], Block([Let("t", I(0)), For("i", Range(I(0), V("n")), Block([Let("h", Spawn("sq", V("i"))), Expr(Asg(V("t"), MCall(V("h"), "join"), "+="))]))],
                                       V("t")), ret="int"),
        "main": Fn([], Block([])),
    }
    globs = [("counter", I(0)), ("glist", List(I(0))), ("gtext", S("abcdef")), ("grange", Range(I(0), I(9)))]
    return fns, globs


CALLS = [("add", [1, 2]), ("add", [-5, 5]), ("sub3", [10, 3, 2]), ("sub3", [1, 2, 3]), ("inc", []), ("ret_from_loop", [3]),
         ("ret_from_loop", [20]), ("ret_from_try", [4]), ("ret_from_try", [-4]), ("ret_from_nested", [2]),
         ("ret_from_nested", [9]), ("thrower", [0]), ("thrower", [1]), ("catcher", [0]), ("catcher", [1]), ("div", [7, 2]),
         ("div", [7, 0]), ("deep", [5]), ("mk_list", [3]), ("id_str", ["x y"]), ("is_pos", [1]), ("nullfn", []),
         ("glist_push", [7]), ("spawner_ok", [5]), ("spawner_boom", [3]),
         ("find_char", ["c"]), ("first_multiple", [3]), ("hex_value", ["a"]), ("count_until", ["d"]), ("find_throw", ["b"]), ("find_in_glist", [0]),
         ("acc_parse", ["5"]), ("acc_parse", ["n/a"]), ("value_of", ["oops"]), ("par_sum", [3]), ("par_in_loop", [4])]


def lit(v):
    return S(v) if isinstance(v, str) else I(v)


def jv(v):
    return {"k": "str", "s": v} if isinstance(v, str) else {"k": "int", "v": str(v)}


def show_jv(j):
    k = j["k"]
    if k == "int":
        return j["v"]
    if k == "str":
        return j["s"]
    if k == "bool":
        return "true" if j["v"] else "false"
    if k == "null":
        return "null"
    if k == "list":
        return "[" + ", ".join(show_jv(e) for e in j.get("es", [])) + "]"
    return "<" + k + ">"


def history_program(pid, hist):
    """main performs the calls of the history one after the other and prints each result"""
    fns, globs = library()
    body = []
    for fn, args in hist:
        call = Call(fn, *[lit(a) for a in args])
        if fns[fn]["ret"] == "null":
            body += [Expr(call), Print(S("r"), S("null"))]
        else:
            body += [Print(S("r"), call)]
    fns["main"] = Fn([], Block(body))
    return Program(pid, fns, globs, feats={"family": "history", "hist": " ; ".join("%s%s" % (f, tuple(a)) for f, a in hist)})


def run(args):
    rep = C.Report("C16")
    thorough = C.tier() == "thorough"
    rnd = random.Random(C.seed())
    rep.cov["rule"] = ("all histories of <= 2 invocations and %s seed-chosen histories of 3 invocations over %d (function, arguments) "
                       "choices on ONE VM via SpawnSync; HmsSem (TLC) runs the same calls in sequence with persistent "
                       "globals and gives each call's result / exception; after each real call: result and declared type, "
                       "empty core list, free lock (a later call answers), and the event trace validated against "
                       "TraceCores; non-trivial = distinct histories" % ("6000" if thorough else "500", len(CALLS)))
    K.model_check(rep, False)
    hists = [[c] for c in CALLS] + [list(p) for p in itertools.product(CALLS, repeat=2)]
    triples = [list(p) for p in itertools.product(CALLS, repeat=3)]
    # (34 choices: 39304 triples; the specification runs every history, a seed-chosen part keeps that within minutes)
    triples = rnd.sample(triples, 6000 if thorough else 500)
    hists += triples
    progs = [history_program("h%d" % i, h) for i, h in enumerate(hists)]
    cases = sem.run_spec(progs, rep)
    lib = history_program("lib", [])
    src, _ = P.render(lib)
    reqs = []
    for i, h in enumerate(hists):
        reqs.append({"op": "run", "id": i, "a": {"modules": {"main": src}, "entry": "main", "backend": "vm",
                                                 "trace": i % 7 == 0, "timeout_ms": 8000,
                                                 "invoke": [{"fn": f, "args": [jv(a) for a in args]} for f, args in h]}})
    pool = C.Pool(C.build_worker())
    res = pool.map(reqs, timeout=30)
    traces = []
    towners = []
    for h, p, r in zip(hists, progs, res):
        rep.count()
        rep.nontrivial(p["feats"]["hist"])
        case = cases[p["id"]]
        feat = {"family": "history", "len": len(h), "first": h[0][0], "last": h[-1][0]}
        if "crash" in r or "hang" in r:
            rep.fail(dict(feat, kind="hostcrash" if "crash" in r else "hang-after-calls",
                          panic=sem.panic_class((r.get("crash") or {}).get("stderr", ""))),
                     {"history": p["feats"]["hist"], "real": r})
            continue
        rr = r["r"]
        if not rr["accepted"]:
            raise C.Machinery("library rejected: %s" % rr["diags"][:3])
        # expected per call from the specification's output: one println per completed call
        exp_lines = (P.plain_text(case["out"]) or "").split("\n")[:-1]
        failed = False
        for k, ((fn, args), call) in enumerate(zip(h, rr["calls"])):
            oc = call.get("outcome") or {}
            if "refused" in call:
                rep.fail(dict(feat, kind="call-refused", fn=fn), {"history": p["feats"]["hist"], "call": call})
                break
            if failed:
                # after a failed call the VM must answer with a failure (not block, not pretend success)
                if oc.get("kind") == "done":
                    rep.fail(dict(feat, kind="success-after-failure", fn=fn), {"history": p["feats"]["hist"], "call": call, "index": k})
                continue
            if k < len(exp_lines):
                want = exp_lines[k][2:]          # strip "r "
                if oc.get("kind") != "done":
                    rep.fail(dict(feat, kind="unexpected-failure", fn=fn), {"history": p["feats"]["hist"], "call": call, "want": want, "index": k})
                    break
                got = show_jv(call["ret"]) if "ret" in call else "null"
                if got != want:
                    rep.fail(dict(feat, kind="wrong-result", fn=fn), {"history": p["feats"]["hist"], "index": k, "want": want, "got": got})
                    break
            else:
                # this is the call at which the specification's run ends abnormally
                failed = True
                st = case["status"]
                if st == "uncaught":
                    msg = "".join(x for x in P.show(case["info"]["msg"]) if isinstance(x, str))
                    if oc.get("kind") != "uncaught" or sem.first_lines(oc.get("msg", "")) != msg:
                        rep.fail(dict(feat, kind="wrong-exception", fn=fn), {"history": p["feats"]["hist"], "call": call, "want": msg})
                elif st == "fatal":
                    want = sem.FATAL_NAMES.get(case["info"]["kind"], case["info"]["kind"])
                    if oc.get("kind") != "fatal" or oc.get("fatal") != want:
                        rep.fail(dict(feat, kind="wrong-fatal", fn=fn), {"history": p["feats"]["hist"], "call": call, "want": want})
                else:
                    raise C.Machinery("specification ended with %s but printed fewer lines than calls" % st)
            if call.get("cores", 0) != 0:
                rep.fail(dict(feat, kind="cores-left", fn=fn), {"history": p["feats"]["hist"], "index": k, "cores": call["cores"]})
        if rr.get("goroutines", 0) > 0:
            rep.fail(dict(feat, kind="goroutine-leak"), {"history": p["feats"]["hist"], "goroutines": rr["goroutines"]})
        if rr.get("trace"):
            traces.append(rr["trace"])
            towners.append(p["feats"]["hist"])
    K.validate_all(traces, towners, rep, {"family": "history"})
    for h, p in list(zip(hists, progs))[40:43]:
        rep.sample({"history": p["feats"]["hist"], "expected_output": P.plain_text(cases[p["id"]]["out"]),
                    "expected_status": cases[p["id"]]["status"]})
    rep.cov["exhaustive"] = thorough
    return rep.finish()
