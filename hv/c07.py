"""C07 - parse trees follow the documented grammar and ignore layout.

M: TLC runs the shunting-yard machine of HmsExpr on every item sequence of the families
   (all operator pairs, operator triples, prefix/postfix decorations) and checks
   YieldPreserved / NoLooserChild / StacksConsistent in every state.
A: each terminal state (item sequence, expected tree) is rendered to source text in several
   layouts and parsed by the real parser; the real tree (spans dropped, parentheses around
   single nodes removed) must be the expected tree in every layout.  Compositions (a
   parenthesised case substituted for an operand, list / call arguments with a trailing comma)
   are built from the TLC cases by the harness, expected trees composed accordingly.
"""
import json
import random

from . import common as C

CLASS_REPS = ["=", "||", "&&", "|", "^", "&", "==", "<", "<<", "+", "*", "as", "**"]
SECOND = ["-", "/", "%", "!=", ">=", ">>", "+="]
ALL_BIN = ["||", "&&", "|", "^", "&", "==", "!=", "<", ">", "<=", ">=", "<<", ">>", "+", "-", "*", "/", "%", "**",
           "=", "+=", "-=", "*=", "/=", "%=", "**=", "<<=", ">>=", "|=", "&=", "^=", "as"]


def cfg(family, triple_ops=("+",)):
    return """SPECIFICATION Spec
CONSTANTS
 Family = "%s"
 TripleOps = {%s}
INVARIANTS YieldPreserved NoLooserChild StacksConsistent Export
CHECK_DEADLOCK FALSE
""" % (family, ", ".join('"%s"' % o for o in triple_ops))


# ---------------------------------------------------------------------------------------
# expected trees (from the specification) and real trees (from the parser dump) in one form

def spec_tree(t):
    k = t[0]
    if k == "x":
        return ("x", "x%d" % t[1])
    if k == "pre":
        return ("pre", t[1], spec_tree(t[2]))
    if k in ("bin", "asg"):
        return (k, t[1], spec_tree(t[2]), spec_tree(t[3]))
    if k == "cast":
        return ("cast", spec_tree(t[1]), "x%d" % t[2])
    if k == "call":
        return ("call", spec_tree(t[1]), ())
    if k == "idx":
        return ("idx", spec_tree(t[1]), ("x", "x%d" % t[2]))
    if k == "mem":
        return ("mem", spec_tree(t[1]), "x%d" % t[2])
    raise C.Machinery("unknown spec tree node %r" % (t,))


def real_tree(d):
    if d is None:
        return ("nil",)
    k = d.get("_")
    if k == "ExpressionStatement":
        return real_tree(d["Expression"])
    if k == "GroupedExpression":
        return real_tree(d["Inner"])
    if k == "IdentExpression":
        return ("x", ("$" if d.get("IsSingleton") else "") + d["Ident"])
    if k == "IntLiteralExpression":
        return ("int", str(d["Value"]))
    if k == "FloatLiteralExpression":
        return ("float", str(d["Value"]))
    if k == "StringLiteralExpression":
        return ("str", d["Value"])
    if k == "BoolLiteralExpression":
        return ("bool", d["Value"])
    if k == "PrefixExpression":
        return ("pre", d["Operator"], real_tree(d["Base"]))
    if k == "InfixExpression":
        return ("bin", d["Operator"], real_tree(d["Lhs"]), real_tree(d["Rhs"]))
    if k == "AssignExpression":
        return ("asg", d["AssignOperator"], real_tree(d["Lhs"]), real_tree(d["Rhs"]))
    if k == "CastExpression":
        ty = d["AsType"]
        return ("cast", real_tree(d["Base"]), ty.get("Ident") if isinstance(ty, dict) else str(ty))
    if k == "CallExpression":
        return ("call", real_tree(d["Base"]), tuple(real_tree(a) for a in d["Arguments"]["List"]))
    if k == "IndexExpression":
        return ("idx", real_tree(d["Base"]), real_tree(d["Index"]))
    if k == "MemberExpression":
        if d.get("Operator") != ".":
            return ("mem" + str(d.get("Operator")), real_tree(d["Base"]), d["Member"])
        return ("mem", real_tree(d["Base"]), d["Member"])
    if k == "ListLiteralExpression":
        return ("list", tuple(real_tree(v) for v in d["Values"]))
    return ("other", k, json.dumps(d, sort_keys=True)[:200])


# ---------------------------------------------------------------------------------------
# rendering

def item_tokens(items, operand=None):
    """Token list of an item sequence; operand(k, is_type) renders an operand (default: xk)."""
    toks = []
    after_as = False
    for it in items:
        t = it["t"]
        if t == "opnd":
            if operand and not after_as:
                toks.extend(operand(it["x"]))
            else:
                toks.append("x%d" % it["x"])
            after_as = False
        elif t == "pre":
            toks.append(it["o"])
        elif t == "bin":
            toks.append(it["o"])
            after_as = it["o"] == "as"
        elif t == "call":
            toks += ["(", ")"]
        elif t == "idx":
            toks += ["[", "x%d" % it["x"], "]"]
        elif t == "mem":
            toks += [".", "x%d" % it["x"]]
    return toks


def layout(toks, how, rnd=None):
    if how == "space":
        return " ".join(toks)
    if how == "newline":
        return "\n".join(toks)
    if how == "comments":
        seps = [" /*c*/ ", " //c\n", " /* a\n b */", "\t", " \r\n ", " /***/ ", " /* c **/ ", " /**/ ", " /* a * b / c */ ", " //* c\n", " /*/*/ ",
                " /** doc **/ ", " /* 2**3 */ "]
        out = []
        for i, t in enumerate(toks):
            out.append(t)
            out.append(seps[i % len(seps)])
        return "".join(out)
    if how == "tight":
        out = ""
        for t in toks:
            if out and (out[-1].isalnum() or out[-1] == "_") and (t[0].isalnum() or t[0] == "_"):
                out += " "
            elif out and (out[-1] + t[0]) in ("--", "->", "=>", "~>", "||", "&&", "==", "!=", "<=", ">=", "<<", ">>",
                                              "**", "+=", "-=", "*=", "/=", "%=", "|=", "&=", "^=", "//", "/*",
                                              "..", "=-", "<-") and (out[-1] + t[0]) != "=-" and (out[-1] + t[0]) != "<-":
                out += " "
            elif out and out[-1] in "<>*" and t[0] in "<>*=":
                out += " "
            out += t
        return out
    raise C.Machinery("layout " + how)


def wrap(expr):
    return "fn main() {\n" + expr + ";\n}\n"


LAYOUTS = ["space", "newline", "comments", "tight"]


def run(args):
    rep = C.Report("C07")
    rep.cov["rule"] = ("item sequences enumerated by TLC from HmsExpr (all pairs of the 32 binary/assignment/cast "
                       "operators, operator triples, prefix/postfix decorations of operands), each rendered in the "
                       "layouts %s plus parenthesised atoms, trailing commas and seeded compositions; non-trivial = "
                       "distinct (sequence, layout) with at least one operator" % LAYOUTS)
    rep.assumptions = ["`..` (range) is outside the property's operator table and is not generated",
                       "an assignment whose left side is not a place may be rejected by the parser or parsed to the "
                       "table's tree (the grammar allows any expression there; the parser restricts it)"]
    worker = C.build_worker()
    pool = C.Pool(worker)
    thorough = C.tier() == "thorough"
    rnd = random.Random(C.seed())

    cases = []   # (family, items, expected tree, badlhs)
    fams = [("pairs", ()), ("single", ()), ("deco", ())]
    if thorough:
        fams.append(("triples", ALL_BIN))
    else:
        extra = rnd.sample(SECOND, 3)
        fams.append(("triples", CLASS_REPS + extra))
    for fam, tops in fams:
        r = C.run_tlc("HmsExpr", cfg(fam, tops or ("+",)), timeout=1800, heap="16g")
        C.tlc_must_pass(r, "HmsExpr " + fam)
        rep.add_tlc(r)
        for c in r.cases:
            cases.append((fam, c["input"], spec_tree(c["tree"]), c["badlhs"]))
    if not cases:
        raise C.Machinery("TLC exported no cases")

    reqs = []   # (meta, src, expected, badlhs)

    def add(meta, src, expected, badlhs):
        reqs.append((meta, src, expected, badlhs))

    by_fam = {}
    for fam, items, exp, bad in cases:
        by_fam.setdefault(fam, []).append((items, exp, bad))
        toks = item_tokens(items)
        ops = [it["o"] for it in items if it["t"] in ("bin", "pre")]
        for lay in LAYOUTS:
            add({"family": fam, "layout": lay, "ops": ops}, wrap(layout(toks, lay)), exp, bad)
        # parentheses around operands that are already single nodes
        ptoks = item_tokens(items, operand=lambda k: ["(", "x%d" % k, ")"])
        add({"family": fam, "layout": "paren-atoms", "ops": ops}, wrap(layout(ptoks, "space")), exp, bad)
        # literal operands instead of identifiers (a literal is a single node like an identifier);
        # an assignment to a literal is not a place any more
        if fam in ("single", "deco", "pairs"):
            for style, (tok, leaf) in ATOMS.items():
                if fam == "deco" and not thorough and style != ("int", "float", "str", "bool")[C.seed() % 4]:
                    continue
                ltoks = item_tokens(items, operand=lambda k: [tok(k)])
                lexp = subst_leaves(exp, lambda name: leaf(int(name[1:])))
                lay = "tight" if style == "int" else "space"
                add({"family": fam, "layout": "atoms-" + style + "-" + lay, "ops": ops}, wrap(layout(ltoks, lay)), lexp,
                    bad or _has_bad_lhs(lexp))

    # compositions: sub-expressions in parentheses, lists and call arguments with trailing commas
    pool_cases = [c for c in cases if c[0] in ("pairs", "triples") and not c[3]]
    ncomp = 6000 if thorough else 1500
    for n in range(ncomp):
        fam, items, exp, bad = rnd.choice(pool_cases)
        subs = {}

        def operand(k):
            if rnd.random() < 0.5:
                f2, it2, e2, b2 = rnd.choice(pool_cases)
                subs["x%d" % k] = e2
                return ["("] + item_tokens(it2) + [")"]
            return ["x%d" % k]

        toks = item_tokens(items, operand=operand)

        def subst(t):
            if t[0] == "x":
                return subs.get(t[1], t)
            if t[0] == "pre":
                return ("pre", t[1], subst(t[2]))
            if t[0] in ("bin", "asg"):
                return (t[0], t[1], subst(t[2]), subst(t[3]))
            if t[0] == "cast":
                return ("cast", subst(t[1]), t[2])
            return t

        e = subst(exp)
        # an assignment whose (substituted) left side is not a place any more
        bad2 = any(True for _ in [0] if _has_bad_lhs(e))
        lay = rnd.choice(LAYOUTS)
        add({"family": "compose", "layout": lay, "ops": []}, wrap(layout(toks, lay)), e, bad2)
        # the same expression as list elements / call arguments, with and without trailing comma
        if not bad2:
            body = layout(toks, "space")
            for trailing in ("", ","):
                add({"family": "list", "layout": "trailing" + trailing, "ops": []},
                    wrap("[ %s , %s %s ]" % (body, body, trailing)), ("list", (e, e)), False)
                add({"family": "callargs", "layout": "trailing" + trailing, "ops": []},
                    wrap("f( %s , %s %s )" % (body, body, trailing)), ("call", ("x", "f"), (e, e)), False)

    res = pool.map([{"op": "parse", "id": i, "a": {"src": s, "what": "expr"}} for i, (m, s, e, b) in enumerate(reqs)],
                   timeout=30)
    for (meta, src, exp, bad), r in zip(reqs, res):
        rep.count()
        if meta["ops"] or meta["family"] in ("compose", "list", "callargs"):
            rep.nontrivial(src)
        feat = dict(meta, src=src)
        if "crash" in r or "hang" in r:
            rep.fail(dict(feat, kind="hostcrash" if "crash" in r else "hang"), {"src": src, "real": r})
            continue
        rr = r["r"]
        errored = "critical" in rr or rr["soft"]
        if errored:
            if bad:
                continue
            rep.fail(dict(feat, kind="unexpected-syntax-error"),
                     {"src": src, "expected": exp, "errors": rr.get("critical") or rr["soft"]})
            continue
        got = real_tree(rr["tree"])
        if got != exp:
            rep.fail(dict(feat, kind="tree-mismatch"), {"src": src, "expected": exp, "got": got})
    for m, s, e, b in rnd.sample(reqs, 5):
        rep.sample({"family": m["family"], "layout": m["layout"], "src": s, "expected_tree": e, "may_reject_lhs": b})
    rep.cov["exhaustive"] = True
    rep.notes["exhaustive_scope"] = ("all operator pairs; triples over %s; decorations as in HmsExpr.InitInput" %
                                     ("all 32 operators" if thorough else "13 level representatives + 3 seeded"))
    return rep.finish()


ATOMS = {
    "int": (lambda k: str(k + 1), lambda k: ("int", str(k + 1))),
    "float": (lambda k: "%d.5" % k, lambda k: ("float", "%d.5" % k)),
    "str": (lambda k: '"s%d"' % k, lambda k: ("str", "s%d" % k)),
    "bool": (lambda k: "true" if k % 2 else "false", lambda k: ("bool", bool(k % 2))),
}


def subst_leaves(t, f):
    """replace operand leaves ("x", name) of an expected tree (not index / member / type names)"""
    if t[0] == "x":
        return f(t[1])
    if t[0] == "pre":
        return ("pre", t[1], subst_leaves(t[2], f))
    if t[0] in ("bin", "asg"):
        return (t[0], t[1], subst_leaves(t[2], f), subst_leaves(t[3], f))
    if t[0] == "cast":
        return ("cast", subst_leaves(t[1], f), t[2])
    if t[0] == "call":
        return ("call", subst_leaves(t[1], f), t[2])
    if t[0] == "idx":
        return ("idx", subst_leaves(t[1], f), t[2])
    if t[0] == "mem":
        return ("mem", subst_leaves(t[1], f), t[2])
    return t


def _has_bad_lhs(t):
    if not isinstance(t, tuple) or not t:
        return False
    if t[0] == "asg":
        if t[2][0] not in ("x", "idx", "mem", "cast"):
            return True
        return _has_bad_lhs(t[2]) or _has_bad_lhs(t[3])
    return any(_has_bad_lhs(c) for c in t[1:] if isinstance(c, tuple))
