"""C01 - compiled execution is faithful to the source program (HmsSem is the source semantics)."""
import random

from . import common as C
from . import families as Fam
from . import sem


def programs(thorough, seed, rnd):
    progs = Fam.operator_programs() + Fam.template_programs() + Fam.capture_programs() + Fam.lambda_programs() + Fam.singleton_programs() + \
        Fam.closure_programs() + Fam.order_programs(seed)
    progs += Fam.nestings(2, rnd, sample=250 if not thorough else 900)
    progs += Fam.random_programs(2500 if thorough else 400, seed)
    return progs


def run(args, prop="C01", backends=("vm",)):
    rep = C.Report(prop)
    thorough = C.tier() == "thorough"
    rnd = random.Random(C.seed())
    rep.cov["rule"] = ("program families written as spec ASTs: every (operator, operand type) with boundary-ish small "
                       "operands, scoping/sharing/snapshot/branch-value/call templates, control nestings, seeded random "
                       "well-typed programs, threads joined for their results (pure functions); HmsSem (TLC) computes the expected output and outcome "
                       "of each; 64-bit integer boundaries incl. powers from HmsInt64; comparisons and arithmetic over nan / infinities / signed "
                       "zeros from HmsFloat; non-trivial = distinct program texts executed")
    rep.assumptions = ["integers stay below 2^30 in HmsSem (64-bit boundary arithmetic is HmsInt64's family)",
                       "floats are dyadic rationals in HmsSem; nan, infinities and signed zeros are HmsFloat's family; other float results are not decided",
                       "a function literal uses the variables of its surroundings by reference (lexical scoping)"]
    progs = programs(thorough, C.seed(), rnd)
    pool = C.Pool(C.build_worker())
    results, cases, rendered = sem.run_programs(progs, rep, backends=backends, pool=pool,
                                                vm_trace=lambda p: p["feats"]["family"] != "random" or hash(p["id"]) % 4 == 0 or thorough)
    from . import int64
    int64.run_family(rep, pool, backends=backends)
    ok = [p for p in progs if p["id"] in rendered]
    for p in rnd.sample(ok, 4):
        rep.sample({"family": p["feats"]["family"], "program": rendered[p["id"]][0][:1200],
                    "expected_status": cases[p["id"]]["status"],
                    "expected_output": (sem.P.plain_text(cases[p["id"]]["out"]) or "<pattern>")[:400]})
    # float values at the edges (nan, infinities, signed zeros): HmsFloat decides every comparison and arithmetic result
    from . import floatspec
    floatspec.run(rep, pool, backends=("vm",))
    return rep.finish()
