import importlib
import sys
import traceback

from . import common as C


def main():
    if len(sys.argv) < 2:
        print("usage: check <property> [quick|thorough] [--replay path]")
        return 2
    prop = sys.argv[1].upper()
    import os
    args = sys.argv[2:]
    if args and args[0] in ("quick", "thorough"):
        os.environ["VERIF_TIER"] = args[0]
        args = args[1:]
    try:
        mod = importlib.import_module("hv." + prop.lower())
    except ImportError as e:
        print("no check for", prop, e)
        return 2
    try:
        return mod.run(args)
    except C.Machinery as e:
        print("MACHINERY-ERROR (inconclusive, not a violation): %s" % e)
        return 2
    except Exception:
        traceback.print_exc()
        print("MACHINERY-ERROR (inconclusive, not a violation): unexpected exception")
        return 2


if __name__ == "__main__":
    sys.exit(main())
