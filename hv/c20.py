"""C20 - the semantic fuzzer's rewrites preserve behaviour.

For every program of the stated class (operands of reordered / duplicated sub-expressions are side-effect free, integer
multiplications have small non-negative literal operands, literals are small) the real Transformer is run with several seeds
and passes; every variant it prints must be accepted by the analyzer and behave as HmsSem prescribes for the ORIGINAL program.
"""
import random

from . import common as C
from . import families as Fam
from . import progs as P
from . import sem
from . import tyspec as T

SWAPPED = {"+", "*", "<", ">", "<=", ">="}


def pure(e):
    k = e.get("k")
    if k in ("int", "flt", "bool", "str", "null", "none", "var", "fnlit", "nil"):
        return True
    if k == "un":
        return pure(e["e"])
    if k == "bin":
        return pure(e["l"]) and pure(e["r"])
    if k == "idx":
        return pure(e["e"]) and pure(e["i"])
    if k in ("mem", "cast"):
        return pure(e["e"])
    if k == "list":
        return all(pure(x) for x in e["es"])
    if k == "obj":
        return all(pure(f["e"]) for f in e["fs"])
    if k == "range":
        return pure(e["l"]) and pure(e["r"])
    return False


def small_lit(e):
    return e.get("k") == "int" and 0 <= e["v"] <= 12


def is_floaty(e):
    return e.get("k") == "flt" or (e.get("k") == "cast" and e.get("ty") == "float")


def in_class(prog, passes):
    """the class the property states (decided syntactically, conservatively)"""
    for n in T.nodes([f["body"] for f in prog["fns"].values()] + [g["e"] for g in prog["globals"] if g["e"].get("k") != "default"]):
        k = n.get("k")
        if k == "int" and abs(n["v"]) >= 2 ** 20:
            return False
        if k == "flt" and (abs(n["n"]) >= 2 ** 20 or n["s"] > 3):
            return False
        if k == "bin" and n["op"] in SWAPPED:
            if not (pure(n["l"]) and pure(n["r"])):
                return False
        if k == "bin" and n["op"] == "*" and not (is_floaty(n["l"]) or is_floaty(n["r"])):
            # a pass may swap the operands and a later pass unrolls: with several passes both sides must be small literals
            if not small_lit(n["r"]):
                return False
            if passes > 1 and not small_lit(n["l"]):
                return False
    return True


def class_programs(seed, n):
    """programs written for the class: arithmetic over small literals and variables, comparisons, loops, calls at statement level"""
    rnd = random.Random(seed)
    progs = []
    for i in range(n):
        a, b, c = rnd.randrange(0, 12), rnd.randrange(0, 12), rnd.randrange(1, 9)
        ops = [rnd.choice(["+", "-"]) for _ in range(3)]
        cmpop = rnd.choice(["<", ">", "<=", ">=", "==", "!="])
        fns = {
            "calc": Fn(["x", "y"], Block([Let("s", Bin(ops[0], V("x"), Bin(ops[1], V("y"), I(c)))),
                                          Let("m", Bin("*", I(a), I(rnd.randrange(0, 6)))),
                                          Expr(If(Bin(cmpop, V("s"), V("m")), Block([Ret(Bin(ops[2], V("s"), V("m")))])))],
                                         Bin("+", V("m"), Bin("*", I(b), I(2)))), "int", ["int", "int"]),
            "walk": Fn(["n"], Block([Let("acc", I(0)), Let("i", I(0)),
                                     While(Bin("<", V("i"), V("n")), Block([Expr(Asg(V("i"), I(1), "+=")),
                                                                            Expr(If(Bin("==", Bin("%", V("i"), I(3)), I(0)), Block([Continue()]))),
                                                                            Expr(If(Bin(">", V("i"), I(7)), Block([Break()]))),
                                                                            Expr(Asg(V("acc"), V("i"), "+="))])),
                                     Loop(Block([Expr(Asg(V("acc"), I(1), "-=")), Expr(If(Bin("<", V("acc"), I(a)), Block([Break()])))])),
                                     For("k", Range(I(0), I(3)), Block([Expr(Asg(V("acc"), Bin("+", V("k"), Bin("*", I(2), I(2))), "+="))]))], V("acc")), "int", ["int"]),
            # break / continue that are only reachable through the value position of a nested block (else-if chains,
            # an if / match / try as the last expression of a block): the loop-control guard has to look there, too
            "scan": Fn(["n"], Block([Let("s", I(0)), Let("i", I(0)),
                                     While(Bin("<", V("i"), I(10)), Block([
                                         Expr(Asg(V("i"), I(1), "+=")),
                                         Expr(If(Bin("==", V("i"), I(2)), Block([Expr(Asg(V("s"), I(100), "+="))]), Block([], If(Bin(">", V("i"), Bin("+", V("n"), I(4))), Block([Break()]))))),
                                         Expr(If(Bin(">", V("i"), I(0)), Block([], If(Bin("==", Bin("%", V("i"), I(3)), I(0)), Block([Continue()]))))),
                                         Expr(Block([], If(Bin("==", V("i"), I(9)), Block([Break()])))),
                                         Expr(If(B(True), Block([], Match(V("i"), [([I(5)], Block([Continue()]))], Block([]))))),
                                         Expr(Block([], Try(Block([Expr(If(Bin("==", V("i"), I(7)), Block([Continue()])))]), "e", Block([])))),
                                         Expr(Asg(V("s"), V("i"), "+=")), Print(S("i"), V("i"))]))], V("s")), "int", ["int"]),
            "pick": Fn(["t"], Block([], If(V("t"), Block([], F(3, 1)), Block([], Bin("*", F(2, 0), F(5, 1))))), "float", ["bool"]),
            "forever": Fn(["n"], Block([Let("i", I(0)), Loop(Block([Expr(If(Bin(">", V("i"), V("n")), Block([Ret(V("i"))]))), Expr(Asg(V("i"), I(1), "+="))]))]), "int", ["int"]),
            "main": Fn([], Block([Let("r", Call("calc", I(a), I(b))), Print(V("r"), Call("walk", I(b)), Call("pick", B(a % 2 == 0)), Call("forever", I(c)), Call("scan", I(c % 4))),
                                  Print(Bin("*", I(7), I(0)), Bin("*", I(12), I(0)), Bin("*", I(0), I(5)), Bin("*", I(1), I(1)), Bin("*", I(9), I(1)), Bin("*", I(0), I(0))),
                                  Let("l", List(I(a), I(b), I(c))), Print(Bin("+", Idx(V("l"), I(0)), Idx(V("l"), I(2))), Bin(cmpop, Idx(V("l"), I(1)), I(5))),
                                  Let("o", Obj(p=I(a), q=F(b, 0))), Print(Bin("+", Mem(V("o"), "p"), I(1)), Bin("*", Mem(V("o"), "q"), F(1, 1)), V("g1"), V("g2"))])),
        }
        # global initializers must stay constant expressions, whatever is rewritten inside them: every operator class in one
        globs = [("g1", Bin("+", I(a), I(b))), ("g2", Bin("*", I(c), I(2))),
                 ("g3", Bin("==", Bin("*", I(3), I(4)), I(12))), ("g4", Bin("!=", Bin("*", I(a % 6), I(2)), Bin("+", I(b), I(1)))),
                 ("g5", Bin("&&", Bin("<", Bin("*", I(2), I(3)), I(7)), Bin(cmpop, Bin("+", I(a), I(1)), Bin("*", I(2), I(b % 6))))),
                 ("g6", List(Bin("*", I(a % 6), I(2)), Bin("-", I(b), I(1)))), ("g7", Un("-", Bin("*", I(c % 6), I(3)))),
                 ("g8", Bin("||", Bin(">=", Bin("*", I(5), I(1)), I(5)), Bin("==", I(a), I(b))))]
        fns["main"]["body"]["ss"].append(Print(V("g3"), V("g4"), V("g5"), V("g6"), V("g7"), V("g8")))
        # the program's own variables may be called anything, also what a rewrite would like to call its helpers
        names = ["count_once", "_i", "mul_res", "lhs_init", "mul_count", "count_once_1", "_i_2", "mul_res_3"]
        fns["main"]["body"]["ss"] += [Let(nm, I(k + 2)) for k, nm in enumerate(names)] + \
            [Print(*[V(nm) for nm in names]), Print(Bin("+", V("mul_res"), I(2)), Bin("+", V("count_once"), Bin("-", V("_i"), I(3))))] + \
            [For("_i", Range(I(0), I(2)), Block([Print(V("_i"), V("count_once"))]))]
        progs.append(Program("cls%d" % i, fns, globs=globs, feats={"family": "class"}))
    # small programs, one loop with exits each: a wrong rewrite that needs two particular choices in a row (a variant of one pass
    # met by a later pass) is rare per seed; a small program gets many seeds (see run) and has little else to rewrite
    for kind in ("for", "while", "loop"):
        for exits in (("break", "continue"), ("continue", "break"), ("break",), ("continue",)):
            body = []
            for j, ex in enumerate(exits):
                body.append(Expr(If(Bin("==", V("n"), I(7 - 5 * j) if ex == "break" else I(2 + 2 * j)), Block([Break() if ex == "break" else Continue()]))))
            body += [Expr(Asg(V("sum"), V("n"), "+=")), Print(V("n"))]
            if kind == "for":
                loop = [For("n", Range(I(0), I(10)), Block(body))]
            elif kind == "while":
                loop = [Let("n", I(-1)), While(Bin("<", V("n"), I(9)), Block([Expr(Asg(V("n"), I(1), "+="))] + body))]
            else:
                loop = [Let("n", I(-1)), Loop(Block([Expr(Asg(V("n"), I(1), "+=")), Expr(If(Bin(">", V("n"), I(9)), Block([Break()])))] + body))]
            progs.append(Program("small_%s_%s" % (kind, "_".join(exits)), {"main": Fn([], Block([Let("sum", I(0))] + loop + [Print(V("sum"))]))},
                                 feats={"family": "class-small"}))
    # loop bodies which END in an expression that is run for its effect (no semicolon behind it): a print, an assignment, a call
    for kind in ("while", "loop", "for"):
        for tname, trailing in (("print", lambda: Call("println", S("at"), V("n"))), ("assign", lambda: Asg(V("sum"), V("n"), "+=")), ("call", lambda: Call("note", V("n")))):
            pre = [Expr(Asg(V("n"), I(1), "+="))] if kind != "for" else []
            if tname != "assign":
                pre.append(Expr(Asg(V("sum"), V("n"), "+=")))
            if kind == "while":
                loop = [Let("n", I(0)), While(Bin("<", V("n"), I(4)), Block(pre, trailing()))]
            elif kind == "loop":
                loop = [Let("n", I(0)), Loop(Block([Expr(If(Bin(">=", V("n"), I(4)), Block([Break()])))] + pre, trailing()))]
            else:
                loop = [For("n", Range(I(0), I(4)), Block(pre, trailing()))]
            progs.append(Program("small_trailing_%s_%s" % (kind, tname), {"note": Fn(["v"], Block([Print(S("note"), V("v"))])),
                                                                          "main": Fn([], Block([Let("sum", I(0))] + loop + [Print(V("sum"))]))},
                                 feats={"family": "class-small"}))
    # pure arithmetic trees over small values with every operator: what the rewrites print must mean the same
    def tree(d, ty):
        if d == 0 or rnd.random() < 0.25:
            if ty == "int":
                return rnd.choice([I(rnd.randrange(0, 9)), V("x"), V("y"), Un("-", I(rnd.randrange(1, 5)))])
            return rnd.choice([B(True), B(False), V("t")])
        if ty == "int":
            op = rnd.choice(["+", "-", "+", "-", "*", "/", "%", "**", "<<", "&", "|", "^", "neg"])
            if op == "neg":
                return Un("-", tree(d - 1, "int"))
            if op == "*":
                return Bin("*", I(rnd.randrange(0, 6)), I(rnd.randrange(0, 6)))
            if op == "/" or op == "%":
                return Bin(op, tree(d - 1, "int"), I(rnd.randrange(1, 7)))
            if op == "**":
                return Bin("**", rnd.choice([I(2), I(3), V("y")]), I(rnd.randrange(0, 3)))
            if op == "<<":
                return Bin("<<", tree(d - 1, "int"), I(rnd.randrange(0, 3)))
            if op in ("&", "|", "^"):      # (bitwise operators on negative numbers are outside HmsSem's integers)
                return Bin(op, rnd.choice([I(rnd.randrange(0, 9)), V("x")]), rnd.choice([I(rnd.randrange(0, 9)), V("y")]))
            return Bin(op, tree(d - 1, "int"), tree(d - 1, "int"))
        op = rnd.choice(["<", ">", "<=", ">=", "==", "!=", "&&", "||", "not"])
        if op == "not":
            return Un("!", tree(d - 1, "bool"))
        if op in ("&&", "||"):
            return Bin(op, tree(d - 1, "bool"), tree(d - 1, "bool"))
        return Bin(op, tree(d - 1, "int"), tree(d - 1, "int"))
    for i in range(n):
        stmts = [Let("x", I(rnd.randrange(0, 9))), Let("y", I(rnd.randrange(1, 4))), Let("t", B(rnd.random() < 0.5))]
        for k in range(6):
            stmts.append(Print(tree(3, "int"), tree(3, "bool")))
        progs.append(Program("arith%d" % i, {"main": Fn([], Block(stmts))}, feats={"family": "class-arith"}))
    return progs


from .progs import *  # noqa: E402,F401,F403


def run(args):
    rep = C.Report("C20")
    thorough = C.tier() == "thorough"
    rnd = random.Random(C.seed())
    passes = 3 if thorough else 2          # (the small class programs are always given 3)
    nseeds = 10 if thorough else 3
    rep.cov["rule"] = ("programs of the stated class (syntactic filter over the spec-AST families + programs written for the class: "
                       "side-effect free operands wherever the transformer swaps or duplicates, integer multiplications with literal "
                       "operands 0..12, small literals) x %d transformer seeds x %d passes; every printed variant must be accepted and "
                       "behave on both backends as HmsSem prescribes for the original; non-trivial = distinct variant texts" % (nseeds, passes))
    cand = class_programs(C.seed(), 40 if thorough else 12) + T.typing_programs() + Fam.template_programs() + Fam.capture_programs() + \
        Fam.lambda_programs() + Fam.singleton_programs() + Fam.printer_programs() + Fam.operator_programs() + Fam.order_programs(C.seed()) + \
        [p for p in Fam.closure_programs() if p["feats"]["variant"] in ("read-direct", "write", "list", "loop", "nested", "global")] + Fam.nestings(2, rnd, sample=400 if thorough else 60) + \
        Fam.random_programs(600 if thorough else 100, C.seed() + 20)
    progs = [p for p in cand if in_class(p, passes)]
    for fam in ("class", "templates"):
        if not any(p["feats"].get("family") == fam for p in progs):
            raise C.Machinery("no program of family %s lies in the class: the class test or the generator is wrong" % fam)
    rep.notes["candidates"] = len(cand)
    rep.notes["in_class"] = len(progs)
    cases = sem.run_spec(progs, rep)
    usable = [p for p in progs if cases[p["id"]]["status"] not in ("oom", "run")]
    rep.notes["inside_model"] = len(usable)
    pool = C.Pool(C.build_worker())
    base_seed = C.seed() * 1000
    treqs = []
    for p in usable:
        # (written with the parentheses the operator table requires and no others: the transformer leaves a parenthesised
        # expression alone, and the printer has to get the precedence of what the transformer builds right)
        src, _ = P.render(p, minimal=True)
        ns = nseeds * 4 if p["feats"].get("family", "").startswith("class") else nseeds      # (the programs written for the class get more seeds)
        if p["feats"].get("family") == "class-small":
            ns = 300 if thorough else 100
        treqs.append({"op": "transform", "id": len(treqs), "a": {"src": src, "seeds": [base_seed + k for k in range(ns)],
                                                                   "passes": 3 if p["feats"].get("family") == "class-small" else passes,
                                                                   "singletons": p.get("host") or {}}})
    tres = pool.map(treqs, timeout=60)
    reqs, meta = [], []
    for p, tr in zip(usable, tres):
        feat = {"family": p["feats"].get("family", "?")}
        src = P.render(p, minimal=True)[0]
        rep.count()
        if "r" not in tr:
            rep.fail(dict(feat, kind="hostcrash", stage="transform", panic=sem.panic_class((tr.get("crash") or {}).get("stderr", ""))), {"program": src})
            continue
        if tr["r"].get("rejected"):
            raise C.Machinery("class program %s is not accepted by the analyzer" % p["id"])
        seen = set()
        for v in tr["r"]["variants"]:
            if "panic" in v:
                rep.fail(dict(feat, kind="transformer-panics", panic=v["panic"][:60]), {"program": src, "seed": v["seed"]})
                continue
            if v["text"] in seen:
                continue
            seen.add(v["text"])
            rep.nontrivial(v["text"])
            for b in ("vm", "tree"):
                if b == "tree" and p["feats"].get("vm_only"):
                    continue
                a = {"modules": {"main": v["text"]}, "entry": "main", "backend": b, "timeout_ms": 8000}
                if p.get("host"):
                    a["singletons"] = p["host"]
                reqs.append({"op": "run", "id": len(reqs), "a": a})
                meta.append((p, src, v, b))
    res = pool.map(reqs, timeout=30)
    for (p, src, v, b), r in zip(meta, res):
        rep.count()
        feat = {"family": p["feats"].get("family", "?"), "backend": b, "pass": v["pass"]}
        verdict = sem.compare(p, cases[p["id"]], r, {}, b)
        if verdict is None:
            continue
        kind, detail = verdict
        if kind == "rejected-by-analyzer":
            if b == "vm":
                msg = (detail["diags"] or detail["syntax"] or [{"msg": "?"}])[0]["msg"]
                rep.fail({"family": feat["family"], "pass": v["pass"], "kind": "variant-rejected", "msg": msg[:50]},
                         {"program": src, "variant": v["text"], "seed": v["seed"], "errors": detail})
            continue
        if kind == "hostcrash":
            feat["panic"] = sem.panic_class(detail["stderr"])
        rep.fail(dict(feat, kind="variant-" + kind), {"program": src, "variant": v["text"], "seed": v["seed"], "detail": detail})
    for p in rnd.sample(usable, min(2, len(usable))):
        rep.sample({"program": P.render(p)[0][:400]})
    return rep.finish()
