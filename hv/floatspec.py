"""Float values at the edges (HmsFloat): every comparison / arithmetic operator over the classes nan, infinities, zeros of both
signs and a number of either sign, on both backends.  Shared by C01 (VM), C04 (both agree with the specification), C02."""
import json

from . import common as C

EXPR = {"nan": "\"NaN\".parse_float()", "pinf": "\"+Inf\".parse_float()", "ninf": "\"-Inf\".parse_float()",
        "nzero": "\"-0\".parse_float()", "pzero": "0.0", "neg": "(0.0 - 2.5)", "pos": "2.5"}
TEXT = {"nan": "NaN", "pinf": "+Inf", "ninf": "-Inf", "nzero": "-0", "pzero": "0", "neg": "-2.5", "pos": "2.5"}


def text_of(cls, a, b, op):
    if cls in TEXT:
        return TEXT[cls]
    va, vb = {"neg": -2.5, "pos": 2.5}[a], {"neg": -2.5, "pos": 2.5}[b]
    v = va + vb if op == "add" else va - vb if op == "sub" else va * vb
    return ("%g" % v)


def cases(rep):
    r = C.run_tlc("HmsFloat", "SPECIFICATION Spec\nINVARIANTS LawsHold Export\nCHECK_DEADLOCK FALSE\n", timeout=300)
    C.tlc_must_pass(r, "HmsFloat")
    rep.add_tlc(r)
    if not r.cases:
        raise C.Machinery("HmsFloat exported nothing")
    return r.cases[0]


def programs(table):
    """-> [(label, source, expected output)]: one program per pair of classes; operands in variables, as literals'
    expressions, as arguments of a function, in conditions"""
    out = []
    cl = [row[0]["a"] for row in table["ari"]]
    for i, a in enumerate(cl):
        for j, b in enumerate(cl):
            cmps = [table["cmp"][o][i][j] for o in range(6)]
            ari = table["ari"][i][j]
            src = ("fn cmp(a: float, b: float) -> [bool] { [a < b, a <= b, a > b, a >= b, a == b, a != b] }\n"
                   "fn main() {\n    let a = %s;\n    let b = %s;\n"
                   "    println(a < b, a <= b, a > b, a >= b, a == b, a != b);\n"
                   "    println(cmp(a, b));\n"
                   "    println(if a <= b { \"le\" } else { \"nle\" }, if a >= b { \"ge\" } else { \"nge\" }, if !(a < b) { \"nlt\" } else { \"lt\" });\n"
                   "    let k = 0; while a <= b && k < 2 { k += 1; } println(k);\n"
                   "    println(a + b, a - b, a * b, -a);\n"
                   "    println(%s <= %s, %s >= %s);\n}\n" % (EXPR[a], EXPR[b], EXPR[a], EXPR[b], EXPR[a], EXPR[b]))
            t = lambda x: "true" if x else "false"
            c = {x["op"]: x["r"] for x in cmps}
            exp = " ".join(t(x["r"]) for x in cmps) + "\n"
            exp += "[" + ", ".join(t(x["r"]) for x in cmps) + "]\n"
            exp += "%s %s %s\n" % ("le" if c["<="] else "nle", "ge" if c[">="] else "nge", "nlt" if not c["<"] else "lt")
            exp += "%d\n" % (2 if c["<="] else 0)
            exp += "%s %s %s %s\n" % (text_of(ari["add"], a, b, "add"), text_of(ari["sub"], a, b, "sub"), text_of(ari["mul"], a, b, "mul"), TEXT[ari["neg"]])
            exp += "%s %s\n" % (t(c["<="]), t(c[">="]))
            out.append(("%s,%s" % (a, b), src, exp))
    return out


def run(rep, pool, backends=("vm", "tree")):
    table = cases(rep)
    progs = programs(table)
    reqs, meta = [], []
    for label, src, exp in progs:
        for b in backends:
            reqs.append({"op": "run", "id": len(reqs), "a": {"modules": {"main": src}, "entry": "main", "backend": b, "timeout_ms": 8000}})
            meta.append((label, src, exp, b))
    for (label, src, exp, b), r in zip(meta, pool.map(reqs, timeout=30)):
        rep.count()
        rep.nontrivial(("float-edges", label, b))
        feat = {"family": "float-edges", "backend": b, "operands": label}
        if "r" not in r:
            rep.fail(dict(feat, kind="hostcrash" if "crash" in r else "hang"), {"source": src, "real": str(r)[:1500]})
            continue
        rr = r["r"]
        if not rr["accepted"]:
            raise C.Machinery("float-edges program rejected: %s" % [d["msg"] for d in rr["diags"] if d["level"] == "Error"][:3])
        if rr["out"] != exp or (rr.get("outcome") or {}).get("kind") != "done":
            got, want = rr["out"].split("\n"), exp.split("\n")
            line = next((k for k in range(min(len(got), len(want))) if got[k] != want[k]), min(len(got), len(want)))
            rep.fail(dict(feat, kind="wrong-output", line=line), {"source": src, "want": exp, "got": rr["out"], "outcome": rr.get("outcome")})
