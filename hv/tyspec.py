"""Programs for HmsTypes: type texts <-> structures, the program encoding the specification reads,
well-typed program families and single-fault mutation operators (C03)."""
import copy
import json
import random
import re

from . import progs as P
from .progs import *  # noqa: F401,F403

NIL = {"k": "nil"}


# ---- types ----------------------------------------------------------------------------------
class _TP:
    def __init__(self, s):
        self.s, self.i = s, 0

    def ws(self):
        while self.i < len(self.s) and self.s[self.i] in " \n\t":
            self.i += 1

    def eat(self, lit):
        self.ws()
        if self.s.startswith(lit, self.i):
            self.i += len(lit)
            return True
        return False

    def ident(self):
        self.ws()
        j = self.i
        while j < len(self.s) and (self.s[j].isalnum() or self.s[j] in "_$@"):
            j += 1
        if j == self.i:
            raise ValueError("type syntax: %r at %d" % (self.s, self.i))
        out, self.i = self.s[self.i:j], j
        return out

    def ty(self):
        self.ws()
        if self.eat("["):
            t = self.ty()
            assert self.eat("]")
            return {"k": "list", "t": t}
        if self.eat("?"):
            return {"k": "opt", "t": self.ty()}
        if self.eat("{"):
            if self.eat("?"):
                assert self.eat("}")
                return {"k": "anyobj"}
            fs = []
            while not self.eat("}"):
                n = self.ident()
                assert self.eat(":")
                fs.append({"n": n, "t": self.ty()})
                self.eat(",")
            return {"k": "obj", "fs": fs}
        if self.s.startswith("fn", self.i) and self.s[self.i + 2:self.i + 3] in ("(", " "):
            self.i += 2
            assert self.eat("(")
            ps = []
            while not self.eat(")"):
                n = self.ident()
                assert self.eat(":")
                ps.append({"n": n, "t": self.ty()})
                self.eat(",")
            r = {"k": "null"}
            if self.eat("->"):
                r = self.ty()
            return {"k": "fn", "ps": ps, "r": r}
        n = self.ident()
        if n in ("int", "float", "bool", "str", "null", "range", "any"):
            return {"k": n}
        return {"k": "named", "n": n}


def parse_type(text):
    p = _TP(text)
    t = p.ty()
    p.ws()
    if p.i != len(text):
        raise ValueError("type syntax: %r" % text)
    return t


def type_text(t):
    k = t["k"]
    if k == "list":
        return "[%s]" % type_text(t["t"])
    if k == "opt":
        return "?%s" % type_text(t["t"])
    if k == "obj":
        return "{ %s }" % ", ".join("%s: %s" % (f["n"], type_text(f["t"])) for f in t["fs"]) if t["fs"] else "{ }"
    if k == "anyobj":
        return "{ ? }"
    if k == "fn":
        return "fn(%s) -> %s" % (", ".join("%s: %s" % (p["n"], type_text(p["t"])) for p in t["ps"]), type_text(t["r"]))
    if k == "named":
        return t["n"]
    return k


def norm_type(t):
    """comparison form: object fields sorted, `unknown` kept"""
    k = t["k"]
    if k in ("list", "opt"):
        return {"k": k, "t": norm_type(t["t"])}
    if k == "obj":
        return {"k": k, "fs": sorted(({"n": f["n"], "t": norm_type(f["t"])} for f in t["fs"]), key=lambda f: f["n"])}
    if k == "fn":
        if t.get("va"):
            return {"k": "fn", "va": True}
        # (a parameter which takes every argument - throw's - is written `never` in HmsTypes and `unknown` by the analyzer)
        return {"k": k, "ps": [{"n": p["n"], "t": {"k": "never"} if p["t"]["k"] == "unknown" else norm_type(p["t"])} for p in t["ps"]], "r": norm_type(t["r"])}
    return {"k": k}


# ---- encoding for HmsTypes ------------------------------------------------------------------------
def _conv(n):
    """spec-AST node -> the node HmsTypes reads (type texts parsed, optional fields made explicit)"""
    if isinstance(n, list):
        return [_conv(x) for x in n]
    if not isinstance(n, dict):
        return n
    out = {}
    for key, v in n.items():
        if key in ("pts",):
            out[key] = [parse_type(t) for t in v]
        elif key == "ret" and isinstance(v, str):
            out[key] = parse_type(v)
        elif key == "ty":
            out["t"] = parse_type(v)
        elif key == "t" and isinstance(v, str):
            out[key] = parse_type(v)
        elif key == "cs":
            continue            # string contents do not matter for typing (and keep the file small)
        else:
            out[key] = _conv(v)
    if out.get("k") == "let" and "t" not in out:
        out["t"] = NIL
    return out


def types_json(prog):
    fns = {}
    for name, f in prog["fns"].items():
        fns[name] = {"ps": f["ps"], "pts": [parse_type(t) for t in f["pts"]], "ret": parse_type(f["ret"]), "body": _conv(f["body"]),
                     "sps": [list(x) for x in f.get("sps", [])], "event": bool(f.get("event"))}
    globs, sings = [], []
    for g in prog["globals"]:
        if "decl" in g:
            sings.append({"n": g["x"], "t": parse_type(g["decl"])})
            continue
        globs.append({"x": g["x"], "e": _conv(g["e"]), "t": parse_type(g["t"]) if g.get("t") else NIL})
    imports = {"trig": [], "templ": []}
    for line in prog.get("imports", ()):
        m = re.fullmatch(r"import (trigger|templ) (\w+) from (\w+);", line.strip())
        if not m:
            raise ValueError("import form not modelled by HmsTypes: %r" % line)
        imports["trig" if m.group(1) == "trigger" else "templ"].append(m.group(2))
    impls = [{"templ": im["templ"], "caps": im["caps"] or [], "sing": im["sing"], "methods": list(im["methods"])} for im in prog.get("impls", ())]
    return json.dumps({"id": prog["id"], "fns": fns, "globals": globs, "dups": [n for n, _ in prog.get("dupfns", ())],
                       "needmain": True, "sings": sings, "imports": imports, "impls": impls,
                       "types": [{"n": td["n"], "t": parse_type(td["t"])} for td in prog.get("types", ())]})


# ---- AST walking -----------------------------------------------------------------------------------
EXPR_FIELDS = {"un": ["e"], "bin": ["l", "r"], "call": [], "spawn": [], "callv": ["e"], "idx": ["e", "i"], "mem": ["e"], "mcall": ["e"],
               "range": ["l", "r"], "asg": ["pl", "e"], "if": ["c"], "match": ["e"], "cast": ["e"], "let": ["e"], "expr": ["e"], "ret": ["e"],
               "while": ["c"], "for": ["e"]}


def slots(n, loop=0, infn=True, out=None, role="top"):
    """every (container, key, role, loop depth) holding an expression, recursively (blocks / statements are descended into)"""
    if out is None:
        out = []
    if isinstance(n, list):
        for i, x in enumerate(n):
            slots(x, loop, infn, out, role)
        return out
    if not isinstance(n, dict) or n.get("k") == "nil":
        return out
    k = n.get("k")
    for f in EXPR_FIELDS.get(k, []):
        c = n.get(f)
        if isinstance(c, dict) and c.get("k") != "nil":
            out.append((n, f, "%s.%s" % (k, f), loop))
            slots(c, loop, infn, out)
    if "args" in n:
        for i, a in enumerate(n["args"]):
            out.append((n["args"], i, "%s.arg" % k, loop))
            slots(a, loop, infn, out)
    if k == "list":
        for i, a in enumerate(n["es"]):
            out.append((n["es"], i, "list.elem", loop))
            slots(a, loop, infn, out)
    if k == "obj":
        for f in n["fs"]:
            out.append((f, "e", "obj.field", loop))
            slots(f["e"], loop, infn, out)
    if k == "block":
        slots(n["ss"], loop, infn, out)
        if n["e"].get("k") != "nil":
            out.append((n, "e", "block.value", loop))
            slots(n["e"], loop, infn, out)
    if k == "if":
        slots(n["th"], loop, infn, out)
        slots(n["el"], loop, infn, out)
    if k == "match":
        for arm in n["arms"]:
            for i, l in enumerate(arm["lits"]):
                out.append((arm["lits"], i, "match.lit", loop))
            out.append((arm, "e", "match.arm", loop))
            slots(arm["e"], loop, infn, out)
        if n["dflt"].get("k") != "nil":
            out.append((n, "dflt", "match.default", loop))
            slots(n["dflt"], loop, infn, out)
    if k == "try":
        slots(n["b"], loop, infn, out)
        slots(n["c"], loop, infn, out)
    if k == "fnlit":
        slots(n["body"], 0, infn, out)
    if k in ("loop", "while", "for"):
        slots(n["b"], loop + 1, infn, out)
    return out


def blocks(n, loop=0, out=None):
    """every (block node, loop depth)"""
    if out is None:
        out = []
    if isinstance(n, list):
        for x in n:
            blocks(x, loop, out)
        return out
    if not isinstance(n, dict):
        return out
    k = n.get("k")
    if k == "block":
        out.append((n, loop))
    for key, v in n.items():
        if key == "p":
            continue
        if k in ("loop", "while", "for") and key == "b":
            blocks(v, loop + 1, out)
        elif k == "fnlit" and key == "body":
            blocks(v, 0, out)
        elif isinstance(v, (dict, list)):
            blocks(v, loop, out)
    return out


def nodes(n, out=None):
    if out is None:
        out = []
    if isinstance(n, list):
        for x in n:
            nodes(x, out)
    elif isinstance(n, dict):
        if "k" in n:
            out.append(n)
        for key, v in n.items():
            if isinstance(v, (dict, list)):
                nodes(v, out)
    return out


LITS = [lambda: I(7), lambda: S("s"), lambda: B(True), lambda: F(3, 1), lambda: List(I(1)), lambda: NoneV(), lambda: Null(),
        lambda: Obj(q=I(1)), lambda: Range(I(0), I(2))]


def mutants(prog, rnd, per_op):
    """single-fault mutants of a program: [(mutant, operator name)]; whether a mutant is really ill-typed is decided by HmsTypes"""
    out = []

    def emit(mutate, op, n=None):
        q = copy.deepcopy(prog)
        if mutate(q) is False:
            return
        q["id"] = "%s~%s%d" % (prog["id"], op, len(out))
        q["feats"] = dict(prog.get("feats", {}), mutation=op, base=prog["id"])
        out.append((q, op))

    fnames = list(prog["fns"])

    def all_slots(q):
        res = []
        for name in fnames:
            for s in slots(q["fns"][name]["body"]):
                res.append((name,) + s)
        return res

    base_slots = all_slots(prog)
    # M1 replace an expression by a literal of another type
    idxs = [i for i in range(len(base_slots)) if base_slots[i][3] != "asg.pl"]      # (a literal is no place: syntax error)
    for i in (idxs if len(idxs) <= per_op else rnd.sample(idxs, per_op)):
        lit = rnd.choice(LITS[:4] if base_slots[i][3] == "match.lit" else LITS)

        def m(q, i=i, lit=lit):
            name, cont, key, role, loop = all_slots(q)[i]
            cont[key] = lit()
        emit(m, "lit-" + base_slots[i][3])
    # M2 arity: one argument too few / too many
    calls = [j for j, n in enumerate(nodes([prog["fns"][f]["body"] for f in fnames])) if n.get("k") in ("call", "mcall", "callv", "spawn")]
    for j in (calls if len(calls) <= per_op else rnd.sample(calls, per_op)):
        for how in ("drop", "add"):
            def m(q, j=j, how=how):
                n = nodes([q["fns"][f]["body"] for f in fnames])[j]
                if how == "drop":
                    if not n["args"]:
                        return False
                    n["args"].pop()
                else:
                    n["args"].append(I(1))
            emit(m, "arity-" + how)
    # M3 unknown identifier / function / member
    uses = [j for j, n in enumerate(nodes([prog["fns"][f]["body"] for f in fnames])) if n.get("k") in ("var", "call", "mem", "mcall")]
    for j in (uses if len(uses) <= per_op else rnd.sample(uses, per_op)):
        def m(q, j=j):
            n = nodes([q["fns"][f]["body"] for f in fnames])[j]
            if n["k"] == "var":
                n["x"] = n["x"] + "_undefined"
            elif n["k"] == "call":
                if n["f"] == "throw":
                    return False
                n["f"] = n["f"] + "_undefined"
            else:
                n["m"] = "no_such_member"
        emit(m, "unknown-name")
    # M4 unknown type in a signature / annotation
    for name in fnames:
        f = prog["fns"][name]
        for i in range(len(f["pts"])):
            emit(lambda q, name=name, i=i: q["fns"][name]["pts"].__setitem__(i, "Undeclared"), "unknown-type")
        if name != "main":
            emit(lambda q, name=name: q["fns"][name].__setitem__("ret", "[Undeclared]"), "unknown-type")
    # M5 break / continue where no loop is (incl. inside a function literal inside a loop), and at every block of loop depth 0
    bl = [j for j, (b, loop) in enumerate(blocks([prog["fns"][f]["body"] for f in fnames])) if loop == 0]
    for j in (bl if len(bl) <= per_op else rnd.sample(bl, per_op)):
        for what in (Break, Continue):
            def m(q, j=j, what=what):
                b, loop = blocks([q["fns"][f]["body"] for f in fnames])[j]
                b["ss"].insert(rnd.randrange(len(b["ss"]) + 1), what())
            emit(m, "break-outside")
    # M6 duplicates
    for name in fnames:
        if name != "main":
            emit(lambda q, name=name: q.setdefault("dupfns", []).append((name, copy.deepcopy(q["fns"][name]))), "dup-fn")
        if prog["fns"][name]["ps"]:
            def m(q, name=name):
                f = q["fns"][name]
                f["ps"].append(f["ps"][0])
                f["pts"].append(f["pts"][0])
            emit(m, "dup-param")
    if prog["globals"]:
        emit(lambda q: q["globals"].append(copy.deepcopy(q["globals"][0])), "dup-global")
    # M7 non-constant global
    emit(lambda q: q["globals"].append({"x": "ncg", "e": Call("main")}), "nonconst-global")
    emit(lambda q: q["globals"].append({"x": "ncg", "e": Bin("+", I(1), V("ncg0"))}) or q["globals"].insert(0, {"x": "ncg0", "e": I(1)}), "nonconst-global")
    emit(lambda q: q["globals"].append({"x": "ncg", "e": Range(Block([Let("q", I(1))], V("q")), I(5))}), "nonconst-global")
    emit(lambda q: q["globals"].append({"x": "ncg", "e": Idx(List(I(1), I(2)), Block([Let("q", I(0))], V("q")))}), "nonconst-global")
    emit(lambda q: q["globals"].append({"x": "ncg", "e": Range(Block([], I(1)), I(5))}), "const-global")
    emit(lambda q: q["globals"].append({"x": "ncg", "e": List(Range(I(0), Call("main")))}), "nonconst-global")
    # M8 implicit any
    for name in fnames[:2]:
        emit(lambda q, name=name: q["fns"][name]["body"]["ss"].insert(0, Let("ia", List())), "implicit-any")
        emit(lambda q, name=name: q["fns"][name]["body"]["ss"].insert(0, Let("ia", NoneV())), "implicit-any")
        emit(lambda q, name=name: q["fns"][name]["body"]["ss"].insert(0, Let("ia", List(List()), "[[int]]")), "implicit-any")
    # M9 main
    emit(lambda q: q["fns"].pop("main") and None, "main-missing")
    emit(lambda q: (q["fns"]["main"]["ps"].append("a"), q["fns"]["main"]["pts"].append("int")) and None, "main-params")

    def main_ret(q):
        q["fns"]["main"]["ret"] = "int"
        q["fns"]["main"]["body"]["e"] = I(0)
    emit(main_ret, "main-ret")
    # M10 return type: declared type changed; a return of the wrong type first thing; the same after a function literal
    for name in fnames:
        if name == "main":
            continue
        f = prog["fns"][name]
        other = "str" if f["ret"] != "str" else "int"
        emit(lambda q, name=name, other=other: q["fns"][name].__setitem__("ret", other), "ret-decl")
        wrong = S("w") if f["ret"] != "str" else I(1)
        emit(lambda q, name=name, wrong=wrong: q["fns"][name]["body"]["ss"].insert(0, Expr(If(B(False), Block([Ret(wrong)])))), "ret-wrong")

        def after_lit(q, name=name, wrong=wrong, f=f):
            lit_ret = "str" if f["ret"] != "str" else "int"
            body = Block([], S("w") if lit_ret == "str" else I(1))
            ss = q["fns"][name]["body"]["ss"]
            ss.insert(0, Let("fl", FnLit(["a"], body, lit_ret)))
            ss.insert(1, Print(CallV(V("fl"), I(1))))
            ss.insert(2, Expr(If(B(False), Block([Ret(wrong)]))))
        emit(after_lit, "ret-wrong-after-fnlit")
    # M11 operator not defined on the operand type
    bins = [j for j, n in enumerate(nodes([prog["fns"][f]["body"] for f in fnames])) if n.get("k") in ("bin", "asg")]
    for j in (bins if len(bins) <= per_op else rnd.sample(bins, per_op)):
        def m(q, j=j):
            n = nodes([q["fns"][f]["body"] for f in fnames])[j]
            if n["k"] == "bin":
                n["op"] = rnd.choice(["-", "<", "%", "&&", "<<", "+", "**", "|"])
            else:
                n["op"] = rnd.choice(["-=", "%=", "+=", "|=", "**=", "<<="])
        emit(m, "operator")
    # M16 impl blocks and M17 trigger statements
    for k, im in enumerate(prog.get("impls", ())):
        def impl_mut(how, k=k):
            def m(q):
                im = q["impls"][k]
                meth = im["methods"][0]
                f = q["fns"][meth]
                if how == "drop-method":
                    im["methods"].remove(meth)
                elif how == "extra-method":
                    q["fns"]["extra_m"] = Fn([], Block([]), sps=[("self", im["sing"])])
                    im["methods"].append("extra_m")
                elif how == "param-name":
                    old = f["ps"][0]
                    f["ps"][0] = old + "_x"
                    for n in nodes(f["body"]):
                        if n.get("k") == "var" and n.get("x") == old:
                            n["x"] = old + "_x"
                elif how == "param-type":
                    f["pts"][0] = "str" if f["pts"][0] != "str" else "int"
                    f["body"] = Block([], B(True)) if f["ret"] == "bool" else Block([])
                elif how == "param-count":
                    f["ps"].append("more")
                    f["pts"].append("int")
                elif how == "ret":
                    f["ret"] = "int"
                    f["body"] = Block([], I(1))
                elif how == "no-extract":
                    f["sps"] = []
                    f["body"] = Block([], B(True)) if f["ret"] == "bool" else Block([])
                elif how == "cap-unknown":
                    im["caps"].append("warp")
                elif how == "cap-conflict":
                    other = "temperature" if "light" in im["caps"] else "light"
                    im["caps"].append(other)
                    name = "set_temp" if other == "temperature" else "dim"
                    q["fns"][name] = (Fn(["celsius"], Block([]), "null", ["float"], sps=[("self", im["sing"])]) if other == "temperature"
                                      else Fn(["percent"], Block([], B(True)), "bool", ["int"], sps=[("self", im["sing"])]))
                    im["methods"].append(name)
                elif how == "no-caps":
                    im["caps"] = None
                elif how == "templ-not-imported":
                    q["imports"] = [l for l in q["imports"] if "templ" not in l]
                elif how == "sing-undeclared":
                    im["sing"] = "$Nowhere"
                elif how == "event-modifier":
                    f["event"] = True
            return m
        for how in ("drop-method", "extra-method", "param-name", "param-type", "param-count", "ret", "no-extract", "cap-unknown", "cap-conflict",
                    "no-caps", "templ-not-imported", "sing-undeclared", "event-modifier"):
            emit(impl_mut(how), "impl-" + how)
    trigs = [j for j, n in enumerate(nodes([prog["fns"][f]["body"] for f in fnames])) if n.get("k") == "trigger"]
    for j in trigs[:per_op]:
        def trig_mut(how, j=j):
            def m(q):
                n = nodes([q["fns"][f]["body"] for f in fnames])[j]
                cbf = q["fns"].get(n["cb"])
                if how == "cb-not-event":
                    cbf["event"] = False
                elif how == "cb-param-type":
                    cbf["pts"][0] = "str"
                elif how == "cb-arity":
                    cbf["ps"].append("more")
                    cbf["pts"].append("int")
                elif how == "cb-ret":
                    cbf["ret"] = "int"
                    cbf["body"]["e"] = I(1)
                elif how == "cb-unknown":
                    n["cb"] = "no_such_callback"
                elif how == "trigger-unknown":
                    n["ev"] = "hourly"
                elif how == "trigger-not-imported":
                    q["imports"] = [l for l in q["imports"] if "trigger" not in l]
                elif how == "arg-type":
                    n["args"][0] = S("soon")
                elif how == "arg-arity":
                    n["args"].append(I(1))
                elif how == "cb-param-name":
                    old = cbf["ps"][0]
                    cbf["ps"][0] = "renamed"
                    for x in nodes(cbf["body"]):
                        if x.get("k") == "var" and x.get("x") == old:
                            x["x"] = "renamed"
                elif how == "self":
                    owner = [f for f in fnames if any(x is n for x in nodes(q["fns"][f]["body"]))][0]
                    if q["fns"][owner]["ps"] != ["elapsed"]:
                        q["fns"][owner] = Fn(["elapsed"], q["fns"][owner]["body"], event=True)
                        for x in nodes(q["fns"][owner]["body"]):
                            if x.get("k") == "var" and x.get("x") not in ("elapsed",):
                                x.clear()
                                x.update(I(1))
                    n["cb"] = owner
            return m
        for how in ("cb-not-event", "cb-param-type", "cb-arity", "cb-ret", "cb-unknown", "trigger-unknown", "trigger-not-imported", "arg-type", "arg-arity",
                    "cb-param-name", "self"):
            emit(trig_mut(how), "trigger-" + how)
    # the parameters of a function in another order (its body and its callers keep using the names / positions)
    for fname in [f for f in fnames if len(prog["fns"][f]["ps"]) >= 2][:per_op]:
        def m(q, fname=fname):
            f = q["fns"][fname]
            if f["pts"][0] == f["pts"][1]:
                return False
            f["ps"][0], f["ps"][1] = f["ps"][1], f["ps"][0]
            f["pts"][0], f["pts"][1] = f["pts"][1], f["pts"][0]
        emit(m, "params-swapped")
    # a global named like a function of the module
    for fname in [f for f in fnames if f != "main"][:2]:
        def m(q, fname=fname):
            q["globals"].append({"x": fname, "e": I(1)})
        emit(m, "global-named-like-function")
    # type definitions: the name stands for another type (every use of it changes meaning), or the definition goes away
    tdefs = [j for j, n in enumerate(nodes([prog["fns"][f]["body"] for f in fnames])) if n.get("k") == "typedef"]
    for j in tdefs[:per_op]:
        for other in ("str", "int", "[bool]", "{ zz: int }"):
            def m(q, j=j, other=other):
                n = nodes([q["fns"][f]["body"] for f in fnames])[j]
                if n["t"] == other:
                    return False
                n["t"] = other
            emit(m, "typedef-means-" + re.sub(r"[^a-z]+", "", other))
        def m(q, j=j):
            n = nodes([q["fns"][f]["body"] for f in fnames])[j]
            n["n"] = n["n"] + "Gone"
        emit(m, "typedef-renamed")
    for j, td in enumerate(prog.get("types", ())):
        for other in ("str", "[bool]"):
            def m(q, j=j, other=other):
                if q["types"][j]["t"] == other:
                    return False
                q["types"][j]["t"] = other
            emit(m, "module-type-means-" + re.sub(r"[^a-z]+", "", other))
    # singleton types: a field (or the whole type) without a default value
    sing_idx = [j for j, g in enumerate(prog["globals"]) if g.get("decl")]
    for j in sing_idx[:per_op]:
        for bad in ("fn() -> int", "any", "{ inner: fn(a: int) -> null }", "[fn() -> int]", "?int"):
            def m(q, j=j, bad=bad):
                g = q["globals"][j]
                d = g["decl"].strip()
                g["decl"] = "{ extra: %s, %s" % (bad, d[1:].lstrip()) if d.startswith("{") and not d.startswith("{ ?") else bad
                if bad in ("[fn() -> int]", "?int") and not d.startswith("{"):
                    return False      # (the functions use the singleton at its old type: more than one fault)
                g["e"] = {"k": "default", "t": parse_type(g["decl"])}
            emit(m, "singleton-field-" + re.sub(r"[^a-z]+", "-", bad).strip("-"))
    # M13 call something that is no function / index something that is no container
    lets = [j for j, n in enumerate(nodes([prog["fns"][f]["body"] for f in fnames])) if n.get("k") == "var"]
    for j in (lets if len(lets) <= per_op // 2 + 1 else rnd.sample(lets, per_op // 2 + 1)):
        def m(q, j=j):
            n = nodes([q["fns"][f]["body"] for f in fnames])[j]
            x = n["x"]
            n.clear()
            n.update(CallV(V(x)))
        emit(m, "call-value")

        def m2(q, j=j):
            n = nodes([q["fns"][f]["body"] for f in fnames])[j]
            x = n["x"]
            n.clear()
            n.update(Idx(V(x), I(0)))
        emit(m2, "index-value")
    # M14 loop body with a value
    loops = [j for j, n in enumerate(nodes([prog["fns"][f]["body"] for f in fnames])) if n.get("k") in ("loop", "while", "for")]
    for j in loops[:per_op]:
        def m(q, j=j):
            n = nodes([q["fns"][f]["body"] for f in fnames])[j]
            if n["b"]["e"].get("k") != "nil":
                return False
            n["b"]["e"] = I(1)
        emit(m, "loop-value")
    # M15 if without else but with a value, statement value dropped from an else
    ifs = [j for j, n in enumerate(nodes([prog["fns"][f]["body"] for f in fnames])) if n.get("k") == "if"]
    for j in ifs[:per_op]:
        def m(q, j=j):
            n = nodes([q["fns"][f]["body"] for f in fnames])[j]
            n["el"] = {"k": "nil"}
            if n["th"]["e"].get("k") == "nil":
                n["th"]["e"] = I(1)
        emit(m, "if-no-else")
    ms = [j for j, n in enumerate(nodes([prog["fns"][f]["body"] for f in fnames])) if n.get("k") == "match"]
    for j in ms[:per_op]:
        def m(q, j=j):
            n = nodes([q["fns"][f]["body"] for f in fnames])[j]
            if n["dflt"].get("k") == "nil":
                return False
            n["dflt"] = {"k": "nil"}
        emit(m, "match-no-default")
    return out


# ---- a family that exercises the typing forms the other families lack ---------------------------------
def typing_programs(ill=False):
    """the typing forms; ill=True adds the forms the rules refuse (only C03, which asks HmsTypes for the verdict, wants those)"""
    progs = []

    def add(name, fns, globs=(), **feats):
        progs.append(Program("ty_" + name, fns, globs, feats=dict(feats, family="typing", template=name)))

    def main(*stmts):
        return {"main": Fn([], Block(list(stmts)))}

    add("annot", main(Let("a", I(1), "int"), Let("b", List(), "[int]"), Let("c", NoneV(), "?str"), Let("d", Un("?", I(1)), "?int"),
                      Let("e", List(List()), "[[int]]") if False else Let("e", List(List(I(1))), "[[int]]"),
                      Let("o", Obj(x=I(1), y=S("s")), "{ x: int, y: str }"), Let("o2", Obj(y=S("s"), x=I(1)), "{ x: int, y: str }"),
                      Print(V("a"), V("b"), V("c"), V("d"), V("e"), Mem(V("o"), "x"), Mem(V("o2"), "y"))))
    add("casts", main(Let("a", As(I(1), "float")), Let("b", As(F(3, 1), "int")), Let("c", As(B(True), "int")), Let("d", As(I(0), "bool")),
                      Let("o", As(Obj(x=I(1)), "{ ? }")), Let("l", As(List(I(1)), "[int]")), Let("n", As(NoneV(), "?int")),
                      Print(V("a"), V("b"), V("c"), V("d"), V("l"), V("n"), MCall(V("o"), "keys"))))
    add("members", main(Let("s", S("abc")), Let("l", List(I(3), I(1))), Let("r", Range(I(0), I(3))), Let("o", Un("?", I(4))), Let("f", F(5, 1)),
                        Print(MCall(V("s"), "len"), MCall(V("s"), "contains", S("b")), MCall(V("s"), "split", S("b")), MCall(V("s"), "repeat", I(2)),
                              MCall(V("s"), "replace", S("a"), S("x")), MCall(V("s"), "to_upper")),
                        Expr(MCall(V("l"), "push", I(2))), Expr(MCall(V("l"), "sort")), Expr(MCall(V("l"), "insert", I(0), I(9))),
                        Print(MCall(V("l"), "len"), MCall(V("l"), "contains", I(3)), MCall(V("l"), "pop"), MCall(V("l"), "join", S(",")), MCall(V("l"), "last")),
                        Print(Mem(V("r"), "start"), Mem(V("r"), "end"), MCall(V("r"), "rev"), MCall(V("r"), "diff")),
                        Print(MCall(V("o"), "unwrap"), MCall(V("o"), "is_some"), MCall(V("o"), "unwrap_or", I(0)), MCall(V("o"), "expect", S("m"))),
                        Print(MCall(V("f"), "round"), MCall(V("f"), "is_int"), MCall(I(3), "to_string"), MCall(I(3), "to_range"), MCall(B(True), "to_string"))))
    two = {"inc": Fn(["n"], Block([], Bin("+", V("n"), I(1))), "int", ["int"]), "dec": Fn(["n"], Block([], Bin("-", V("n"), I(1))), "int", ["int"])}
    add("fn_values_in_list", dict(two, main=Fn([], Block([Let("l", List(V("inc"), V("dec"), FnLit(["n"], Block([], Bin("*", V("n"), I(2))), "int"))),
                                                          Print(CallV(Idx(V("l"), I(1)), I(5))), For("g", V("l"), Block([Print(Call("g", I(1)))])),
                                                          Let("o", Obj(a=V("inc"), b=List(V("dec")))), Print(CallV(Idx(Mem(V("o"), "b"), I(0)), I(3)))]))))
    add("fn_value_assigned", dict(two, main=Fn([], Block([Let("f", V("inc")), Print(Call("f", I(1))), Expr(Asg(V("f"), V("dec"))), Print(Call("f", I(1))),
                                                          Let("l", List(V("inc"))), Expr(Asg(Idx(V("l"), I(0)), V("dec"))), Print(CallV(Idx(V("l"), I(0)), I(1))),
                                                          Let("o", Obj(g=V("inc"))), Expr(Asg(Mem(V("o"), "g"), V("dec"))), Print(CallV(Mem(V("o"), "g"), I(9)))]))))
    # function types are positional: the same parameters in another order make another type
    add("fn_type_parameter_order",
        {"g": Fn(["a", "b"], Block([], Bin("+", V("a"), MCall(V("b"), "len"))), "int", ["int", "str"]),
         "ap": Fn(["f"], Block([], CallV(V("f"), I(1), S("xyz"))), "int", ["fn(a: int, b: str) -> int"]),
         "main": Fn([], Block([Print(Call("ap", V("g"))), Let("h", V("g"), "fn(a: int, b: str) -> int"), Print(CallV(V("h"), I(2), S("q")))]))})
    add("fn_values", {"apply": Fn(["f", "x"], Block([], CallV(V("f"), V("x"))), "int", ["fn(a: int) -> int", "int"]),
                      "twice": Fn(["a"], Block([], Bin("*", V("a"), I(2))), "int"),
                      "mk": Fn([], Block([], FnLit(["a"], Block([], Bin("+", V("a"), I(1))), "int")), "fn(a: int) -> int"),
                      "main": Fn([], Block([Print(Call("apply", V("twice"), I(4))), Let("g", Call("mk")), Print(CallV(V("g"), I(1))),
                                            Print(Call("apply", FnLit(["a"], Block([], Bin("-", V("a"), I(1))), "int"), I(4))),
                                            Let("h", FnLit(["a", "b"], Block([Ret(Bin("+", V("a"), MCall(V("b"), "len")))]), "int", ["int", "str"])),
                                            Print(CallV(V("h"), I(1), S("xy")))]))})
    add("options", {"find": Fn(["l", "x"], Block([For("e", V("l"), Block([Expr(If(Bin("==", V("e"), V("x")), Block([Ret(Un("?", V("e")))])))]))], NoneV()),
                               "?int", ["[int]", "int"]),
                    "main": Fn([], Block([Let("r", Call("find", List(I(1), I(2)), I(2))), Print(V("r"), MCall(V("r"), "is_some")),
                                          Let("q", Call("find", List(I(1)), I(5))), Print(MCall(V("q"), "unwrap_or", I(0)))]))})
    add("control", {"cls": Fn(["n"], Block([], Match(V("n"), [([I(0)], S("zero")), ([I(1), I(2)], S("small"))], S("big"))), "str"),
                    "sign": Fn(["n"], Block([], If(Bin("<", V("n"), I(0)), Block([], Un("-", I(1))), Block([], If(Bin("==", V("n"), I(0)), Block([], I(0)), Block([], I(1)))))), "int"),
                    "safe": Fn(["a", "b"], Block([], Try(Block([], Bin("/", V("a"), V("b"))), "e", Block([Print(Mem(V("e"), "message"))], I(0)))), "int"),
                    "forever": Fn(["n"], Block([Let("i", I(0)), Loop(Block([Expr(If(Bin(">", V("i"), V("n")), Block([Ret(V("i"))]))), Expr(Asg(V("i"), I(1), "+="))]))]), "int"),
                    "count": Fn(["n"], Block([Let("i", I(0)), Loop(Block([Expr(If(Bin(">", V("i"), V("n")), Block([Break()]))), Expr(Asg(V("i"), I(1), "+="))])), Ret(V("i"))]), "int"),
                    "main": Fn([], Block([Print(Call("cls", I(1)), Call("sign", I(4)), Call("safe", I(1), I(0)), Call("forever", I(3)), Call("count", I(3))),
                                          Let("w", I(0)), While(Bin("<", V("w"), I(3)), Block([Expr(Asg(V("w"), I(1), "+=")), Expr(If(Bin("==", V("w"), I(2)), Block([Continue()])))])),
                                          For("c", S("ab"), Block([Print(V("c"))])), For("i", Range(I(0), I(2)), Block([Print(V("i"))])),
                                          Let("m", Match(B(True), [([B(True)], I(1))], I(2))), Print(V("m"))]))})
    # which loop a break belongs to: a `loop` that only contains breaks of inner for / while loops still diverges
    inner_for = For("k", Range(I(0), I(3)), Block([Expr(If(Bin("==", V("k"), V("n")), Block([Break()])))]))
    inner_while = While(B(True), Block([Break()]))
    for name, inner in (("for", [inner_for]), ("while", [inner_while]), ("both", [inner_for, inner_while])):
        add("loop_owner_" + name,
            {"find": Fn(["n"], Block([Let("i", I(0)), Loop(Block(inner + [Expr(If(Bin(">", V("i"), V("n")), Block([Ret(V("i"))]))),
                                                                          Expr(Asg(V("i"), I(1), "+="))]))]), "int"),
             "main": Fn([], Block([Print(Call("find", I(2)))]))})
    # ... also when the inner loop stands in an earlier function
    add("loop_owner_earlier",
        {"scan": Fn(["n"], Block([For("k", Range(I(0), I(9)), Block([Expr(If(Bin("==", V("k"), V("n")), Block([Break()])))])),
                                  While(B(True), Block([Break()]))]), "null"),
         "spin": Fn(["n"], Block([Let("i", I(0)), Loop(Block([Expr(If(Bin(">", V("i"), V("n")), Block([Ret(V("i"))]))), Expr(Asg(V("i"), I(1), "+="))]))]), "int"),
         "main": Fn([], Block([Expr(Call("scan", I(2))), Print(Call("spin", I(2)))]))})
    # ... and the other way round: a break of the outer `loop` inside an inner for does not end the for's owner
    add("loop_owner_outer_break",
        {"f": Fn(["n"], Block([Let("i", I(0)), Loop(Block([For("k", Range(I(0), I(2)), Block([Expr(Asg(V("i"), I(1), "+="))])),
                                                            Expr(If(Bin(">", V("i"), V("n")), Block([Break()])))])), Ret(V("i"))]), "int"),
         "main": Fn([], Block([Print(Call("f", I(3)))]))})
    # a diverging expression earlier in the module (or function) does not make a later endless loop terminate
    spin = Fn(["n"], Block([Let("i", I(0)), Loop(Block([Expr(If(Bin(">", V("i"), V("n")), Block([Ret(V("i"))]))), Expr(Asg(V("i"), I(1), "+="))]))]), "int")
    add("never_then_loop_fn",
        {"boom": Fn(["n"], Block([Expr(If(Bin(">", V("n"), I(100)), Block([Expr(Call("throw", S("too big")))])))], V("n")), "int"),
         "spin": spin, "main": Fn([], Block([Print(Call("boom", I(1)), Call("spin", I(2)))]))})
    add("never_then_loop_same",
        {"f": Fn(["n"], Block([Expr(If(Bin(">", V("n"), I(100)), Block([Expr(Call("throw", S("too big")))]))), Let("v", Block([Expr(If(Bin("<", V("n"), I(0)), Block([Ret(I(0))])))], I(1))),
                               Let("i", V("v")), Loop(Block([Expr(If(Bin(">", V("i"), V("n")), Block([Ret(V("i"))]))), Expr(Asg(V("i"), I(1), "+="))]))]), "int"),
         "main": Fn([], Block([Print(Call("f", I(2)))]))})
    # leaving the function from inside a loop (block ending in return as a match arm, a throw) is no way out of the loop
    add("loop_diverging_arm",
        {"f": Fn(["x"], Block([Loop(Block([Expr(Match(V("x"), [([I(1)], Block([Ret(I(1))]))], Block([Expr(Asg(V("x"), I(1), "-="))])))]))]), "int"),
         "g": Fn(["x"], Block([Loop(Block([Expr(If(Bin("<", V("x"), I(0)), Block([Expr(Call("throw", S("neg")))]))),
                                            Expr(If(Bin("==", V("x"), I(0)), Block([Expr(Block([Ret(S("zero"))]))]))), Expr(Asg(V("x"), I(1), "-="))]))]), "str"),
         "main": Fn([], Block([Print(Call("f", I(3)), Call("g", I(2)))]))})
    # type definitions: at module level and inside functions / blocks, the innermost definition of a name is meant
    def typed(name, fns, types=(), **kw):
        progs.append(Program("ty_" + name, fns, feats={"family": "typing", "form": name}, types=types, **kw))
    typed("typedef_shadowed",
          {"twice": Fn(["p"], Block([], Bin("*", V("p"), I(2))), "Id", ["Id"]),
           "main": Fn([], Block([Let("a", I(42), "Id"), Expr(Block([TypeDef("Id", "str"), Let("b", S("x"), "Id"), Print(V("b"), MCall(V("b"), "len")),
                                                                  Expr(Block([TypeDef("Id", "[int]"), Let("c", List(I(1)), "Id"), Print(MCall(V("c"), "len"))])),
                                                                  Let("d", S("y"), "Id"), Print(V("d"))])),
                                 Let("e", Call("twice", V("a")), "Id"), Print(V("a"), Bin("+", V("e"), I(1)))]))},
          types=[("Id", "int")])
    typed("typedef_local_only",
          {"main": Fn([], Block([TypeDef("Row", "{ k: int, l: [str] }"), Let("r", Obj(k=I(1), l=List(S("a"))), "Row"), Print(Mem(V("r"), "k"), Mem(V("r"), "l")),
                                 TypeDef("Rows", "[{ k: int, l: [str] }]"), Let("rs", List(V("r")), "Rows"), Print(MCall(V("rs"), "len")),
                                 Let("f", FnLit(["q"], Block([TypeDef("Row", "bool"), Let("t", B(True), "Row")], Bin("+", V("q"), I(1))), "int", ["int"])), Print(CallV(V("f"), I(1)))]))})
    typed("typedef_in_signature",
          {"pick": Fn(["rows", "i"], Block([], Idx(V("rows"), V("i"))), "Cell", ["Grid", "int"]),
           "main": Fn([], Block([Let("g", List(I(5), I(6)), "Grid"), Print(Call("pick", V("g"), I(1)))]))},
          types=[("Cell", "int"), ("Grid", "[int]")])
    # a match without default arm is left when nothing matches, even if every arm diverges: what follows is reached
    add("match_all_arms_diverge_no_default",
        {"check": Fn(["x"], Block([Expr(Match(V("x"), [([I(1)], Block([Ret(I(1))])), ([I(2), I(3)], Block([Expr(Call("throw", S("two")))]))])), Print(S("after"))], I(5)), "int", ["int"]),
         "main": Fn([], Block([Print(Call("check", I(1)), Call("check", I(4)))]))})
    add("match_all_arms_diverge_with_default",
        {"check": Fn(["x"], Block([], Match(V("x"), [([I(1)], Block([Ret(I(1))]))], Block([Ret(I(9))]))), "int", ["int"]),
         "main": Fn([], Block([Print(Call("check", I(1)), Call("check", I(4)))]))})
    # impl blocks against the host's template FooFeature (capability light requires dim(percent: int) -> bool,
    # temperature requires set_temp(celsius: float), the two exclude each other) and trigger statements
    dev = ("$Device", "{ is_online: bool, current_brightness: int }", Obj(is_online=B(False), current_brightness=I(0)))
    dim = Fn(["percent"], Block([Expr(If(Bin("==", Mem(V("self"), "current_brightness"), V("percent")), Block([Ret(B(False))]))),
                                 Expr(Asg(Mem(V("self"), "current_brightness"), V("percent")))], B(True)), "bool", ["int"], sps=[("self", "$Device")])
    set_temp = Fn(["celsius"], Block([Print(S("temp"), V("celsius"), Mem(V("self"), "is_online"))]), "null", ["float"], sps=[("self", "$Device")])
    progs.append(Program("ty_impl_light", {"dim": dim, "main": Fn([], Block([Print(Call("dim", I(42)), Call("dim", I(42)), Mem(V("$Device"), "current_brightness"))]))},
                         sings=[dev], imports=["import templ FooFeature from templates;"],
                         impls=[{"templ": "FooFeature", "caps": ["light"], "sing": "$Device", "methods": ["dim"]}],
                         feats={"family": "typing", "template": "impl_light"}))
    progs.append(Program("ty_impl_temperature", {"set_temp": set_temp, "main": Fn([], Block([Expr(Call("set_temp", F(43, 1)))]))},
                         sings=[dev], imports=["import templ FooFeature from templates;"],
                         impls=[{"templ": "FooFeature", "caps": ["temperature"], "sing": "$Device", "methods": ["set_temp"]}],
                         feats={"family": "typing", "template": "impl_temperature"}))
    cb = Fn(["elapsed"], Block([Print(S("cb"), V("elapsed"))]), event=True)
    progs.append(Program("ty_trigger", {"cb": cb, "other": Fn(["e"], Block([Print(V("e"))]), event=True),
                                        "arm": Fn(["n"], Block([Trigger("cb", "minute", V("n")), Trigger("other", "minute", Bin("+", V("n"), I(1)))])),
                                        "main": Fn([], Block([Expr(Call("arm", I(5))), Trigger("cb", "minute", I(1))]))},
                         imports=["import trigger minute from triggers;"], feats={"family": "typing", "template": "trigger", "vm_only": True}))
    add("globals", {"bump": Fn([], Block([Expr(Asg(V("cnt"), I(1), "+=")), Expr(MCall(V("names"), "push", S("x")))]), "null"),
                    "main": Fn([], Block([Expr(Call("bump")), Print(V("cnt"), V("names"), Mem(V("conf"), "depth"), V("ratio"), V("limit"))]))},
        globs=[("cnt", I(0)), ("names", List(S("a"))), ("conf", Obj(depth=I(2), tag=S("t"))), ("ratio", Bin("/", F(1, 0), F(2, 0))), ("limit", Un("-", I(5)))])
    add("spawn", {"work": Fn(["a", "l"], Block([Print(V("a"), V("l"))], Bin("+", V("a"), I(1))), "int", ["int", "[int]"]),
                  "main": Fn([], Block([Let("h", Spawn("work", I(1), List(I(2)))), Let("r", MCall(V("h"), "join")), Print(Bin("+", V("r"), I(1)))]))}, vm_only=True)
    # what crosses to another thread: data at any depth, a function value at no depth
    FT = "fn(a: int) -> int"
    for tag, pt, arg in (("plain", FT, V("twice")), ("in_list", "[%s]" % FT, List(V("twice"))), ("in_object", "{ f: %s }" % FT, Obj(f=V("twice"))),
                         ("in_option", "?%s" % FT, Un("?", V("twice"))), ("in_list_of_objects", "[{ f: %s, n: int }]" % FT, List(Obj(f=V("twice"), n=I(1)))),
                         ("literal_in_list", "[%s]" % FT, List(FnLit(["a"], Block([], Bin("+", V("a"), I(1))), "int"))),
                         ("data_deep", "[{ l: [int], o: ?str }]", List(Obj(l=List(I(1)), o=Un("?", S("s")))))):
        for how in ("spawn", "call"):
            add("thread_arg_%s_%s" % (tag, how),
                {"twice": Fn(["a"], Block([], Bin("*", V("a"), I(2))), "int"),
                 "work": Fn(["x", "n"], Block([Print(V("n"))], Bin("+", V("n"), I(1))), "int", [pt, "int"]),
                 "main": Fn([], Block([Let("h", Spawn("work", arg, I(1))), Print(MCall(V("h"), "join"))] if how == "spawn" else
                                      [Print(Call("work", arg, I(1)))]))}, vm_only=True,
                **({"refused": True} if how == "spawn" and tag != "data_deep" else {}))
    # what can be started as a thread: a function definition; what the handle offers: join, giving the function's result
    TW = {"twice": Fn(["a"], Block([], Bin("*", V("a"), I(2))), "int"), "mk": Fn([], Block([], FnLit(["a"], Block([], V("a")), "int")), FT),
          "quiet": Fn(["a"], Block([Print(V("a"))]), "null", ["int"])}
    add("thread_join", dict(TW, main=Fn([], Block([Let("h", Spawn("twice", I(2))), Let("r", MCall(V("h"), "join")), Print(Bin("+", V("r"), I(1))),
                                                  Let("q", Spawn("quiet", I(1))), Expr(MCall(V("q"), "join")),
                                                  Let("hs", List(Spawn("twice", I(3)), Spawn("twice", I(4)))),
                                                  For("x", V("hs"), Block([Print(CallV(Mem(V("x"), "join")))]))]))), vm_only=True)
    for tag, stmts in (("fn_value", [Let("f", V("twice")), Expr(Spawn("f", I(1)))]),
                       ("fn_literal", [Let("f", FnLit(["a"], Block([], V("a")), "int")), Expr(Spawn("f", I(1)))]),
                       ("builtin", [Expr(Spawn("println", I(1)))]),
                       ("parameter_named_like_function", None),
                       ("returns_function", [Expr(Spawn("mk"))]),
                       ("local_named_like_function", [Let("twice", V("twice")), Expr(Spawn("twice", I(1)))])):
        fns = dict(TW)
        if stmts is None:
            fns["go"] = Fn(["twice"], Block([Expr(Spawn("twice", I(1)))]), "null", [FT])
            stmts = [Expr(Call("go", V("twice")))]
        fns["main"] = Fn([], Block(stmts))
        add("thread_start_" + tag, fns, vm_only=True, refused=True)
    add("shadow_types", main(Let("x", I(1)), Print(Bin("+", V("x"), I(1))), Let("x", S("s")), Print(Bin("+", V("x"), S("t"))),
                             Expr(Block([Let("x", List(B(True))), Print(Idx(V("x"), I(0)))])), Print(MCall(V("x"), "len"))))
    if not ill:
        progs = [p for p in progs if not p["feats"].get("refused")]
    return progs
