"""Spec-AST programs: builders, renderer (AST -> source text + node spans), expected-text rendering.

The AST is the JSON form HmsSem.tla reads (DESIGN.md appendix A).  Every node that can be the
culprit of a runtime failure carries a path id `p`; the renderer records where each `p` starts
and ends in the generated text.
"""
import itertools
import json
import re

NIL = {"k": "nil"}

_pid = itertools.count(1)


def newp():
    return next(_pid)


# ---- expression builders -------------------------------------------------------------------
def I(v):
    return {"k": "int", "v": v}


def F(n, s=0):
    return {"k": "flt", "n": n, "s": s}


def B(v):
    return {"k": "bool", "v": bool(v)}


def S(s):
    return {"k": "str", "cs": [ord(c) for c in s]}


def Null():
    return {"k": "null"}


def NoneV():
    return {"k": "none"}


def V(x):
    return {"k": "var", "x": x}


def Un(op, e):
    return {"k": "un", "op": op, "e": e, "p": newp()}


def Bin(op, l, r):
    return {"k": "bin", "op": op, "l": l, "r": r, "p": newp()}


def Call(f, *args):
    return {"k": "call", "f": f, "args": list(args), "p": newp()}


def Spawn(f, *args):
    return {"k": "spawn", "f": f, "args": list(args), "p": newp()}


def CallV(e, *args):
    return {"k": "callv", "e": e, "args": list(args), "p": newp()}


def List(*es):
    return {"k": "list", "es": list(es)}


def Obj(**fs):
    return {"k": "obj", "fs": [{"key": k, "e": e} for k, e in fs.items()]}


def Idx(e, i):
    return {"k": "idx", "e": e, "i": i, "p": newp()}


def Mem(e, m):
    return {"k": "mem", "e": e, "m": m, "p": newp()}


def MCall(e, m, *args):
    return {"k": "mcall", "e": e, "m": m, "args": list(args), "p": newp()}


def Range(l, r, incl=False):
    return {"k": "range", "l": l, "r": r, "incl": incl}


def Asg(pl, e, op="="):
    return {"k": "asg", "op": op, "pl": pl, "e": e, "p": newp()}


def Block(ss=(), e=None):
    return {"k": "block", "ss": list(ss), "e": e if e is not None else NIL}


def If(c, th, el=None):
    return {"k": "if", "c": c, "th": th, "el": el if el is not None else NIL}


def Match(e, arms, dflt=None):
    return {"k": "match", "e": e, "arms": [{"lits": list(l), "e": a} for l, a in arms],
            "dflt": dflt if dflt is not None else NIL}


def FnLit(ps, body, ret="null", pts=None):
    return {"k": "fnlit", "ps": list(ps), "pts": pts or ["int"] * len(ps), "ret": ret, "body": body}


def Try(b, x, c):
    return {"k": "try", "b": b, "x": x, "c": c}


# ---- statements ----------------------------------------------------------------------------
def Let(x, e, t=None):
    """t: optional type annotation (text)"""
    n = {"k": "let", "x": x, "e": e}
    if t is not None:
        n["t"] = t
    return n


def TypeDef(name, ty):
    """statement `type name = ty;`"""
    return {"k": "typedef", "n": name, "t": ty}


def As(e, ty):
    return {"k": "cast", "e": e, "ty": ty, "p": newp()}


def Expr(e):
    return {"k": "expr", "e": e}


def Ret(e=None):
    return {"k": "ret", "e": e if e is not None else NIL, "p": newp()}


def Break():
    return {"k": "break", "p": newp()}


def Continue():
    return {"k": "continue", "p": newp()}


def Loop(b):
    return {"k": "loop", "b": b}


def While(c, b):
    return {"k": "while", "c": c, "b": b}


def For(x, e, b):
    return {"k": "for", "x": x, "e": e, "b": b, "p": newp()}


def Print(*args):
    return Expr(Call("println", *args))


def Fn(ps, body, ret="null", pts=None, sps=(), event=False):
    """sps: singleton parameters [(param, "$Singleton")], bound by the callee, not passed by the caller"""
    return {"ps": [p for p in ps], "pts": pts or ["int"] * len(ps), "ret": ret, "body": body,
            "sps": [list(x) for x in sps], "event": event}


def Trigger(cb, ev, *args):
    return {"k": "trigger", "cb": cb, "ev": ev, "args": list(args), "p": newp()}


def Program(pid, fns, globs=(), feats=None, sings=(), host=None, imports=(), impls=(), types=()):
    """sings: [(name, type text, zero value expr)]; host: {name: (value expr, JV)} values the host provides;
    impls: [{"templ", "caps" (list or None), "sing", "methods": [function names]}] - the methods are entries of fns"""
    host = host or {}
    def zero(t, z):
        if z is not None:
            return z
        from . import tyspec      # (the specification derives the default value from the declared type: HmsSem DefaultExpr)
        return {"k": "default", "t": tyspec.parse_type(t)}
    sg = [{"x": n, "e": (host[n][0] if n in host else zero(t, z)), "decl": t} for n, t, z in sings]
    return {"id": pid, "fns": fns, "globals": sg + [{"x": x, "e": e} for x, e in globs], "feats": feats or {},
            "host": {n: v[1] for n, v in host.items()}, "imports": list(imports), "impls": [dict(i) for i in impls],
            "types": [{"n": n, "t": t} for n, t in types]}


# ---- rendering -----------------------------------------------------------------------------
KEYWORDS = {"fn", "let", "if", "else", "match", "try", "catch", "loop", "while", "for", "in", "break", "continue", "return", "true", "false",
            "null", "none", "new", "as", "pub", "import", "from", "type", "templ", "impl", "with", "trigger", "event", "spawn", "on", "off", "_"}


class W:
    def __init__(self, minimal=False):
        self.minimal = minimal       # write only the parentheses the operator table requires
        self.buf = []
        self.line = 1
        self.col = 1
        self.idx = 0
        self.spans = {}

    def w(self, s):
        for ch in s:
            if ch == "\n":
                self.line += 1
                self.col = 1
            else:
                self.col += 1
            self.idx += 1
        self.buf.append(s)

    def pos(self):
        return (self.line, self.col, self.idx)

    def mark(self, p, start):
        # end is inclusive: the position of the last character written
        self.spans[p] = {"s": start, "e": (self.line, self.col - 1, self.idx - 1)}

    def text(self):
        return "".join(self.buf)


def esc(cs):
    out = []
    for c in cs:
        ch = chr(c)
        if ch == "\\":
            out.append("\\\\")
        elif ch == '"':
            out.append('\\"')
        elif ch == "\n":
            out.append("\\n")
        elif ch == "\t":
            out.append("\\t")
        elif c < 32:
            out.append("\\x%02x" % c)
        else:
            out.append(ch)
    return '"' + "".join(out) + '"'


def flt_text(n, s):
    """decimal text of the dyadic rational n / 2^s, always with a decimal point"""
    neg = n < 0
    n = abs(n)
    ip = n >> s
    frac = n - (ip << s)
    digits = ""
    while frac:
        frac *= 10
        digits += str(frac >> s)
        frac &= (1 << s) - 1
    t = "%d.%s" % (ip, digits or "0")
    return "(-%s)" % t if neg else t


def r_base(w, n, ind):
    """the base of an index / member / method call"""
    need = w.minimal and n.get("k") in ("bin", "un", "cast", "if", "match", "try", "block", "fnlit", "range", "asg")
    if need:
        w.w("(")
    r_expr(w, n, ind)
    if need:
        w.w(")")


LEVEL = {"||": 2, "&&": 3, "|": 4, "^": 5, "&": 6, "==": 7, "!=": 7, "<": 8, ">": 8, "<=": 8, ">=": 8, "<<": 9, ">>": 9,
         "+": 10, "-": 10, "*": 11, "/": 11, "%": 11, "as": 12, "**": 13}


def r_operand(w, n, ind, parent_level, side, parent_op=None):
    """an operand in minimal-parentheses mode: parenthesised only where the operator table (HmsExpr) requires it"""
    k = n.get("k")
    need = False
    if k == "bin" or k == "cast":
        lv = LEVEL[n["op"]] if k == "bin" else LEVEL["as"]
        right_assoc = parent_op == "**"
        need = lv < parent_level or (lv == parent_level and ((side == "r") != right_assoc))
    elif k == "un":
        need = parent_level >= 99 or (side == "r" and parent_op in ("-", "+") and n["op"] == "-") or parent_op == "**"
    elif k == "int" and n["v"] < 0:
        need = False        # (negative literals are written with their own parentheses)
    elif k in ("if", "match", "try", "block", "fnlit", "range", "asg"):
        need = True
    if need:
        w.w("(")
    r_expr(w, n, ind)
    if need:
        w.w(")")


def r_expr(w, n, ind):
    k = n["k"]
    start = w.pos()
    if k == "int":
        w.w(str(n["v"]) if n["v"] >= 0 else "(-%d)" % -n["v"])
    elif k == "flt":
        w.w(flt_text(n["n"], n["s"]))
    elif k == "bool":
        w.w("true" if n["v"] else "false")
    elif k == "str":
        w.w(esc(n["cs"]))
    elif k == "null":
        w.w("null")
    elif k == "none":
        w.w("none")
    elif k == "var":
        w.w(n["x"])
    elif k == "un" and not w.minimal:
        w.w("(" + n["op"])
        r_expr(w, n["e"], ind)
        w.w(")")
    elif k == "bin" and not w.minimal:
        w.w("(")
        r_expr(w, n["l"], ind)
        w.w(" %s " % n["op"])
        r_expr(w, n["r"], ind)
        w.w(")")
    elif k == "un":
        # minimal parentheses: a prefix operator binds tighter than every binary operator
        w.w(n["op"])
        r_operand(w, n["e"], ind, 99, "r")
    elif k == "bin":
        lv = LEVEL[n["op"]]
        r_operand(w, n["l"], ind, lv, "l", n["op"])
        w.w(" %s " % n["op"])
        r_operand(w, n["r"], ind, lv, "r", n["op"])
    elif k == "call":
        w.w(n["f"] + "(")
        for i, a in enumerate(n["args"]):
            if i:
                w.w(", ")
            r_expr(w, a, ind)
        w.w(")")
    elif k == "spawn":
        w.w("spawn " + n["f"] + "(")
        for i, a in enumerate(n["args"]):
            if i:
                w.w(", ")
            r_expr(w, a, ind)
        w.w(")")
    elif k == "callv":
        w.w("(")
        r_expr(w, n["e"], ind)
        w.w(")(")
        for i, a in enumerate(n["args"]):
            if i:
                w.w(", ")
            r_expr(w, a, ind)
        w.w(")")
    elif k == "list":
        w.w("[")
        for i, a in enumerate(n["es"]):
            if i:
                w.w(", ")
            r_expr(w, a, ind)
        w.w("]")
    elif k == "obj":
        w.w("new { ")
        for i, f in enumerate(n["fs"]):
            if i:
                w.w(", ")
            bare = re.fullmatch(r"[A-Za-z_][A-Za-z0-9_]*", f["key"]) and f["key"] not in KEYWORDS
            w.w((f["key"] if bare else esc([ord(c) for c in f["key"]])) + ": ")
            r_expr(w, f["e"], ind)
        w.w(" }")
    elif k == "idx":
        r_base(w, n["e"], ind)
        w.w("[")
        r_expr(w, n["i"], ind)
        w.w("]")
    elif k == "mem":
        r_base(w, n["e"], ind)
        w.w("." + n["m"])
    elif k == "mcall":
        r_base(w, n["e"], ind)
        w.w("." + n["m"] + "(")
        for i, a in enumerate(n["args"]):
            if i:
                w.w(", ")
            r_expr(w, a, ind)
        w.w(")")
    elif k == "range" and w.minimal:
        # `..` binds tighter than every infix operator and weaker than prefix and postfix forms: only infix operands,
        # casts and block-like values need parentheses (the range itself gets them from its context)
        def bound(x):
            bare = x["k"] in ("var", "call", "callv", "mcall", "idx", "mem", "str", "list", "un", "flt") or (x["k"] == "int" and x["v"] >= 0)
            if not bare:
                w.w("(")
            r_expr(w, x, ind)
            if not bare:
                w.w(")")
        w.w("(")
        bound(n["l"])
        w.w("..=" if n["incl"] else "..")
        bound(n["r"])
        w.w(")")
    elif k == "range":
        w.w("((")
        r_expr(w, n["l"], ind)
        w.w(")..=(" if n["incl"] else ")..(")
        r_expr(w, n["r"], ind)
        w.w("))")
    elif k == "asg":
        r_expr(w, n["pl"], ind)
        w.w(" %s " % n["op"])
        r_expr(w, n["e"], ind)
    elif k == "block":
        r_block(w, n, ind)
    elif k == "if":
        w.w("if ")
        r_expr(w, n["c"], ind)
        w.w(" ")
        r_block(w, n["th"], ind)
        if n["el"]["k"] != "nil":
            w.w(" else ")
            r_block(w, n["el"], ind)
    elif k == "match":
        w.w("match ")
        r_expr(w, n["e"], ind)
        w.w(" {\n")
        for a in n["arms"]:
            w.w("    " * (ind + 1))
            for i, l in enumerate(a["lits"]):
                if i:
                    w.w(" | ")
                r_lit(w, l)
            w.w(" => ")
            r_expr(w, a["e"], ind + 1)
            w.w(",\n")
        if n["dflt"]["k"] != "nil":
            w.w("    " * (ind + 1) + "_ => ")
            r_expr(w, n["dflt"], ind + 1)
            w.w(",\n")
        w.w("    " * ind + "}")
    elif k == "try":
        w.w("try ")
        r_block(w, n["b"], ind)
        w.w(" catch %s " % n["x"])
        r_block(w, n["c"], ind)
    elif k == "fnlit":
        w.w("fn(%s)" % ", ".join("%s: %s" % (a, t) for a, t in zip(n["ps"], n["pts"])))
        if n["ret"] != "null":
            w.w(" -> " + n["ret"])
        w.w(" ")
        r_block(w, n["body"], ind)
    elif k == "cast" and w.minimal:
        r_operand(w, n["e"], ind, LEVEL["as"], "l", "as")
        w.w(" as %s" % n["ty"])
    elif k == "cast":
        w.w("(")
        r_expr(w, n["e"], ind)
        w.w(" as %s)" % n["ty"])
    else:
        raise ValueError("cannot render expression kind %r" % k)
    if "p" in n:
        w.mark(n["p"], start)


def r_lit(w, n):
    k = n["k"]
    if k == "int":
        w.w(str(n["v"]) if n["v"] >= 0 else "-%d" % -n["v"])
    elif k == "bool":
        w.w("true" if n["v"] else "false")
    elif k == "str":
        w.w(esc(n["cs"]))
    elif k == "null":
        w.w("null")
    elif k == "none":
        w.w("none")
    elif k == "flt":
        t = flt_text(abs(n["n"]), n["s"])
        w.w(("-" if n["n"] < 0 else "") + t)
    else:
        raise ValueError("match literal kind %r" % k)


def r_block(w, n, ind):
    w.w("{\n")
    for s in n["ss"]:
        w.w("    " * (ind + 1))
        r_stmt(w, s, ind + 1)
        w.w("\n")
    if n["e"]["k"] != "nil":
        w.w("    " * (ind + 1))
        r_expr(w, n["e"], ind + 1)
        w.w("\n")
    w.w("    " * ind + "}")


def r_stmt(w, n, ind):
    k = n["k"]
    start = w.pos()
    if k == "typedef":
        w.w("type %s = %s;" % (n["n"], n["t"]))
    elif k == "let":
        w.w("let %s%s = " % (n["x"], ": " + n["t"] if n.get("t") else ""))
        r_expr(w, n["e"], ind)
        w.w(";")
    elif k == "expr":
        r_expr(w, n["e"], ind)
        w.w(";")
    elif k == "ret":
        if n["e"]["k"] == "nil":
            w.w("return;")
        else:
            w.w("return ")
            r_expr(w, n["e"], ind)
            w.w(";")
    elif k == "break":
        w.w("break;")
    elif k == "continue":
        w.w("continue;")
    elif k == "loop":
        w.w("loop ")
        r_block(w, n["b"], ind)
    elif k == "while":
        w.w("while ")
        r_expr(w, n["c"], ind)
        w.w(" ")
        r_block(w, n["b"], ind)
    elif k == "trigger":
        w.w("trigger %s at %s(" % (n["cb"], n["ev"]))
        for i, a in enumerate(n["args"]):
            if i:
                w.w(", ")
            r_expr(w, a, ind)
        w.w(");")
    elif k == "for":
        w.w("for %s in " % n["x"])
        r_expr(w, n["e"], ind)
        w.w(" ")
        r_block(w, n["b"], ind)
    else:
        raise ValueError("cannot render statement kind %r" % k)
    if "p" in n:
        w.mark(n["p"], start)


def render(prog, minimal=False):
    """-> (source text, spans: p -> {s:(l,c,i), e:(l,c,i)}); minimal: only the parentheses the operator table requires
    (the spans then cover the operator expression without parentheses)"""
    w = W(minimal)
    for imp in prog.get("imports", ()):
        w.w(imp + "\n")
    for td in prog.get("types", ()):
        w.w("type %s = %s;\n" % (td["n"], td["t"]))
    for g in prog["globals"]:
        if "decl" in g:                      # a singleton: declared by its type, initialised by the host / zero value
            w.w("%s = %s;\n" % (g["x"], g["decl"]))
            continue
        w.w("let %s%s = " % (g["x"], ": " + g["t"] if g.get("t") else ""))
        r_expr(w, g["e"], 0)
        w.w(";\n")
    if prog["globals"]:
        w.w("\n")
    def r_fn(name, f, ind):
        params = ["%s: %s" % (p, sname) for p, sname in f.get("sps", [])] + ["%s: %s" % (p, t) for p, t in zip(f["ps"], f["pts"])]
        w.w("%sfn %s(%s)" % ("event " if f.get("event") else "", name, ", ".join(params)))
        if f["ret"] != "null":
            w.w(" -> " + f["ret"])
        w.w(" ")
        r_block(w, f["body"], ind)
        w.w("\n\n")

    in_impl = set()
    for im in prog.get("impls", ()):
        caps = "" if im.get("caps") is None else " with { %s }" % ", ".join(im["caps"])
        w.w("impl %s%s for %s {\n" % (im["templ"], caps, im["sing"]))
        for m in im["methods"]:
            in_impl.add(m)
            w.w("    ")
            r_fn(m, prog["fns"][m], 1)
        w.w("}\n\n")
    names = [f for f in prog["fns"] if f != "main" and f not in in_impl] + (["main"] if "main" in prog["fns"] else [])
    todo = [(name, prog["fns"][name]) for name in names] + [(name, f) for name, f in prog.get("dupfns", ())]
    for name, f in todo:
        r_fn(name, f, 0)
    return w.text(), w.spans


def spec_json(prog):
    """the program as HmsSem reads it (types and feature tags dropped)"""
    fns = {n: {"ps": f["ps"], "sps": f.get("sps", []), "body": f["body"]} for n, f in prog["fns"].items()}
    return json.dumps({"id": prog["id"], "fns": fns, "globals": [{"x": g["x"], "e": g["e"]} for g in prog["globals"]]})


# ---- expected text ---------------------------------------------------------------------------
class PosRef:
    def __init__(self, p, what):
        self.p, self.what = p, what


def show(v):
    """display tree (from HmsSem.Show) -> list of str / PosRef fragments, following Display()"""
    k = v["k"]
    if k == "int":
        return [str(v["v"])]
    if k == "bool":
        return ["true" if v["v"] else "false"]
    if k == "str":
        return ["".join(chr(c) for c in v["cs"])]
    if k == "null":
        return ["null"]
    if k == "none":
        return ["none"]
    if k == "some":
        return ["Some("] + show(v["v"]) + [")"]
    if k == "flt":
        n, s = v["n"], v["s"]
        if s == 0:
            return [str(n)]
        t = flt_text(abs(n), s)
        return [("-" if n < 0 else "") + t]
    if k == "list":
        out = ["["]
        for i, e in enumerate(v["es"]):
            if i:
                out.append(", ")
            out += show(e)
        return out + ["]"]
    if k == "range":
        return ["%d..%d" % (v["l"], v["r"])]
    if k == "shown":
        return show(v["v"])
    if k == "pos":
        return [PosRef(v["p"], v["what"])]
    if k == "obj":
        # fields in sorted name order (C14: nothing shown depends on map iteration order)
        if not v["ks"]:
            return ["{\n    \n}"]
        out = ["{\n    "]
        for i, (key, val) in enumerate(sorted(zip(v["ks"], v["vs"]), key=lambda kv: kv[0])):
            if i:
                out.append(",\n    ")
            inner = show(val)
            inner = [x.replace("\n", "\n    ") if isinstance(x, str) else x for x in inner]
            out += ["%s: " % key] + inner
        return out + ["\n}"]
    if k == "fn":
        return ["<closure>" if v.get("lit") else "<function>"]
    if k == "handle":
        return ["{\n    join: <builtin-function>\n}"]
    if k == "anymsg":
        return [AnyMsg()]
    raise ValueError("cannot show %r" % k)


class Unordered:
    """an object with several fields: the display order of fields is not defined"""

    def __init__(self, v):
        self.v = v


class AnyText:
    pass


class AnyMsg:
    """the text of a message the specification leaves to the host library"""


def expected_pattern(out_events, entry="main"):
    """regex for the whole program output + list of (group name, p, what)"""
    parts = []
    groups = []
    n = 0
    for ev in out_events:
        if ev["w"] == "trigger":
            continue
        frs = []
        for i, v in enumerate(ev["vs"]):
            if i:
                frs.append(" ")
            frs += show(v)
        if ev["w"] == "println":
            frs.append("\n")
        for f in frs:
            if isinstance(f, str):
                parts.append(re.escape(f))
            elif isinstance(f, PosRef):
                n += 1
                g = "g%d" % n
                if f.what == "filename":
                    parts.append("(?P<%s>[A-Za-z0-9_]+)" % g)
                else:
                    parts.append("(?P<%s>[0-9]+)" % g)
                groups.append((g, f.p, f.what))
            elif isinstance(f, Unordered):
                parts.append(r"\{[^{}]*\}")
            elif isinstance(f, AnyText):
                parts.append(r"<[^<>]*>")
            elif isinstance(f, AnyMsg):
                parts.append(r"[^\n]*")
    return "".join(parts), groups


def plain_text(out_events):
    """expected output when it contains no positions / unordered objects; else None"""
    buf = []
    for ev in out_events:
        if ev["w"] == "trigger":
            continue
        frs = []
        for i, v in enumerate(ev["vs"]):
            if i:
                frs.append(" ")
            frs += show(v)
        if ev["w"] == "println":
            frs.append("\n")
        for f in frs:
            if not isinstance(f, str):
                return None
            buf.append(f)
    return "".join(buf)


def expected_triggers(out_events):
    out = []
    for ev in out_events:
        if ev["w"] == "trigger":
            out.append((ev["cb"], ev["ev"], ["".join(x for x in show(v) if isinstance(x, str)) for v in ev["vs"]]))
    return out
