"""C14 - analysis, compilation and execution are deterministic.

The specifications are deterministic where the language is: HmsSem has exactly one behaviour per program
(one terminal state is exported per program, checked here), HmsLink lets the host / compiler visit the
modules in any order and proves the output independent of it (OrderIndependent).  So the specified output
and outcome are THE result, and every repetition of analyse + compile + run of the same sources - under
fresh map iteration orders, other GOMAXPROCS, seeded yields in the hooks, other histories of the process -
must produce it; the diagnostics of every repetition must be the same multiset.
"""
import json
import random

from . import common as C
from . import c15
from . import c05
from . import families as Fam
from . import progs as P
from . import sem


def diag_inputs(pool, rnd, per):
    """sources with several diagnostics: token-level mutants of valid programs (errors) and the valid
    programs themselves (warnings for unused names)"""
    valid = [P.render(p)[0] for p in Fam.order_programs(C.seed()) + Fam.template_programs()[:30] + Fam.singleton_programs()[:10]]
    toks = c05.token_texts(pool, valid)
    out = []
    for src, tk in zip(valid, toks):
        out.append(src)
        if tk:
            out += c05.mutations(tk, rnd, per)
    # many unused names in one module: the warnings must be the same set every time
    out.append("".join("fn u%d() { let a%d = %d; let b%d = a%d; }\n" % (i, i, i, i, i) for i in range(25)) + "fn main() { }\n")
    out.append("".join("let g%d = %d;\n" % (i, i) for i in range(30)) + "fn main() { let x = nope1 + nope2 + nope3; y = 1; z(); }\n")
    # several things that are wrong in the same way: which one is named first / at all must not depend on a map order
    out.append("import templ FooFeature from templates;\n$Device = { is_online: bool, current_brightness: int };\n\n"
               "impl FooFeature with { light, temperature } for $Device {\n    fn dim(self: $Device, percent: int) -> bool { true }\n"
               "    fn set_temp(self: $Device, celsius: float) { }\n}\n\nfn main() { }\n")
    out.append("import templ FooFeature from templates;\n$Device = { a: int };\n\nimpl FooFeature with { temperature, light } for $Device {\n"
               "    fn other(self: $Device) { }\n    fn more(self: $Device) { }\n}\n\nfn main() { }\n")
    out.append("import { a, b, c, d } from nowhere;\nimport { e, f } from elsewhere;\nfn main() { a(); b(); c(); d(); e(); f(); }\n")
    out.append("type A = { x: B, y: C, z: D };\nfn f(p: E, q: F) -> G { }\nfn main() { let v: H = 1; }\n")
    return list(dict.fromkeys(out))


def run(args):
    thorough = C.tier() == "thorough"
    reps = 8 if thorough else 4
    # (1) module graphs: HmsLink, every graph analysed / compiled / run `reps` times per backend
    rc = c15.run(args, prop="C14", reps=reps, finish=False)
    rep = rc
    rnd = random.Random(C.seed())
    rep.cov["rule"] = ("every repetition (%d per backend; fresh map orders, GOMAXPROCS 1/4/16, seeded yields, different process "
                       "histories) of analyse+compile+run must give the specified result: (1) HmsLink module graphs (OrderIndependent "
                       "proved over all module visiting orders), (2) HmsSem programs with many-field objects, many locals, functions and "
                       "globals plus the template / lambda / singleton families (one specified behaviour each), (2c) programs that run into "
                       "a call / stack / memory limit: output, interrupt and message of every repetition, (3) the diagnostics "
                       "multiset of sources with several errors and warnings; non-trivial = distinct sources" % reps)
    pool = C.Pool(C.build_worker())
    # (2) single-module programs with one specified behaviour
    progs = Fam.order_programs(C.seed()) + Fam.template_programs() + Fam.lambda_programs() + Fam.singleton_programs() + \
        [p for p in Fam.closure_programs() if p["feats"]["variant"] in ("read-direct", "write", "list", "loop", "nested", "global", "shadow-inner", "shadow-later")]
    progs += Fam.random_programs(150 if thorough else 30, C.seed() + 14)
    results, cases, rendered = sem.run_programs(progs, rep, backends=("vm", "tree"), pool=pool, reps=reps)
    # (2b) programs of several modules whose output shows names the compiler makes up
    multi = [
        {"main": "import lf from lib;\nimport kf from kit;\nfn main() { let f = fn() -> int { 1 }; println(f); lf(); kf(); let g = fn() -> int { 2 }; println(g); }\n",
         "lib": "pub fn lf() { let g = fn() -> int { 2 }; let h = fn() -> int { 3 }; println(g, h); }\nfn main() { }\n",
         "kit": "let names = [\"a\"];\npub fn kf() { let k = fn(a: int) -> int { a }; println(k, names); }\nfn main() { }\n"},
    ]
    # many functions in several modules + a function literal that uses a local of its maker (a sort or a map over the
    # functions of the whole program decides which slots it reads)
    big = {"main": "".join("import m%d_f0 from m%d;\n" % (k, k) for k in range(4)) +
           "fn main() { let a = 1; let x = 5; let f = fn() -> int { x + 1 }; println(f(), a); " +
           " ".join("m%d_f0();" % k for k in range(4)) + " let y = 7; let g = fn() -> int { y * 2 }; println(g(), x, a); }\n"}
    for k in range(4):
        big["m%d" % k] = "let base = %d;\n" % (k * 10) + "".join(
            "%sfn m%d_f%d() { let p = %d; let q = base + p; let h = fn() -> int { q + 1 }; println(\"m%d.f%d\", h(), p); %s}\n" %
            ("pub " if j == 0 else "", k, j, j, k, j, ("m%d_f%d(); " % (k, j + 1)) if j < 4 else "") for j in range(5)) + "fn main() { }\n"
    multi.append(big)
    # the same name imported by different modules from different modules (a table keyed by the bare name would let the map
    # order decide), functions and globals alike
    multi.append({
        "main": "import describe from kitchen;\nimport level from kitchen;\nimport show from garage;\nimport peek from cellar;\n"
                "fn main() { println(\"main:\", describe(), level); show(); peek(); println(\"main:\", describe(), level); }\n",
        "garage": "import describe from tools;\nimport level from tools;\npub fn show() { println(\"garage:\", describe(), level); }\nfn main() { }\n",
        "cellar": "import describe from shelf;\nimport level from shelf;\npub fn peek() { println(\"cellar:\", describe(), level); }\nfn main() { }\n",
        "kitchen": "pub let level = 1;\npub fn describe() -> str { \"kitchen\" }\nfn main() { }\n",
        "tools": "pub let level = 2;\npub fn describe() -> str { \"tools\" }\nfn main() { }\n",
        "shelf": "pub let level = 3;\npub fn describe() -> str { \"shelf\" }\nfn main() { }\n"})
    # libraries whose initializer consists of host imports only (no globals), reached directly and through each other
    multi.append({"main": "import check from util;\nimport probe from deep;\nfn main() { check(); probe(); println(\"done\"); }\n",
                  "util": "import tag from hostb;\npub fn check() { println(\"checked\", tag()); }\nfn main() { }\n",
                  "deep": "import look from deeper;\npub fn probe() { look(); }\nfn main() { }\n",
                  "deeper": "import { tag, num } from hosta;\npub fn look() { println(\"looked\", tag(), num); }\nfn main() { }\n"})
    # singletons declared by several libraries: the host is asked for them in one order (the initializers of the modules run
    # in one order), whatever the order of the maps the compiler keeps its modules in
    sing_host = {}
    sing_mods = {"main": "".join("import f_%s from %s;\n" % (m, m) for m in ("alpha", "beta", "gamma", "delta", "eps")) +
                 "$Main = { n: int };\nfn main() { println($Main.n); " + " ".join("f_%s();" % m for m in ("alpha", "beta", "gamma", "delta", "eps")) + " }\n"}
    sing_host["$Main"] = {"k": "obj", "fs": {"n": {"k": "int", "v": "0"}}}
    for k, m in enumerate(("alpha", "beta", "gamma", "delta", "eps")):
        sing_mods[m] = "$S%s = { n: int };\nlet g_%s = %d;\npub fn f_%s() { println(\"%s\", $S%s.n, g_%s); }\nfn main() { }\n" % (m, m, k, m, m, m, m)
        sing_host["$S" + m] = {"k": "obj", "fs": {"n": {"k": "int", "v": str(k + 1)}}}
    multi.append(sing_mods)
    # a failing conversion with several culprits: which one the message names is part of the result
    for text in ('{\\"a\\":1e999,\\"b\\":2e999,\\"c\\":3e999,\\"d\\":4e999,\\"e\\":5e999}', '{\\"l\\":[{\\"p\\":1e999,\\"q\\":[2e999]},{\\"r\\":3e999}],\\"m\\":4e999}',
                 '{\\"k1\\":{\\"x\\":1e999},\\"k2\\":{\\"y\\":1e999},\\"k3\\":{\\"z\\":1e999},\\"k4\\":1e999}'):
        multi.append({"main": "fn main() { try { println(\"%s\".parse_json() as { ? }); } catch e { println(e.message); } println(\"%s\".parse_json() as { ? }); }\n" % (text, text)})
    # a cast which is refused for several reasons at once (members of other types, members the type does not have): which one
    # the message names is part of the result, too
    for text, ty in (('{\\"alpha\\":\\"x\\",\\"beta\\":\\"y\\",\\"gamma\\":true,\\"delta\\":1.5,\\"eps\\":[1]}', "{ alpha: int, beta: int, gamma: int, delta: str, eps: str }"),
                     ('{\\"a\\":1,\\"p\\":2,\\"q\\":3,\\"r\\":4,\\"s\\":5,\\"t\\":6}', "{ a: int }"),
                     ('[{\\"m\\":\\"x\\",\\"n\\":\\"y\\",\\"o\\":\\"z\\"}]', "[{ m: int, n: int, o: int }]")):
        multi.append({"main": "fn main() { try { let v = \"%s\".parse_json() as %s; println(\"admitted\"); } catch e { println(e.message); } let w: %s = \"%s\".parse_json(); println(\"admitted\"); }\n" % (text, ty, ty, text)})
    mreqs = []
    for mods in multi:
        for b in ("vm", "tree"):
            for k in range(reps * 3):
                mreqs.append({"op": "run", "id": len(mreqs), "a": {"modules": mods, "entry": "main", "backend": b, "timeout_ms": 8000,
                                                                   **({"singletons": sing_host} if mods is sing_mods else {})}})
    mfirst = {}
    for q, r in zip(mreqs, pool.map(mreqs, timeout=30)):
        rep.count()
        key = (json.dumps(q["a"]["modules"], sort_keys=True), q["a"]["backend"])
        rep.nontrivial(key[0])
        if "r" not in r:
            rep.fail({"family": "multi-module", "backend": q["a"]["backend"], "kind": "hostcrash", "panic": sem.panic_class((r.get("crash") or {}).get("stderr", ""))},
                     {"modules": q["a"]["modules"], "real": str(r)[:1500]})
            continue
        oc = r["r"].get("outcome") or {}
        o = (r["r"]["accepted"], r["r"]["out"], oc.get("kind"), oc.get("msg"), r["r"].get("sing_loads"))
        if not r["r"]["accepted"]:
            raise C.Machinery("a multi-module program of C14 is not accepted: %s" % str(r["r"].get("diags"))[:300])
        if "kitchen" in q["a"]["modules"] and o[1] != "main: kitchen 1\ngarage: tools 2\ncellar: shelf 3\nmain: kitchen 1\n":
            rep.fail({"family": "multi-module", "backend": q["a"]["backend"], "kind": "wrong-output"}, {"modules": q["a"]["modules"], "got": o})
            continue
        f = mfirst.setdefault(key, o)
        if f != o:
            rep.fail({"family": "multi-module", "backend": q["a"]["backend"], "kind": "repetition-differs",
                      "what": "output" if f[1] != o[1] else "message" if f[3] != o[3] else "host-calls" if f[4] != o[4] else "outcome"},
                     {"modules": q["a"]["modules"], "first": f, "now": o})
    # (2c) programs that run into a limit: where they are stopped, with which message and after which output is part of
    # the result (limits are polled at fixed instruction counts, not at moments in time)
    runaway = [
        ("recursion", "fn r(n: int) -> int { println(n); 1 + r(n + 1) }\nfn main() { println(r(0)); }\n"),
        ("recursion_two_modules", None),
        ("locals", "fn r(n: int) -> int { let a = n; let b = a + 1; let c = [a, b]; println(c); r(b) + a }\nfn main() { println(r(0)); }\n"),
        ("closure_recursion", "fn main() { let d = 0; let f = fn(n: int) -> int { n }; println(f(1)); r2(0); }\nfn r2(n: int) { println(\"r2\", n); r2(n + 1); }\n"),
        ("deep_then_throw", "fn r(n: int) -> int { if n > 60 { throw(\"deep\"); } r(n + 1) + 1 }\nfn main() { try { r(0); } catch e { println(e.message); } println(r(0)); }\n"),
    ]
    lims = [{"call": 30, "stack": 2000, "mem": 100000}, {"call": 100, "stack": 500, "mem": 400}, {"call": 4000, "stack": 90, "mem": 100000},
            {"call": 100, "stack": 500, "mem": 100000}]
    lreqs = []
    for name, src in runaway:
        mods = {"main": src} if src else {"main": "import ping from lib;\nfn main() { ping(0); }\npub fn pong(n: int) { println(\"pong\", n); ping(n + 1); }\n",
                                          "lib": "import pong from main;\npub fn ping(n: int) { println(\"ping\", n); pong(n + 1); }\nfn main() { }\n"}
        if not src:
            mods = {"main": "import ping from lib;\nfn main() { ping(0, 0); }\n",
                    "lib": "pub fn ping(n: int, m: int) { println(\"ping\", n); pong(n + 1, m); }\nfn pong(n: int, m: int) { let k = [n, m]; ping(n + 1, k[0]); }\nfn main() { }\n"}
        for li, lim in enumerate(lims):
            for k in range(reps * 3):
                lreqs.append({"op": "run", "id": len(lreqs), "a": {"modules": mods, "entry": "main", "backend": "vm", "limits": lim, "timeout_ms": 20000}})
            for k in range(reps):
                lreqs.append({"op": "run", "id": len(lreqs), "a": {"modules": mods, "entry": "main", "backend": "tree", "tree_limit": lim["call"], "timeout_ms": 20000}})
    lfirst = {}
    for q, r in zip(lreqs, pool.map(lreqs, timeout=60)):
        rep.count()
        key = (json.dumps(q["a"]["modules"], sort_keys=True), q["a"]["backend"], json.dumps(q["a"].get("limits") or q["a"].get("tree_limit")))
        rep.nontrivial(key)
        feat = {"family": "limit-runs", "backend": q["a"]["backend"]}
        if "r" not in r:
            rep.fail(dict(feat, kind="hostcrash" if "crash" in r else "hang", panic=sem.panic_class((r.get("crash") or {}).get("stderr", ""))),
                     {"modules": q["a"]["modules"], "limits": q["a"].get("limits"), "real": str(r)[:1500]})
            continue
        oc = r["r"].get("outcome") or {}
        o = (r["r"]["accepted"], r["r"]["out"], oc.get("kind"), oc.get("fatal"), oc.get("msg"))
        if oc.get("kind") == "terminated":
            raise C.Machinery("a limit-run program ran into the wall-clock deadline (which is not deterministic): %s" % json.dumps(q["a"]["modules"])[:200])
        f = lfirst.setdefault(key, o)
        if f != o:
            what = "output" if f[1] != o[1] else "outcome"
            rep.fail(dict(feat, kind="repetition-differs", what=what),
                     {"modules": q["a"]["modules"], "limits": q["a"].get("limits"), "first": [str(x)[-300:] for x in f], "now": [str(x)[-300:] for x in o]})
    rep.notes["limit_runs_outcomes"] = sorted(set("%s/%s" % (v[2], v[3]) for v in lfirst.values()))
    # (3) diagnostics
    srcs = diag_inputs(pool, rnd, 30 if thorough else 6)
    reqs = []
    for i, s in enumerate(srcs):
        rep.nontrivial(s)
        for k in range(reps * 4):
            reqs.append({"op": "run", "id": len(reqs), "a": {"modules": {"main": s}, "entry": "main", "backend": "analyze", "timeout_ms": 8000}})
    res = pool.map(reqs, timeout=30)
    first = {}
    nd = 0
    for q, r in zip(reqs, res):
        rep.count()
        src = q["a"]["modules"]["main"]
        if "r" not in r:
            from .sem import panic_class
            rep.fail({"family": "diagnostics", "kind": "hostcrash", "panic": panic_class((r.get("crash") or {}).get("stderr", ""))},
                     {"program": src[:2000], "real": str(r)[:1500]})
            continue
        a = r["r"]
        obs = sorted(json.dumps({"l": d["level"], "m": d["msg"], "f": d["file"], "s": d["span"]}, sort_keys=True) for d in a["diags"]) + \
            sorted(json.dumps(s_, sort_keys=True) for s_ in a["syntax"])
        nd += len(obs)
        f = first.setdefault(src, obs)
        if f != obs:
            only_a = [x for x in f if x not in obs][:3]
            only_b = [x for x in obs if x not in f][:3]
            rep.fail({"family": "diagnostics", "kind": "repetition-differs", "what": "diagnostics"},
                     {"program": src[:2000], "only_first": only_a, "only_now": only_b})
    rep.notes["diagnostics_compared"] = nd
    for p in rnd.sample(progs, 2):
        rep.sample({"program": rendered.get(p["id"], ("",))[0][:400]})
    return rep.finish()
