"""C19 - printing and optimising a program preserve its meaning.

  text T --parse--> String() = S1 --parse--> String() = S2            S2 = S1 (fixed point), S1 accepted iff T is
  text T --analyze--> String() = A1 --analyze--> String() = A2        A2 = A1, A1 accepted
  run(T) = run(S1) = run(A1) = run(optimize(T))  on the VM, run(T) = run(S1) on the interpreter,
  and run(T) is what HmsSem prescribes wherever the program is inside the model.
"""
import glob
import os
import random
import re

from . import common as C
from . import families as Fam
from . import progs as P
from . import sem
from . import tyspec as T


def obs_of(r):
    if "crash" in r:
        from .sem import panic_class
        return {"crash": panic_class(r["crash"].get("stderr", ""))}
    if "hang" in r:
        return {"hang": True}
    a = r["r"]
    oc = a.get("outcome") or {}
    return {"accepted": a["accepted"], "out": a["out"], "kind": oc.get("kind"), "fatal": oc.get("fatal"),
            "msg": sem.first_lines(oc.get("msg") or "")[:200], "triggers": a.get("triggers")}


def same(a, b):
    if a == b:
        return True
    # positions (line / column of caught errors, spans in messages) legitimately move when the text is re-printed
    mask = lambda o: re.sub(r"[0-9]+", "#", repr(o))
    return mask(a) == mask(b)


def run(args):
    rep = C.Report("C19")
    thorough = C.tier() == "thorough"
    rnd = random.Random(C.seed())
    rep.cov["rule"] = ("programs of every family (printer forms: string escapes, non-identifier keys, nested value blocks, operator "
                       "nesting, statements, type forms, globals; typing forms, templates, captures, lambdas, closures, singletons, "
                       "control nestings, operators, random programs) and the repository's .hms files: parse -> print -> parse -> print "
                       "and analyse -> print -> analyse -> print must be fixed points after one round and keep acceptance; original, "
                       "printed (parsed and analysed form) and optimised program must behave identically on the VM (original and "
                       "printed also on the interpreter) and as HmsSem prescribes; non-trivial = distinct source texts")
    progs = Fam.printer_programs() + T.typing_programs() + Fam.template_programs() + Fam.capture_programs() + Fam.lambda_programs() + \
        Fam.singleton_programs() + Fam.order_programs(C.seed()) + \
        [p for p in Fam.closure_programs() if p["feats"]["variant"] in ("read-direct", "write", "list", "loop", "nested", "global", "shadow-inner", "shadow-later")]
    ops = Fam.operator_programs()
    progs += ops if thorough else ops[C.seed() % 5::5]
    progs += Fam.nestings(2, rnd, sample=600 if thorough else 80)
    progs += Fam.random_programs(800 if thorough else 120, C.seed() + 19)
    cases = sem.run_spec(progs, rep)
    items = []          # (label, features, source, host singletons, HmsSem case or None, program)
    for p in progs:
        c = cases[p["id"]]
        if c["status"] == "run":
            raise C.Machinery("program %s ran out of fuel in the specification" % p["id"])
        src, spans = P.render(p)
        items.append((p["id"], {"family": p["feats"].get("family", "?")}, src, p.get("host") or None, None if c["status"] == "oom" else c, p))
    # the same programs written with only the parentheses the operator table requires: the printers have to reproduce the
    # precedence and associativity themselves (a tree without Grouped nodes)
    from . import c20
    mini = Fam.printer_programs() + T.typing_programs() + c20.class_programs(C.seed(), 8 if thorough else 3) + Fam.template_programs()[:25]
    mini += ops if thorough else ops[C.seed() % 9::9]
    mcases = sem.run_spec(mini, rep)
    for p in mini:
        c = mcases[p["id"]]
        src, spans = P.render(p, minimal=True)
        items.append((p["id"] + "/minimal", {"family": p["feats"].get("family", "?") + "-minimal"}, src, p.get("host") or None,
                      None if c["status"] in ("oom", "run") else c, p))
    here = os.path.dirname(os.path.abspath(__file__))
    for f in sorted(glob.glob(os.path.join(here, "data", "*.hms"))):
        items.append(("data/" + os.path.basename(f), {"family": "forms-file"}, open(f, encoding="utf-8").read(), None, None, None))
    for f in sorted(glob.glob(os.path.join(C.REPO, "examples", "*.hms")) + glob.glob(os.path.join(C.REPO, "tests", "*.hms"))):
        try:
            items.append((os.path.basename(f), {"family": "repo-file"}, open(f, encoding="utf-8").read(), None, None, None))
        except Exception:
            pass
    pool = C.Pool(C.build_worker())
    rts = pool.map([{"op": "roundtrip", "id": i, "a": {"src": it[2], "singletons": it[3] or {}}} for i, it in enumerate(items)], timeout=30)
    reqs, meta = [], []

    def want_run(i, text, label, backend, optimize=False):
        a = {"modules": {"main": text}, "entry": "main", "backend": backend, "timeout_ms": 8000, "optimize": optimize}
        if items[i][3]:
            a["singletons"] = items[i][3]
        reqs.append({"op": "run", "id": len(reqs), "a": a})
        meta.append((i, label, backend))

    not_accepted = []
    for i, (it, r) in enumerate(zip(items, rts)):
        label, feat, src, host, case, prog = it
        rep.count()
        rep.nontrivial(src)
        if "crash" in r or "hang" in r:
            rep.fail(dict(feat, kind="hostcrash", stage="print", panic=sem.panic_class((r.get("crash") or {}).get("stderr", ""))), {"program": src[:3000], "real": str(r)[:1500]})
            continue
        x = r["r"]
        if x["s1_errs"]:
            if prog is not None:
                raise C.Machinery("generated program %s does not parse: %s" % (label, x["s1_errs"][:2]))
            if feat.get("family") == "forms-file":
                raise C.Machinery("the form file %s does not parse: %s" % (label, x["s1_errs"][:2]))
            continue        # a repository file that is not syntactically valid: nothing to print
        # (1) the parsed form
        if x.get("s2_errs"):
            rep.fail(dict(feat, kind="printed-text-does-not-parse", form="parsed"), {"program": src[:3000], "printed": x["s1"][:3000], "errors": x["s2_errs"][:4]})
        elif x.get("s2") != x["s1"]:
            rep.fail(dict(feat, kind="printing-is-no-fixed-point", form="parsed"), {"program": src[:3000], "first": x["s1"][:3000], "second": x["s2"][:3000]})
        if x["accepted"] and not x.get("s2_errs") and not x.get("s1_accepted"):
            rep.fail(dict(feat, kind="printed-text-rejected", form="parsed"), {"program": src[:3000], "printed": x["s1"][:3000], "errors": x.get("s1_an_errs", [])[:4]})
        elif x["accepted"] and x.get("s1_accepted") and x.get("s1_a1") is not None and x["s1_a1"] != x["a1"]:
            # what the analysis sees of the printed text is what it sees of the original: nothing it keeps was lost in print
            rep.fail(dict(feat, kind="printed-text-analysed-differently", form="parsed"),
                     {"program": src[:3000], "printed": x["s1"][:3000], "analysed_original": x["a1"][:2000], "analysed_printed": x["s1_a1"][:2000]})
        # (2) the analysed form
        if x["accepted"]:
            if not x.get("a1_accepted"):
                rep.fail(dict(feat, kind="printed-text-rejected", form="analyzed"), {"program": src[:3000], "printed": x["a1"][:3000], "errors": x.get("a2_errs", [])[:4]})
            elif x.get("a2") != x["a1"]:
                rep.fail(dict(feat, kind="printing-is-no-fixed-point", form="analyzed"), {"program": src[:3000], "first": x["a1"][:3000], "second": x["a2"][:3000]})
        elif prog is not None or feat.get("family") == "forms-file":
            # (not this property's business - C03 decides acceptance - but nothing may be skipped silently: the run is
            # inconclusive unless the other programs show a violation of this property)
            not_accepted.append("program %s is not accepted: %s" % (label, x.get("a1_errs", [])[:2]))
        if not x["accepted"]:
            continue
        # (3) behaviour
        tree_ok = not (prog is not None and prog["feats"].get("vm_only"))
        want_run(i, src, "original", "vm")
        want_run(i, src, "optimized", "vm", optimize=True)
        if not x.get("s2_errs") and x.get("s1_accepted"):
            want_run(i, x["s1"], "printed-parsed", "vm")
        if x.get("a1_accepted"):
            want_run(i, x["a1"], "printed-analyzed", "vm")
        if tree_ok:
            want_run(i, src, "original", "tree")
            want_run(i, src, "optimized", "tree", optimize=True)
            if not x.get("s2_errs") and x.get("s1_accepted"):
                want_run(i, x["s1"], "printed-parsed", "tree")
    res = pool.map(reqs, timeout=30)
    base = {}
    for (i, label, backend), r in zip(meta, res):
        rep.count()
        o = obs_of(r)
        it = items[i]
        feat = dict(it[1], backend=backend, form=label)
        if label == "original":
            base[(i, backend)] = o
            if it[4] is not None and "r" in r:
                v = sem.compare(it[5], it[4], r, {}, backend)
                # (what the original does is C01 / C04's business; here it only anchors the comparison)
                if v is not None:
                    rep.notes["originals_off_spec"] = rep.notes.get("originals_off_spec", 0) + 1
            continue
        b = base.get((i, backend))
        if b is None or "crash" in b or "hang" in b:
            continue
        if not same(o, b):
            rep.fail(dict(feat, kind="behaviour-differs"), {"program": it[2][:3000], "original": b, "this": o,
                                                            "text": reqs[len([1 for _ in range(0)])]["a"]["modules"]["main"][:0]})
    linked(rep, pool, thorough)
    for it in rnd.sample(items, 3):
        rep.sample({"label": it[0], "program": it[2][:300]})
    if not_accepted and not rep.violations:
        raise C.Machinery(not_accepted[0])
    rep.notes["generated_programs_not_accepted"] = not_accepted[:5]
    return rep.finish()


def linked(rep, pool, thorough):
    """programs of several modules (HmsLink's accepted graphs): every module replaced by its printed form must still link
    (pub, imports, types survive printing) and print what the specification says"""
    from . import link as L
    import json
    nsl = 8 if thorough else 32
    r = C.run_tlc("HmsLink", L.cfg(C.seed() % nsl, nsl), timeout=2400, heap="16g")
    C.tlc_must_pass(r, "HmsLink")
    rep.add_tlc(r)
    seen = {}
    for c in r.cases:
        if c["accepted"] and not c["unspecified"]:
            seen.setdefault(json.dumps(c["g"], sort_keys=True), c)
    cases = list(seen.values())
    rendered = [L.render(c["g"])[0] for c in cases]
    rts = pool.map([{"op": "roundtrip", "id": i, "a": {"src": m["main"], "modules": {k: v for k, v in m.items() if k != "main"}}}
                    for i, m in enumerate(rendered)], timeout=30)
    reqs, meta = [], []
    for i, (c, mods, rr) in enumerate(zip(cases, rendered, rts)):
        rep.count()
        rep.nontrivial(json.dumps(mods, sort_keys=True))
        feat = {"family": "linked-graph"}
        if "r" not in rr:
            rep.fail(dict(feat, kind="hostcrash", stage="print", panic=sem.panic_class((rr.get("crash") or {}).get("stderr", ""))), {"modules": mods})
            continue
        x = rr["r"]
        if x["errs"]:
            raise C.Machinery("accepted graph does not analyse: %s" % x["errs"][:2])
        for form in ("parsed", "analyzed"):
            for b in ("vm", "tree"):
                reqs.append({"op": "run", "id": len(reqs), "a": {"modules": x[form], "entry": "main", "backend": b, "timeout_ms": 8000}})
                meta.append((c, mods, form, b, x[form]))
    res = pool.map(reqs, timeout=30)
    for (c, mods, form, b, printed), rr in zip(meta, res):
        rep.count()
        feat = {"family": "linked-graph", "form": "printed-" + form, "backend": b}
        if "r" not in rr:
            rep.fail(dict(feat, kind="hostcrash", panic=sem.panic_class((rr.get("crash") or {}).get("stderr", ""))), {"modules": mods, "printed": printed})
            continue
        a = rr["r"]
        if not a["accepted"]:
            errs = [d["msg"] for d in a["diags"] if d["level"] == "Error"] + [s_["msg"] for s_ in a["syntax"]]
            rep.fail(dict(feat, kind="printed-text-rejected", msg=errs[0][:50] if errs else "?"), {"modules": mods, "printed": printed, "errors": errs[:4]})
            continue
        want = L.expected_text(c["out"])
        if a["out"] != want or (a.get("outcome") or {}).get("kind") != "done":
            rep.fail(dict(feat, kind="behaviour-differs"), {"modules": mods, "printed": printed, "want": want, "got": a["out"], "outcome": a.get("outcome")})
