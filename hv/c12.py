"""C12 - the dynamic-to-static type boundary is sound."""
import json
import random

from . import common as C

INVS = "AdmittedConforms ConformingUnchanged StrictAdmitsOnlyByShape RefusalNamesPosition PathsAgree NamedIsBad Export"


def cfg(depth, sl, n):
    return ("SPECIFICATION Spec\nCONSTANTS\n Depth = %d\n Slice = %d\n Slices = %d\nINVARIANTS %s\nCHECK_DEADLOCK FALSE\n"
            % (depth, sl, n, INVS))


def expected_path(v, path):
    """render the specification's path the way the runtime prints it: .field [index] <option-inner>"""
    out = ""
    cur = v
    for p in path:
        if cur["k"] == "list":
            out += "[%s]" % p
            cur = cur["es"][int(p)]
        elif cur["k"] in ("obj", "anyobj"):
            out += ".%s" % p
            cur = cur["vs"][cur["ks"].index(p)]
        elif cur["k"] == "opt":
            out += "<option-inner>"
            cur = cur["v"]
        else:
            return None
    return out


def norm(v):
    """objects are unordered: sort fields; floats as numbers"""
    if isinstance(v, dict):
        if v.get("k") in ("obj", "anyobj"):
            pairs = sorted(zip(v.get("ks", []), [norm(x) for x in v.get("vs", [])]), key=lambda kv: kv[0])
            return {"k": v["k"], "ks": [p[0] for p in pairs], "vs": [p[1] for p in pairs]}
        if v.get("k") == "list":
            return {"k": "list", "es": [norm(x) for x in v.get("es", [])]}
        if v.get("k") == "opt":
            return {"k": "opt", "some": True, "v": norm(v["v"])} if v.get("some") else {"k": "opt", "some": False}
        if v.get("k") in ("int", "flt"):
            return {"k": v["k"], "v": float(v["v"]) if not isinstance(v["v"], str) else v["v"]}
        return {k: v[k] for k in ("k", "v") if k in v}
    return v


def kind_of(v):
    return v["k"]



def json_text(v):
    """JSON text that parse_json turns into the value (None: not expressible - options, any-objects)"""
    k = v["k"]
    if k == "null":
        return None         # (JSON null is read as none, not as the value null)
    if k == "bool":
        return "true" if v["v"] else "false"
    if k == "int":
        return str(v["v"])
    if k == "flt":
        h = v["v"]
        return ("%d.0" % (h // 2)) if h % 2 == 0 else ("%d.5" % (h // 2) if h > 0 else None)
    if k == "str":
        return json.dumps(v["v"])
    if k == "list":
        es = [json_text(e) for e in v["es"]]
        return None if None in es else "[" + ",".join(es) + "]"
    if k == "obj":        # (parse_json makes objects, not any-objects, of JSON objects)
        vs = [json_text(e) for e in v["vs"]]
        return None if None in vs else "{" + ",".join("%s:%s" % (json.dumps(key), t) for key, t in zip(v["ks"], vs)) + "}"
    return None


def type_src(t):
    k = t["t"]
    if k in ("int", "bool", "str", "null", "any"):
        return k
    if k == "flt":
        return "float"
    if k == "list":
        e = type_src(t["e"])
        return None if e is None else "[%s]" % e
    if k == "opt":
        e = type_src(t["e"])
        return None if e is None else "?%s" % e
    if k == "anyobj":
        return "{ ? }"
    if k == "obj":
        ts = [type_src(x) for x in t["ts"]]
        return None if None in ts else ("{ %s }" % ", ".join("%s: %s" % (a, b) for a, b in zip(t["ks"], ts)) if ts else None)
    return None


def carriers(c):
    """source forms through which the (JSON) value meets the type; -> [(name, statements that end in `let v ... ;`)]"""
    js = json.dumps(json_text(c["v"]))
    ty = type_src(c["t"])
    out = []
    if c["conv"]:
        out.append(("as", "let j: any = %s.parse_json(); let v = j as %s;" % (js, ty)))
        return out
    out.append(("let-any", "let v: %s = %s.parse_json();" % (ty, js)))
    if c["t"]["t"] == "any" or c["v"]["k"] == "null":
        return out          # (c->k of a null is none; `?any` admits everything)
    arrow = "let c = %s.parse_json() as { ? }; " % json.dumps("{\"k\":" + json_text(c["v"]) + "}")
    out.append(("let-arrow", arrow + "let v: ?%s = c->k;" % ty))
    out.append(("let-list-of-arrows", arrow + "let v: [?%s] = [c->k];" % ty))
    out.append(("let-object-of-arrow", arrow + "let v: { f: ?%s } = new { f: c->k };" % ty))
    out.append(("argument", "let j: any = %s.parse_json(); takes(j);" % js))
    out.append(("argument-arrow", arrow + "takes_opt(c->k);"))
    out.append(("return-arrow", arrow + "let v = gives_opt(c);"))
    out.append(("assign-arrow", arrow + "let v: ?%s = none; v = c->k;" % ty))
    # the value travels inside typed containers of `any` (a list, an option) which are themselves put into an `any` again
    out.append(("any-list-any", "let l: [any] = %s.parse_json() as [any]; let y: any = l; let v: [%s] = y; println(v.len() > 5);" % (json.dumps("[" + json_text(c["v"]) + "]"), ty)))
    out.append(("arrow-any", arrow + "let q: ?any = c->k; let z: any = q; let v: ?%s = z; println(v.is_some());" % ty))
    return out

def run(args):
    rep = C.Report("C12")
    thorough = C.tier() == "thorough"
    rnd = random.Random(C.seed())
    rep.cov["rule"] = ("all (value, type, mode) triples enumerated by TLC from HmsCast: values of depth <= %d over "
                       "{null,true,0,1,1.5,\"s\",none} with lists (len 0-2), objects / any-objects over fields of {a,b}, "
                       "options; types of the same shapes; mode = with / without scalar conversions; each replayed on "
                       "runtime/value.DeepCast and interpreter/value.DeepCast; non-trivial = distinct triples whose "
                       "value is a container or whose verdict is a refusal" % (2 if thorough else 1))
    rep.assumptions = ["null offered for ?T may be admitted as none or refused (not decided by the property)",
                       "float -> int truncation only on small non-negative values"]
    pool = C.Pool(C.build_worker())
    runs = [(1, 0, 1)]
    if thorough:
        runs += [(2, s, 8) for s in range(8)]
    else:
        runs += [(2, C.seed() % 40, 40)]
    total = 0
    carried = []
    for depth, sl, n in runs:
        r = C.run_tlc("HmsCast", cfg(depth, sl, n), timeout=2400, heap="24g")
        C.tlc_must_pass(r, "HmsCast")
        rep.add_tlc(r)
        cases = r.cases
        total += len(cases)
        res = pool.map([{"op": "cast", "id": i, "a": {"v": c["v"], "t": c["t"], "conv": c["conv"]}}
                        for i, c in enumerate(cases)], timeout=30)
        for c, rr in zip(cases, res):
            rep.count()
            exp = c["r"]
            if c["v"]["k"] in ("list", "obj", "anyobj", "opt") or not exp["ok"]:
                rep.nontrivial(json.dumps([c["v"], c["t"], c["conv"]], sort_keys=True))
            if "crash" in rr or "hang" in rr:
                rep.fail({"family": "deepcast", "kind": "hostcrash"}, {"case": c, "real": str(rr)[:1500]})
                continue
            for lib in ("vm", "tree"):
                got = rr["r"][lib]
                feat = {"family": "deepcast", "lib": lib, "conv": c["conv"], "vkind": c["v"]["k"], "tkind": c["t"]["t"]}
                if "panic" in got:
                    rep.fail(dict(feat, kind="panic"), {"case": c, "got": got})
                    continue
                if "machinery" in got:
                    raise C.Machinery(got["machinery"])
                if exp.get("undecided"):
                    if got["ok"] and norm(got["v"]) != norm(exp["v"]):
                        rep.fail(dict(feat, kind="wrong-value"), {"case": c, "got": got})
                    continue
                if exp["ok"] != got["ok"]:
                    rep.fail(dict(feat, kind="admitted-nonconforming" if got["ok"] else "refused-conforming"),
                             {"case": c, "got": got})
                    continue
                if exp["ok"]:
                    if norm(got["v"]) != norm(exp["v"]):
                        rep.fail(dict(feat, kind="wrong-value"), {"case": c, "got": got})
                else:
                    wants = [expected_path(c["v"], p) for p in c["bad"]]
                    if None in wants:
                        raise C.Machinery("cannot render path in %r" % (c["bad"],))
                    if got["path"] not in wants:
                        rep.fail(dict(feat, kind="wrong-path" if got["path"] else "path-missing"),
                                 {"case": c, "got": got, "acceptable_paths": wants})
        carried += [c for c in cases if not c["r"].get("undecided") and json_text(c["v"]) is not None and type_src(c["t"]) is not None]
        for c in rnd.sample(cases, 2):
            rep.sample({"value": c["v"], "type": c["t"], "conv": c["conv"], "specified": c["r"]})
    rep.cov["exhaustive"] = True
    rep.notes["pairs"] = total

    # ---- the same pairs inside programs: every form through which a dynamically typed value reaches a static type
    # (annotated let of any / ?any / [?any] / { f: ?any }, `as`, argument, result): admitted iff HmsCast says it conforms,
    # a refusal can be caught, and afterwards the variable really has its static type
    sample = carried if thorough and len(carried) < 4000 else rnd.sample(carried, min(len(carried), 4000 if thorough else 500))
    creqs = []
    for c in sample:
        ty = type_src(c["t"])
        for cname, stmts in carriers(c):
            src = ("fn takes(p: %s) { }\nfn takes_opt(p: ?%s) { }\nfn gives_opt(c: { ? }) -> ?%s { c->k }\n"
                   "fn main() {\n    let keep = 41;\n    try { %s println(\"admitted\"); } catch e { println(\"refused\"); }\n    println(keep + 1);\n}\n" % (ty, ty, ty, stmts))
            for b in ("vm", "tree"):
                creqs.append((c, cname, b, src))
    cres = pool.map([{"op": "run", "id": i, "a": {"modules": {"main": src}, "entry": "main", "backend": b, "timeout_ms": 8000}}
                     for i, (c, cname, b, src) in enumerate(creqs)], timeout=30)
    nrej = 0
    for (c, cname, b, src), rr in zip(creqs, cres):
        rep.count()
        rep.nontrivial(("carrier", cname, b, src))
        feat = {"family": "carrier", "form": cname, "backend": b, "conforms": c["r"]["ok"], "tkind": c["t"]["t"]}
        if "crash" in rr or "hang" in rr:
            from .sem import panic_class
            rep.fail(dict(feat, kind="hostcrash" if "crash" in rr else "hang", panic=panic_class((rr.get("crash") or {}).get("stderr", ""))),
                     {"source": src, "case": c, "real": str(rr)[:1200]})
            continue
        r = rr["r"]
        if not r["accepted"]:
            nrej += 1          # (the analyzer may see statically that the form cannot work, e.g. `takes` of an any without annotation)
            continue
        want = ("admitted" if c["r"]["ok"] else "refused") + "\n42\n"
        if cname == "any-list-any":
            want = ("false\n" if c["r"]["ok"] else "") + want
        if cname == "arrow-any":
            want = ("true\n" if c["r"]["ok"] else "") + want
        if r["out"] != want or r["outcome"]["kind"] != "done":
            rep.fail(dict(feat, kind="admitted-nonconforming" if "admitted" in r["out"] and not c["r"]["ok"] else
                          ("refused-conforming" if "refused" in r["out"] and c["r"]["ok"] else "wrong-behaviour")),
                     {"source": src, "case": c, "out": r["out"], "outcome": r["outcome"]})
    rep.notes["carrier_programs"] = len(creqs)
    rep.notes["carrier_programs_rejected_by_analyzer"] = nrej

    # ---- in-program forms: `expr as T`, annotated let, refusal is catchable and later code is intact
    progs = []
    forms = [
        ("as_ok", "let v = [1, 2] as [int]; println(v);", "[1, 2]\n", "done"),
        ("as_conv", "println(1 as float, 2.0 as int, 1 as bool, true as int);", "1 2 true 1\n", "done"),
        ("as_refused_catch", "let keep = 41; try { let j: any = \"[1, \\\"x\\\"]\".parse_json(); let v = j as [int]; println(v); } "
                             "catch e { println(\"caught\"); } println(keep + 1);", "caught\n42\n", "done"),
        ("let_refused_catch", "let keep = 41; try { let v: [int] = \"[1, \\\"x\\\"]\".parse_json(); println(v); } "
                              "catch e { println(\"caught\"); } println(keep + 1);", "caught\n42\n", "done"),
        ("let_ok", "let v: [int] = \"[1, 2]\".parse_json(); println(v);", "[1, 2]\n", "done"),
        ("opt_refused", "try { let j: any = \"\\\"x\\\"\".parse_json(); let v = j as ?int; println(v); } catch e { println(\"caught\"); }",
         "caught\n", "done"),
        ("obj_to_anyobj", "let o = new { a: 1 }; let v = o as { ? }; println(v.keys());", "[a]\n", "done"),
        ("loop_refusals", "let n = 0; for i in 0..5 { try { let v: int = \"\\\"x\\\"\".parse_json(); n += v; } catch e { n += 1; } } println(n);",
         "5\n", "done"),
    ]
    reqs = []
    for name, body, out, oc in forms:
        src = "fn main() {\n    %s\n}\n" % body
        for b in ("vm", "tree"):
            reqs.append((name, b, src, out, oc))
    res = pool.map([{"op": "run", "id": i, "a": {"modules": {"main": s}, "entry": "main", "backend": b}}
                    for i, (n, b, s, o, oc) in enumerate(reqs)], timeout=30)
    for (name, b, src, out, oc), rr in zip(reqs, res):
        rep.count()
        rep.nontrivial(("prog", name, b))
        feat = {"family": "in-program", "form": name, "backend": b}
        if "crash" in rr or "hang" in rr:
            rep.fail(dict(feat, kind="hostcrash" if "crash" in rr else "hang"), {"source": src, "real": str(rr)[:1500]})
            continue
        r = rr["r"]
        if not r["accepted"]:
            rep.fail(dict(feat, kind="rejected"), {"source": src, "diags": [d for d in r["diags"] if d["level"] == "Error"]})
            continue
        if r["out"] != out or r["outcome"]["kind"] != oc:
            rep.fail(dict(feat, kind="wrong-behaviour", got=r["outcome"]["kind"]), {"source": src, "out": r["out"], "want": out,
                                                                                    "outcome": r["outcome"]})
    # ---- host boundary: arguments of SpawnSync that do not conform are refused and the function does not run
    lib = ("fn takes_list(l: [int]) -> int { println(\"ran\"); l.len() }\nfn takes_obj(o: { a: int }) -> int { println(\"ran\"); o.a }\n"
           "fn takes_opt(o: ?int) -> bool { println(\"ran\"); o.is_some() }\nfn main() { }\n")
    I = lambda n: {"k": "int", "v": str(n)}
    S_ = lambda t: {"k": "str", "s": t}
    host = [
        ("takes_list", [{"k": "list", "es": [I(1), I(2)]}], True, "2"),
        ("takes_list", [{"k": "list", "es": [I(1), S_("x")]}], False, None),
        ("takes_list", [S_("x")], False, None),
        ("takes_obj", [{"k": "obj", "fs": {"a": I(7)}}], True, "7"),
        ("takes_obj", [{"k": "obj", "fs": {"a": S_("x")}}], False, None),
        ("takes_obj", [{"k": "obj", "fs": {"a": I(7), "b": I(1)}}], False, None),
        ("takes_obj", [{"k": "obj", "fs": {}}], False, None),
        ("takes_opt", [{"k": "opt", "some": I(1)}], True, "true"),
        ("takes_opt", [{"k": "opt", "some": S_("x")}], False, None),
        ("takes_opt", [{"k": "opt"}], True, "false"),
        # a bare value offered for an optional parameter: refused, or admitted AS the option (the function must be able to use it)
        ("takes_opt", [I(5)], None, "true"),
        ("takes_opt", [S_("x")], False, None),
    ]
    res = pool.map([{"op": "run", "id": i, "a": {"modules": {"main": lib}, "entry": "main", "backend": "vm",
                                                 "invoke": [{"fn": fn, "args": args}]}} for i, (fn, args, ok, ret) in enumerate(host)],
                   timeout=30)
    for (fn, args, ok, ret), rr in zip(host, res):
        rep.count()
        rep.nontrivial(("host", fn, json.dumps(args)))
        feat = {"family": "host-boundary", "fn": fn, "conforming": ok}
        if "crash" in rr or "hang" in rr:
            rep.fail(dict(feat, kind="hostcrash" if "crash" in rr else "hang"), {"args": args, "real": str(rr)[:1500]})
            continue
        r = rr["r"]
        call = r["calls"][0]
        if ok is None:          # either answer of the boundary is fine, a crash or a half-admitted value is not
            ok = "refused" not in call
        if ok:
            got = call.get("ret")
            shown = None if got is None else (got.get("v") if got["k"] != "bool" else ("true" if got["v"] else "false"))
            if "refused" in call or r["out"] != "ran\n" or str(shown) != ret:
                rep.fail(dict(feat, kind="conforming-argument-refused"), {"args": args, "call": call, "out": r["out"]})
        else:
            if "refused" not in call or "ran" in r["out"]:
                rep.fail(dict(feat, kind="nonconforming-argument-admitted"), {"args": args, "call": call, "out": r["out"]})
    # ---- host boundary, outwards: what a function returns to the host is the value of its declared type, whatever that type is
    ao = {"k": "anyobj", "fs": {"a": I(1), "b": {"k": "list", "es": [{"k": "bool", "v": True}]}}}
    rets = [
        ("ret_anyobj", "{ ? }", "\"{\\\"a\\\":1,\\\"b\\\":[true]}\".parse_json() as { ? }", ao),
        ("ret_list", "[int]", "[1, 2]", {"k": "list", "es": [I(1), I(2)]}),
        ("ret_obj", "{ a: int, b: str }", "new { a: 1, b: \"x\" }", {"k": "obj", "fs": {"a": I(1), "b": S_("x")}}),
        ("ret_opt", "?int", "?5", {"k": "opt", "some": I(5)}),
        ("ret_none", "?int", "none", {"k": "opt"}),
        ("ret_str", "str", "\"s\"", S_("s")),
        ("ret_float", "float", "1.5", {"k": "float", "f": 1.5}),
        ("ret_bool", "bool", "true", {"k": "bool", "v": True}),
        ("ret_range", "range", "1..4", {"k": "range", "l": 1, "r": 4}),
        ("ret_null", "null", "null", None),
        ("ret_listobj", "[{ ? }]", "[ret_anyobj()]", {"k": "list", "es": [ao]}),
        ("ret_optobj", "?{ ? }", "?ret_anyobj()", {"k": "opt", "some": ao}),
        ("ret_objobj", "{ o: { ? }, n: int }", "new { o: ret_anyobj(), n: 3 }", {"k": "obj", "fs": {"o": ao, "n": I(3)}}),
        ("ret_nolist", "[str]", "{ let l: [str] = []; l }", {"k": "list", "es": []}),
        ("ret_fn", "fn(n: int) -> int", "twice", {"k": "other:value.ValueVMFunction"}),
        ("ret_fnlit", "fn(n: int) -> int", "fn(n: int) -> int { n }", {"k": "other:value.ValueVMFunction"}),
        ("ret_fnlist", "[fn(n: int) -> int]", "[twice]", {"k": "list", "es": [{"k": "other:value.ValueVMFunction"}]}),
        ("ret_handle", "{ join: fn() -> int }", "spawn twice(2)", {"k": "obj", "fs": {"join": {"k": "other:value.ValueBuiltinFunction"}}}),
        ("ret_empty", "{ ? }", "\"{}\".parse_json() as { ? }", {"k": "anyobj", "fs": {}}),
    ]
    rlib = "fn twice(n: int) -> int { n * 2 }\n" + "".join("fn %s() -> %s { println(\"ran\"); %s }\n" % (n, t, e) for n, t, e, _ in rets) + "fn main() { }\n"

    def strip(v):
        if isinstance(v, dict):
            out = {k: strip(x) for k, x in v.items() if k != "id"}
            if out.get("k") in ("obj", "anyobj"):
                out.setdefault("fs", {})        # (the worker leaves empty collections out)
            if out.get("k") == "list":
                out.setdefault("es", [])
            return out
        if isinstance(v, list):
            return [strip(x) for x in v]
        return v
    res = pool.map([{"op": "run", "id": i, "a": {"modules": {"main": rlib}, "entry": "main", "backend": "vm",
                                                 "invoke": [{"fn": n, "args": []}, {"fn": n, "args": []}]}} for i, (n, t, e, w) in enumerate(rets)], timeout=30)
    for (n, t, e, w), rr in zip(rets, res):
        rep.count()
        rep.nontrivial(("host-return", n))
        feat = {"family": "host-return", "type": t}
        if "r" not in rr:
            rep.fail(dict(feat, kind="hostcrash" if "crash" in rr else "hang"), {"fn": n, "real": str(rr)[:1500]})
            continue
        r = rr["r"]
        if not r["accepted"]:
            raise C.Machinery("the host-return library is not accepted: %s" % str([d["msg"] for d in r["diags"] if d["level"] == "Error"])[:300])
        for call in r["calls"]:
            if strip(call.get("ret")) != w or (call.get("outcome") or {}).get("kind") != "done":
                rep.fail(dict(feat, kind="wrong-value-returned-to-host"), {"fn": n, "declared": t, "body": e, "want": w, "call": call})
                break
    return rep.finish()
