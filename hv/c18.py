"""C18 - every builtin member the analyzer offers exists and behaves as typed."""
import itertools
import json
import random

from . import common as C
from .c12 import norm


def I(n):
    return {"k": "int", "v": n}


def S(t):
    return {"k": "str", "v": t}


def L(*es):
    return {"k": "list", "es": list(es)}


TYPES = {
    "int": ({"t": "int"}, [I(0), I(3), I(-2)]),
    "flt": ({"t": "flt"}, [{"k": "flt", "v": 3}, {"k": "flt", "v": 4}, {"k": "flt", "v": -5}]),
    "bool": ({"t": "bool"}, [{"k": "bool", "v": True}]),
    "str": ({"t": "str"}, [S(""), S("a"), S("abc"), S("12"), S("true"), S("1.5"), S("x y")]),
    "range": ({"t": "range"}, [{"k": "range", "l": 0, "r": 2, "incl": False}, {"k": "range", "l": 3, "r": 1, "incl": True}]),
    "[int]": ({"t": "list", "e": {"t": "int"}}, [L(), L(I(5)), L(I(3), I(1), I(2))]),
    "[str]": ({"t": "list", "e": {"t": "str"}}, [L(), L(S("b"), S("a"))]),
    "[flt]": ({"t": "list", "e": {"t": "flt"}}, [L(), L({"k": "flt", "v": 4}, {"k": "flt", "v": 3})]),
    "[bool]": ({"t": "list", "e": {"t": "bool"}}, [L(), L({"k": "bool", "v": True})]),
    "[[int]]": ({"t": "list", "e": {"t": "list", "e": {"t": "int"}}}, [L(), L(L(I(1)))]),
    "?int": ({"t": "opt", "e": {"t": "int"}}, [{"k": "opt", "some": False}, {"k": "opt", "some": True, "v": I(4)}]),
    "anyobj": ({"t": "anyobj"}, [{"k": "anyobj", "ks": [], "vs": []}, {"k": "anyobj", "ks": ["a"], "vs": [I(1)]}]),
    "obj": ({"t": "obj", "ks": ["a"], "ts": [{"t": "int"}]}, [{"k": "obj", "ks": ["a"], "vs": [I(1)]}]),
    "null": ({"t": "null"}, [{"k": "null"}]),
}

ARGS = {
    "int": [I(-1), I(0), I(1), I(5)],
    "str": [S(""), S("a"), S("abc"), S(",")],
    "float": [{"k": "flt", "v": 3}],
    "bool": [{"k": "bool", "v": True}],
    "any": [I(1)], "unknown": [I(1), S("v")],
}


def parse_type(t):
    t = t.strip()
    if t.startswith("?"):
        return {"t": "opt", "e": parse_type(t[1:])}
    if t.startswith("[") and t.endswith("]"):
        return {"t": "list", "e": parse_type(t[1:-1])}
    return {"int": {"t": "int"}, "float": {"t": "flt"}, "str": {"t": "str"}, "bool": {"t": "bool"}, "null": {"t": "null"},
            "any": {"t": "any"}, "range": {"t": "range"}, "{ ? }": {"t": "anyobj"}, "unknown": {"t": "any"}}.get(t)


def args_for(pt, recv):
    if pt in ARGS:
        return ARGS[pt]
    if pt.startswith("["):
        return [L(), recv if recv["k"] == "list" else L()]
    return [I(1)]


def to_sv(v):
    """HmsMembers' values -> the worker's value form (text as string)"""
    if v["k"] == "str" and "cs" in v:
        return {"k": "str", "v": "".join(chr(c) for c in v["cs"])}
    if v["k"] == "list":
        return {"k": "list", "es": [to_sv(e) for e in v["es"]]}
    if v["k"] == "anyobj":
        return {"k": "anyobj", "ks": ["".join(chr(c) for c in k) for k in v["ks"]], "vs": [to_sv(e) for e in v["vs"]]}
    if v["k"] == "opt" and v.get("some"):
        return {"k": "opt", "some": True, "v": to_sv(v["v"])}
    return v


def run(args):
    rep = C.Report("C18")
    rnd = random.Random(C.seed())
    rep.cov["rule"] = ("(1) the analyzer's member table (ast.Type.Fields) extracted for 14 type kinds vs the member sets of "
                       "both runtimes; (2) every offered member called with boundary arguments on boundary receivers in "
                       "both runtimes: no panic, result conforms to the advertised type; (2b) objects with a field named like a member "
                       "(literal, cast from JSON, annotated parameter): where accepted, the field is read, written and shown; (3) the cases TLC enumerates from "
                       "HmsMembers (list/option/range/int/string members and indexing with indices -n-1..n+1) with the "
                       "specified result and receiver; non-trivial = distinct (receiver, member, arguments)")
    pool = C.Pool(C.build_worker())
    # ---- (1) existence
    names = list(TYPES)
    res = pool.map([{"op": "membertable", "id": n, "a": {"t": TYPES[n][0], "v": TYPES[n][1][-1]}} for n in names])
    tables = {}
    for n, r in zip(names, res):
        rep.count()
        rr = r["r"]
        tables[n] = rr["analyzer"]
        for lib in ("vm", "tree"):
            got = rr[lib]
            if not isinstance(got, list):
                rep.fail({"family": "existence", "lib": lib, "type": n, "kind": "fields-failed"}, {"got": got})
                continue
            for m in sorted(set(rr["analyzer"]) - set(got)):
                rep.nontrivial(("exist", n, m, lib))
                rep.fail({"family": "existence", "lib": lib, "type": n, "member": m, "kind": "offered-member-missing"},
                         {"type": n, "member": m, "runtime_members": got})
    # ---- (2) every member with boundary arguments: no crash, typed result
    reqs, meta = [], []
    for n in names:
        typ, recvs = TYPES[n]
        for m, e in sorted(tables[n].items()):
            if not e.get("fn") or e.get("varargs"):
                continue
            ret = parse_type(e["ret"])
            for recv in recvs:
                combos = list(itertools.product(*[args_for(pt, recv) for pt in e["params"]])) if e["params"] else [()]
                for combo in combos[:40]:
                    reqs.append({"op": "member", "id": len(reqs), "a": {"v": recv, "m": m, "args": list(combo), "ret": ret}})
                    meta.append((n, m, recv, combo, e["ret"]))
    res = pool.map(reqs, timeout=30)
    for (n, m, recv, combo, ret), r in zip(meta, res):
        rep.count()
        rep.nontrivial(("call", n, m, json.dumps(recv), json.dumps(combo)))
        if "crash" in r or "hang" in r:
            rep.fail({"family": "typed-call", "type": n, "member": m, "kind": "hostcrash"}, {"recv": recv, "args": combo, "real": str(r)[:800]})
            continue
        for lib in ("vm", "tree"):
            g = r["r"][lib]
            feat = {"family": "typed-call", "lib": lib, "type": n, "member": m}
            if "panic" in g:
                rep.fail(dict(feat, kind="panic"), {"recv": recv, "args": combo, "panic": g["panic"]})
            elif g.get("missing"):
                pass                      # reported by (1)
            elif "interrupt" in g:
                pass                      # answering with an interrupt is allowed
            elif g.get("conforms") is False:
                rep.fail(dict(feat, kind="result-of-wrong-type"), {"recv": recv, "args": combo, "advertised": ret, "got": g.get("res")})
    # ---- (2b) fields named like members: where the analyzer accepts such a field, it is the field - on both runtimes,
    # read, written and displayed - and not the builtin of that name
    names = sorted(set(m for t in tables.values() for m in t) | {"get", "set", "len", "push", "unwrap", "start"})
    freqs, fmeta = [], []
    for nm in names:
        srcs = {
            "literal": "fn main() { let o = new { %s: 41 }; println(o.%s + 1); o.%s = 5; o.%s += 2; println(o.%s); println(o); }\n" % (nm, nm, nm, nm, nm),
            "cast": "type K = { %s: int };\nfn main() { let v = \"{\\\"%s\\\": 7}\".parse_json() as K; println(v.%s + 1); v.%s = 2; println(v.%s, v); }\n" % (nm, nm, nm, nm, nm),
            "annotated": "fn show(o: { %s: str, other: int }) -> str { o.%s + \"!\" }\nfn main() { println(show(new { %s: \"f\", other: 1 })); }\n" % (nm, nm, nm),
        }
        for how, src in srcs.items():
            for b in ("vm", "tree"):
                freqs.append({"op": "run", "id": len(freqs), "a": {"modules": {"main": src}, "entry": "main", "backend": b, "timeout_ms": 8000}})
                fmeta.append((nm, how, b, src))
    want = {"literal": "42\n7\n{\n    %s: 7\n}\n", "cast": "8\n2 {\n    %s: 2\n}\n", "annotated": "f!\n"}
    naccepted = 0
    for (nm, how, b, src), r in zip(fmeta, pool.map(freqs, timeout=30)):
        rep.count()
        rep.nontrivial(("field-name", nm, how, b))
        feat = {"family": "field-named-like-member", "lib": b, "how": how, "member": nm}
        if "crash" in r or "hang" in r:
            from .sem import panic_class
            rep.fail(dict(feat, kind="hostcrash" if "crash" in r else "hang", panic=panic_class((r.get("crash") or {}).get("stderr", ""))),
                     {"program": src, "real": str(r)[:1200]})
            continue
        rr = r["r"]
        if not rr["accepted"]:
            continue                  # (the analyzer may refuse the name; then there is nothing to run)
        naccepted += 1
        exp = want[how] % nm if "%s" in want[how] else want[how]
        if rr["out"] != exp or (rr.get("outcome") or {}).get("kind") != "done":
            rep.fail(dict(feat, kind="field-shadowed-by-member"), {"program": src, "want": exp, "got": rr["out"], "outcome": rr.get("outcome")})
    rep.notes["field_named_like_member_programs_accepted"] = naccepted
    # ---- (3) specified behaviour
    r = C.run_tlc("HmsMembers", "SPECIFICATION Spec\nINVARIANTS LenLaws Export\nCHECK_DEADLOCK FALSE\n", timeout=600)
    C.tlc_must_pass(r, "HmsMembers")
    rep.add_tlc(r)
    cases = r.cases
    res = pool.map([{"op": "member", "id": i, "a": {"v": to_sv(c["recv"]), "m": c["m"], "args": [to_sv(a) for a in c["args"]],
                                                    "idx": c["m"] == "index"}} for i, c in enumerate(cases)], timeout=30)
    for c, rr in zip(cases, res):
        rep.count()
        rep.nontrivial(("spec", json.dumps(c["recv"]), c["m"], json.dumps(c["args"])))
        exp = c["r"]
        if exp.get("undecided"):
            continue
        if "crash" in rr or "hang" in rr:
            rep.fail({"family": "behaviour", "member": c["m"], "recv_kind": c["recv"]["k"], "kind": "hostcrash"}, {"case": c, "real": str(rr)[:800]})
            continue
        for lib in ("vm", "tree"):
            g = rr["r"][lib]
            feat = {"family": "behaviour", "lib": lib, "member": c["m"], "recv_kind": c["recv"]["k"]}
            if "panic" in g:
                rep.fail(dict(feat, kind="panic"), {"case": c, "panic": g["panic"]})
                continue
            if g.get("missing"):
                continue
            if "field" in g:          # a plain field (range.start / end)
                g = {"res": g["field"], "recv": to_sv(c["recv"])}
            if not exp["ok"]:
                if "interrupt" not in g:
                    rep.fail(dict(feat, kind="no-interrupt-on-out-of-range"), {"case": c, "got": g})
                continue
            if "interrupt" in g:
                rep.fail(dict(feat, kind="unexpected-interrupt"), {"case": c, "got": g})
                continue
            if norm(g["res"]) != norm(to_sv(exp["res"])):
                rep.fail(dict(feat, kind="wrong-result"), {"case": c, "got": g["res"], "want": to_sv(exp["res"])})
            elif norm(g["recv"]) != norm(to_sv(exp["recv"])):
                rep.fail(dict(feat, kind="wrong-receiver-afterwards"), {"case": c, "got": g["recv"], "want": to_sv(exp["recv"])})
    for c in rnd.sample(cases, 3):
        rep.sample({"receiver": to_sv(c["recv"]), "member": c["m"], "args": [to_sv(a) for a in c["args"]], "specified": c["r"]})
    rep.cov["exhaustive"] = True
    return rep.finish()
