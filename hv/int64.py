"""The 64-bit boundary arithmetic family: cases from HmsInt64 (TLC) rendered as programs."""
import json

from . import common as C

OPS_SRC = {"neg": "-", "not": "!"}


def bits_to_int(bits):
    n = sum(b << i for i, b in enumerate(bits))
    return n - (1 << 64) if bits[63] else n


def lit(n):
    if n == -(1 << 63):
        return "(0 - 9223372036854775807 - 1)"
    if n < 0:
        return "(0 - %d)" % -n
    return str(n)


def run_family(rep, pool, backends=("vm",), timeout=1800):
    r = C.run_tlc("HmsInt64", "SPECIFICATION Spec\nINVARIANTS Laws Export\nCHECK_DEADLOCK FALSE\n", timeout=timeout, heap="16g")
    C.tlc_must_pass(r, "HmsInt64")
    rep.add_tlc(r)
    cases = sorted(r.cases, key=lambda c: (c["op"], json.dumps(c["a"]), json.dumps(c["b"])))
    decided, fatal, undecided = [], [], []
    for c in cases:
        a, b = bits_to_int(c["a"]), bits_to_int(c["b"])
        k = c["r"]["k"]
        if c["op"] in OPS_SRC:
            expr = "(%sx)" % OPS_SRC[c["op"]]
        else:
            expr = "(x %s y)" % c["op"]
        item = (c["op"], a, b, expr)
        if k == "v":
            decided.append(item + (str(bits_to_int(c["r"]["v"])),))
        elif k == "b":
            decided.append(item + ("true" if c["r"]["v"] else "false",))
        elif k == "fatal":
            fatal.append(item)
        else:
            undecided.append(item)
    progs = []      # (source, expected output or None, expected outcome, ops)
    CH = 40
    for i in range(0, len(decided), CH):
        chunk = decided[i:i + CH]
        body, out = [], []
        for op, a, b, expr, want in chunk:
            body.append("    { let x = %s; let y = %s; println(\"%s\", x, y, %s); }" % (lit(a), lit(b), op, expr))
            out.append("%s %d %d %s" % (op, a, b, want))
        progs.append(("fn main() {\n" + "\n".join(body) + "\n}\n", "\n".join(out) + "\n", "done", sorted({c[0] for c in chunk})))
    for op, a, b, expr in fatal:
        progs.append(("fn main() {\n    let x = %s; let y = %s; println(\"before\"); println(%s); println(\"after\");\n}\n" % (lit(a), lit(b), expr),
                      "before\n", "fatal:ValueError", [op]))
    for op, a, b, expr in undecided:
        # no specified value, but the host must survive (C02) and both backends should at least terminate
        progs.append(("fn main() {\n    let x = %s; let y = %s; println(%s); println(\"after\");\n}\n" % (lit(a), lit(b), expr), None, None, [op]))
    reqs = []
    meta = []
    for src, out, oc, ops in progs:
        for b in backends:
            reqs.append({"op": "run", "id": len(reqs), "a": {"modules": {"main": src}, "entry": "main", "backend": b, "timeout_ms": 8000}})
            meta.append((src, out, oc, ops, b))
    res = pool.map(reqs, timeout=30)
    undecided_seen = {}
    for (src, out, oc, ops, b), rr in zip(meta, res):
        rep.count()
        rep.nontrivial(src)
        feat = {"family": "int64", "backend": b, "ops": ops, "decided": out is not None}
        if "crash" in rr or "hang" in rr:
            from .sem import panic_class
            rep.fail(dict(feat, kind="hostcrash" if "crash" in rr else "hang", op=ops[0] if len(ops) == 1 else "several",
                          panic=panic_class((rr.get("crash") or {}).get("stderr", ""))), {"program": src, "real": str(rr)[:1500]})
            continue
        g = rr["r"]
        if not g["accepted"]:
            raise C.Machinery("int64 program rejected: %s\n%s" % ([d for d in g["diags"] if d["level"] == "Error"][:2], src[:300]))
        if out is None:
            # no specified value - but what one backend answers the other must answer, too (C04)
            oc_now = (g["out"], g["outcome"]["kind"], g["outcome"].get("fatal"))
            other = undecided_seen.setdefault(src, (b, oc_now))
            if other[0] != b and other[1] != oc_now:
                rep.fail(dict(feat, kind="backends-disagree", op=ops[0]), {"program": src, other[0]: other[1], b: oc_now})
            continue
        got_oc = g["outcome"]["kind"] + (":" + g["outcome"].get("fatal", "") if g["outcome"]["kind"] == "fatal" else "")
        if g["out"] != out or got_oc != oc:
            # find the first differing line for the report
            gl, wl = g["out"].split("\n"), out.split("\n")
            first = next((i for i, (x, y) in enumerate(zip(gl, wl)) if x != y), min(len(gl), len(wl)))
            rep.fail(dict(feat, kind="wrong-result", op=(wl[first].split(" ")[0] if first < len(wl) and wl[first] else "?")),
                     {"program": src, "want_line": wl[first] if first < len(wl) else None,
                      "got_line": gl[first] if first < len(gl) else None, "outcome": g["outcome"]})
    rep.notes["int64_cases"] = {"decided": len(decided), "fatal": len(fatal), "undecided": len(undecided)}
    if decided:
        op, a, b, expr, want = decided[len(decided) // 2]
        rep.sample({"family": "int64", "expression": "%d %s %d" % (a, op, b), "specified": want})
