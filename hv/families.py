"""Program families (spec AST) for the semantic checks."""
import itertools
import random

from .progs import *  # noqa: F401,F403
from . import progs as P

# =============================================================================================
# C11: nestings of {loop, while, for, block, if, match arm, match default, try, catch, call}
#      around each of {break, continue, return, throw, fatal}, followed by further code
# =============================================================================================
CTX = ["loop", "while", "for", "block", "if", "arm", "dflt", "try", "catch", "call", "lit"]
EXITS = ["break", "continue", "return", "throw", "fatal", "none", "retthrow", "exprthrow", "inlinethrow", "tailthrow", "tailbreak", "tailcontinue"]
LOOPS = ("loop", "while", "for")


def legal(ctxs, exit_):
    """break/continue need a loop in the same function"""
    if exit_ in ("break", "continue", "tailbreak", "tailcontinue"):
        for c in reversed(ctxs):
            if c in LOOPS:
                return True
            if c in ("call", "lit"):
                return False
        return False
    return True


class NestGen:
    def __init__(self, pid):
        self.pid = pid
        self.fns = {}
        self.n = 0

    def fresh(self, base):
        self.n += 1
        return "%s%d" % (base, self.n)

    def exit_stmts(self, exit_, in_fn):
        if exit_ == "break":
            return [Break()]
        if exit_ == "continue":
            return [Continue()]
        if exit_ == "return":
            return [Ret(I(3)) if in_fn else Ret()]
        if exit_ == "throw":
            return [Expr(Call("throw", S("boom")))]
        if exit_ == "fatal":
            return [Print(Bin("/", I(1), V("zero")))]
        if exit_ == "retthrow":
            # the exception is raised while the operand of `return` is evaluated: the handlers around it are still in force
            self.need_boom = True
            return [Ret(Call("boom")) if in_fn else Ret(Call("boomn"))]
        if exit_ in ("tailthrow", "tailbreak", "tailcontinue"):
            # the exit is the LAST EXPRESSION of a block with a local of its own (no `;` after it): the block is left through
            # its value position
            self.need_boom = True
            tail = {"tailthrow": Call("boom"), "tailbreak": If(V("yes"), Block([Break()])), "tailcontinue": If(V("yes"), Block([Continue()]))}[exit_]
            return [Expr(Block([Let("lv", I(99)), Print(S("tail"), V("lv"))], tail))]
        if exit_ == "inlinethrow":
            # ... raised by the expression itself (no call in between), with an operand already evaluated
            return [Let("half", Bin("+", V("one"), Bin("*", I(2), Block([Expr(Call("throw", S("boom")))], I(1))))), Print(S("half"), V("half"))]
        if exit_ == "exprthrow":
            # ... or in the middle of an expression with an operand already evaluated
            self.need_boom = True
            return [Let("half", Bin("+", V("one"), Call("boom"))), Print(S("half"), V("half"))]
        return []

    def wrap(self, ctxs, exit_, depth, in_fn):
        """statements for the nest ctxs[depth:] with the exit in the innermost position"""
        tag = "d%d" % depth
        if depth == len(ctxs):
            return [Print(S("pre"))] + self.exit_stmts(exit_, in_fn) + [Print(S("post"))]
        c = ctxs[depth]
        if c == "call":
            name = self.fresh("callee")
            inner = self.wrap(ctxs, exit_, depth + 1, True)
            self.fns[name] = Fn([], Block([Let("lv", I(10 + depth)), Print(S(tag + "-in"))] + inner +
                                          [Print(S(tag + "-lv"), V("lv"))], I(7)), ret="int")
            return [Print(S(tag + "-ret"), Call(name)), Print(S(tag + "-after"), V("lv"))]
        # every construct that opens a scope declares a local of the same name `lv`: once the construct has been left -
        # whichever way - the name means the enclosing level's variable again (a scope left behind would answer instead)
        if c == "lit":
            # a function literal made and called right here, inside whatever surrounds it (handlers, loops): its body is a
            # function body of its own (it uses globals and its own locals only)
            name = self.fresh("lit")
            inner = self.wrap(ctxs, exit_, depth + 1, True)
            lit = FnLit([], Block([Let("lv", I(10 + depth)), Print(S(tag + "-in"))] + inner + [Print(S(tag + "-lv"), V("lv"))], I(7)), "int")
            return [Let(name, lit), Print(S(tag + "-ret"), CallV(V(name))), Print(S(tag + "-after"), V("lv"))]
        inner = [Let("lv", I(10 + depth)), Print(S(tag + "-in"))] + self.wrap(ctxs, exit_, depth + 1, in_fn) + [Print(S(tag + "-end"), V("lv"))]
        after = [Print(S(tag + "-after"), V("lv"))]
        if c == "block":
            return [Expr(Block(inner))] + after
        if c == "if":
            return [Expr(If(V("yes"), Block(inner)))] + after
        if c == "arm":
            return [Expr(Match(V("one"), [([I(1)], Block(inner))], Block([Print(S(tag + "-dflt"))])))] + after
        if c == "dflt":
            return [Expr(Match(V("one"), [([I(2), I(3)], Block([Print(S(tag + "-arm"))]))], Block(inner)))] + after
        if c == "try":
            ev = self.fresh("e")
            return [Expr(Try(Block(inner), ev, Block([Print(S(tag + "-caught"), Mem(V(ev), "message"))])))] + after
        if c == "catch":
            ev = self.fresh("e")
            return [Expr(Try(Block([Expr(Call("throw", S("first" + tag)))]), ev,
                             Block([Print(S(tag + "-handler"), Mem(V(ev), "message"))] + inner)))] + after
        cnt = self.fresh("i")
        if c == "loop":
            body = [Asg(V(cnt), I(1), "+="), Expr(If(Bin(">", V(cnt), I(2)), Block([Break()])))]
            return [Let(cnt, I(0)), Loop(Block([Expr(s) if s["k"] == "asg" else s for s in body] + inner)),
                    Print(S(tag + "-cnt"), V(cnt))] + after
        if c == "while":
            return [Let(cnt, I(0)), While(Bin("<", V(cnt), I(2)), Block([Expr(Asg(V(cnt), I(1), "+="))] + inner)),
                    Print(S(tag + "-cnt"), V(cnt))] + after
        if c == "for":
            return [For(cnt, Range(I(0), I(2)), Block([Print(S(tag + "-it"), V(cnt))] + inner))] + after
        raise ValueError(c)

    def program(self, ctxs, exit_, ending="end"):
        self.fns = {}
        body = [Let("keep", I(41)), Let("lv", I(1)), Print(S("start"))]
        body += self.wrap(ctxs, exit_, 0, False)
        # second use of locals, handlers, loops and the operand stack
        e2 = self.fresh("e")
        q = self.fresh("q")
        body += [Print(S("keep"), Bin("+", V("keep"), V("one"))),
                 Expr(Try(Block([Expr(Call("throw", S("again")))]), e2, Block([Print(S("c2"), Mem(V(e2), "message"))]))),
                 For(q, Range(I(0), I(2)), Block([Print(S("q"), V(q))])),
                 # an exception raised and caught inside an expression whose first operand is waiting
                 Print(S("sum"), Bin("+", I(10), Try(Block([], Bin("+", V("one"), Block([Expr(Call("throw", S("t")))], I(1)))), self.fresh("e"), Block([], I(5))))),
                 Print(S("end"), V("lv"))]
        if ending == "throw":
            # a handler left installed by the nest would wrongly catch this one
            body += [Expr(Call("throw", S("final")))]
        fns = dict(self.fns)
        if getattr(self, "need_boom", False):
            fns["boom"] = Fn([], Block([Expr(Call("throw", S("boom")))], I(0)), ret="int")
            fns["boomn"] = Fn([], Block([Expr(Call("throw", S("boom")))]))
        fns["main"] = Fn([], Block(body))
        feats = {"family": "nest", "ctxs": "/".join(ctxs), "exit": exit_, "depth": len(ctxs),
                 "throw_depth": sum(1 for c in ctxs[_first_try(ctxs):] if c in ("call", "lit")) if exit_ in ("throw", "retthrow", "exprthrow", "inlinethrow", "tailthrow") else -1,
                 "exit_inside_try": _inside(ctxs, "try"), "exit_inside_catch": _inside(ctxs, "catch"),
                 "has_call": "call" in ctxs or "lit" in ctxs, "has_dflt": "dflt" in ctxs, "ending": ending}
        return Program(self.pid, fns, globs=[("zero", I(0)), ("one", I(1)), ("yes", B(True))], feats=feats)


def _first_try(ctxs):
    """index of the innermost try enclosing the exit (dynamically), or 0"""
    for i in range(len(ctxs) - 1, -1, -1):
        if ctxs[i] == "try":
            return i
    return 0


def _inside(ctxs, what):
    return what in ctxs


def nestings(max_depth, rnd=None, sample=None):
    progs = []
    n = 0
    combos = []
    for d in range(0, max_depth + 1):
        for ctxs in itertools.product(CTX, repeat=d):
            for ex in EXITS:
                if ex == "none" and d > 1:
                    continue
                if legal(ctxs, ex):
                    combos.append((ctxs, ex))
    if sample is not None and len(combos) > sample:
        keep = [c for c in combos if len(c[0]) < max_depth]
        rest = [c for c in combos if len(c[0]) == max_depth]
        rnd.shuffle(rest)
        combos = keep + rest[:max(0, sample - len(keep))]
    for ctxs, ex in combos:
        for ending in ("end", "throw"):
            n += 1
            progs.append(NestGen("nest%d" % n).program(list(ctxs), ex, ending))
    return progs


# =============================================================================================
# C01 F1: operators x operand values (small values; 64-bit boundaries are HmsInt64's family)
# =============================================================================================
INT_OPS = ["+", "-", "*", "/", "%", "**", "<<", ">>", "&", "|", "^", "<", "<=", ">", ">=", "==", "!="]
INT_VALS = [-7, -2, -1, 0, 1, 2, 3, 5, 63, 1000]
BOOL_OPS = ["&", "|", "^", "&&", "||", "==", "!="]
FLT_OPS = ["+", "-", "*", "/", "<", "<=", ">", ">=", "==", "!="]
FLT_VALS = [(1, 1), (3, 1), (-4, 1), (1, 2), (6, 1), (0, 0), (5, 0)]
STR_VALS = ["", "a", "ab", "b c"]


def operator_programs():
    progs = []
    n = 0

    def add(stmts, feats):
        nonlocal n
        n += 1
        progs.append(Program("op%d" % n, {"main": Fn([], Block(stmts))}, feats=dict(feats, family="ops")))

    # several operator applications per program keep the number of runs reasonable
    for op in INT_OPS:
        for a in INT_VALS:
            stmts = [Let("a", I(a))]
            for b in INT_VALS:
                if op in ("/", "%") and b == 0:
                    continue
                stmts += [Let("b", I(b)), Print(S(op), V("a"), V("b"), Bin(op, V("a"), V("b"))),
                          Print(Bin(op, I(a), I(b)))]
            add(stmts, {"op": op, "ty": "int", "a": a})
        for a in (5, -5, 0):
            if op in ("/", "%"):
                add([Let("a", I(a)), Let("z", I(0)), Print(S("before")), Print(Bin(op, V("a"), V("z"))), Print(S("after"))],
                    {"op": op, "ty": "int", "zero_divisor": True})
    for op in BOOL_OPS:
        stmts = []
        for a in (True, False):
            for b in (True, False):
                stmts += [Let("a", B(a)), Let("b", B(b)), Print(S(op), Bin(op, V("a"), V("b")), Bin(op, B(a), B(b)))]
        add(stmts, {"op": op, "ty": "bool"})
    for op in FLT_OPS:
        for a in FLT_VALS:
            stmts = [Let("a", F(*a))]
            for b in FLT_VALS:
                if op == "/" and b[0] == 0:
                    continue
                stmts += [Let("b", F(*b)), Print(S(op), Bin(op, V("a"), V("b")))]
            add(stmts, {"op": op, "ty": "float"})
    add([Let("a", F(3, 1)), Let("z", F(0, 0)), Print(Bin("/", V("a"), V("z")))], {"op": "/", "ty": "float", "zero_divisor": True})
    for op in ("+", "==", "!="):
        stmts = []
        for a in STR_VALS:
            for b in STR_VALS:
                stmts += [Let("a", S(a)), Let("b", S(b)), Print(S("["), Bin(op, V("a"), V("b")), S("]"))]
        add(stmts, {"op": op, "ty": "str"})
    # prefix operators
    stmts = []
    for a in INT_VALS:
        stmts += [Let("a", I(a)), Print(Un("-", V("a")), Un("!", V("a")), Un("?", V("a")))]
    for a in (True, False):
        stmts += [Let("c", B(a)), Print(Un("!", V("c")), Un("?", V("c")))]
    for a in FLT_VALS:
        stmts += [Let("f", F(*a)), Print(Un("-", V("f")))]
    add(stmts, {"op": "prefix", "ty": "mixed"})
    # compound assignment on variables, list elements and object fields
    for op in ["+=", "-=", "*=", "/=", "%=", "**=", "<<=", ">>=", "|=", "&=", "^="]:
        stmts = [Let("x", I(12)), Let("l", List(I(12), I(5))), Let("o", Obj(f=I(12)))]
        for b in (1, 2, 3):
            stmts += [Expr(Asg(V("x"), I(b), op)), Expr(Asg(Idx(V("l"), I(0)), I(b), op)),
                      Expr(Asg(Mem(V("o"), "f"), I(b), op)), Print(S(op), V("x"), V("l"), Mem(V("o"), "f"))]
        add(stmts, {"op": op, "ty": "int", "compound": True})
    return progs


# =============================================================================================
# C01 F3-F5: scoping, sharing, snapshot, branch values, calls (hand-written templates)
# =============================================================================================
def template_programs():
    progs = []

    def add(name, fns, globs=(), **feats):
        progs.append(Program("t_" + name, fns, globs, feats=dict(feats, family="templates", template=name)))

    def main(*stmts):
        return {"main": Fn([], Block(list(stmts)))}

    # threads whose functions have no effect but their result: joined at once, later, twice, in a loop, from a list, by a callee
    pure = {"sq": Fn(["n"], Block([], Bin("*", V("n"), V("n"))), "int"),
            "cat": Fn(["a", "b"], Block([], Bin("+", V("a"), V("b"))), "str", ["str", "str"]),
            "fact": Fn(["n"], Block([], If(Bin("<=", V("n"), I(1)), Block([], I(1)), Block([], Bin("*", V("n"), Call("fact", Bin("-", V("n"), I(1))))))), "int"),
            "nothing": Fn(["n"], Block([]), "null", ["int"]),
            "both": Fn(["n"], Block([Let("a", Spawn("sq", V("n"))), Let("b", Spawn("fact", V("n")))],
                                    Bin("+", MCall(V("a"), "join"), MCall(V("b"), "join"))), "int")}
    add("threads_joined", dict(pure, main=Fn([], Block([
        Let("h", Spawn("sq", I(7))), Let("g", Spawn("cat", S("a"), S("b"))), Print(MCall(V("h"), "join"), MCall(V("g"), "join"), MCall(V("h"), "join")),
        Let("t", I(0)), For("i", Range(I(0), I(4)), Block([Let("w", Spawn("fact", Bin("+", V("i"), I(1)))), Expr(Asg(V("t"), MCall(V("w"), "join"), "+="))])), Print(V("t")),
        Let("q", Spawn("nothing", I(1))), Expr(MCall(V("q"), "join")), Print(S("after")),
        Let("hs", List(Spawn("sq", I(2)), Spawn("sq", I(3)))), For("x", V("hs"), Block([Print(MCall(V("x"), "join"))])),
        Print(Call("both", I(4))), Let("n", I(5)), Let("late", Spawn("sq", V("n"))), Expr(Asg(V("n"), I(6))), Print(MCall(V("late"), "join"), V("n"))]))))
    # the builtin `throw` is a name like any other: it can be taken as a value and hidden by a variable
    add("throw_as_value_and_hidden", {"main": Fn([], Block([
        Let("t", V("throw")), Expr(Try(Block([Expr(CallV(V("t"), S("x"))), Print(S("not reached"))]), "e", Block([Print(S("caught"), Mem(V("e"), "message"))]))),
        Expr(Block([Let("throw", FnLit(["s"], Block([], Bin("+", V("s"), S("!"))), "str", ["str"])), Print(Call("throw", S("kept")))])),
        Expr(Try(Block([Expr(Call("throw", S("real")))]), "e", Block([Print(S("caught"), Mem(V("e"), "message"))]))), Print(S("end"))]))})
    # a loop which is left by a break goes on to what follows it, whatever other loops stand behind that break in its body (what is
    # known about the outer loop must survive the inner one): the statements after the loop are live code for the optimizer, too
    for inner_name, inner in (("while", lambda: While(Bin("<", V("k"), I(2)), Block([Expr(Asg(V("k"), I(1), "+="))]))),
                              ("for", lambda: For("q", Range(I(0), I(2)), Block([Expr(Asg(V("k"), I(1), "+="))]))),
                              ("loop", lambda: Loop(Block([Expr(Asg(V("k"), I(1), "+=")), Expr(If(Bin(">", V("k"), I(1)), Block([Break()])))])))):
        add("break_before_nested_" + inner_name, {"count": Fn(["n"], Block([Let("i", I(0)),
                Loop(Block([Expr(If(Bin(">=", V("i"), V("n")), Block([Break()]))), Let("k", I(0)), inner(), Expr(Asg(V("i"), V("k"), "+="))])),
                Print(S("after"), V("i"))], Bin("+", V("i"), I(1))), "int"),
            "main": Fn([], Block([Let("i", I(0)),
                Loop(Block([Expr(If(Bin(">=", V("i"), I(2)), Block([Break()]))), Let("k", I(0)), inner(), Expr(Asg(V("i"), I(1), "+="))])),
                Print(S("after"), V("i")), Print(Call("count", I(3)))]))})
    # shadowing in nested blocks
    add("shadow", main(Let("x", I(1)), Expr(Block([Let("x", I(2)), Print(V("x")),
                                                  Expr(Block([Let("x", I(3)), Print(V("x"))])), Print(V("x"))])),
                       Print(V("x"))))
    add("shadow_assign_outer", main(Let("x", I(1)), Expr(Block([Expr(Asg(V("x"), I(5))), Let("x", I(2)),
                                                               Expr(Asg(V("x"), I(9))), Print(V("x"))])), Print(V("x"))))
    # aliasing of lists / objects, copying of scalars
    add("alias_list", main(Let("a", List(I(1), I(2))), Let("b", V("a")), Expr(MCall(V("b"), "push", I(3))),
                           Expr(Asg(Idx(V("b"), I(0)), I(9))), Print(V("a"), V("b"))))
    add("alias_obj", main(Let("a", Obj(f=I(1))), Let("b", V("a")), Expr(Asg(Mem(V("b"), "f"), I(7))),
                          Print(Mem(V("a"), "f"), Mem(V("b"), "f"))))
    add("copy_scalar", main(Let("a", I(1)), Let("b", V("a")), Expr(Asg(V("b"), I(2))), Print(V("a"), V("b")),
                            Let("s", S("x")), Let("t", V("s")), Expr(Asg(V("t"), S("y"))), Print(V("s"), V("t"))))
    add("scalar_in_list", main(Let("x", I(1)), Let("l", List(V("x"), V("x"))), Expr(Asg(Idx(V("l"), I(0)), I(5))),
                               Print(V("x"), V("l"))), scalar_in_list=True)
    add("scalar_in_list_then_var", main(Let("x", I(1)), Let("l", List(V("x"))), Expr(Asg(V("x"), I(8))),
                                        Print(V("x"), V("l"))), scalar_in_list=True)
    add("scalar_in_obj", main(Let("x", I(1)), Let("o", Obj(f=V("x"))), Expr(Asg(Mem(V("o"), "f"), I(5))),
                              Print(V("x"), Mem(V("o"), "f"))), scalar_in_obj=True)
    add("list_in_list", main(Let("i", List(I(1))), Let("o", List(V("i"), V("i"))), Expr(MCall(V("i"), "push", I(2))),
                             Print(V("o"))))
    add("param_list_shared", {"f": Fn(["l"], Block([Expr(MCall(V("l"), "push", I(9)))]), pts=["[int]"]),
                              "main": Fn([], Block([Let("a", List(I(1))), Expr(Call("f", V("a"))), Print(V("a"))]))})
    add("param_scalar_copied", {"f": Fn(["n"], Block([Expr(Asg(V("n"), I(9))), Print(V("n"))])),
                                "main": Fn([], Block([Let("a", I(1)), Expr(Call("f", V("a"))), Print(V("a"))]))})
    # every loop over a value starts at its beginning: after a loop that was left early, inside a loop over the same value,
    # and on a second call of the function that contains it
    for kind, mk, ty in (("str", lambda: S("abc"), "str"), ("list", lambda: List(I(1), I(2), I(3)), "[int]"), ("range", lambda: Range(I(0), I(3)), "range")):
        add("iter_again_after_break_" + kind, main(Let("v", mk()), For("c", V("v"), Block([Print(S("first"), V("c")), Expr(If(B(True), Block([Break()])))])),
                                                  For("c", V("v"), Block([Print(S("second"), V("c"))]))))
        add("iter_nested_same_" + kind, main(Let("v", mk()), For("a", V("v"), Block([For("b", V("v"), Block([Print(V("a"), V("b"))]))]))))
        add("iter_return_twice_" + kind, {"firstof": Fn(["v"], Block([For("c", V("v"), Block([Print(S("see"), V("c")), Ret(I(1))]))], I(0)), "int", [ty]),
                                          "lit": Fn([], Block([For("c", mk(), Block([Print(S("lit"), V("c")), Ret(I(1))]))], I(0)), "int"),
                                          "main": Fn([], Block([Let("v", mk()), Print(Call("firstof", V("v"))), Print(Call("firstof", V("v"))),
                                                                Print(Call("lit")), Print(Call("lit"))]))})
        add("iter_continue_then_again_" + kind, main(Let("v", mk()), Let("n", I(0)),
                                                     For("c", V("v"), Block([Expr(Asg(V("n"), I(1), "+=")), Expr(If(Bin("==", V("n"), I(2)), Block([Continue()]))), Print(S("a"), V("c"))])),
                                                     For("c", V("v"), Block([Print(S("b"), V("c"))]))))
    # scalar conversions with `as`: int <-> float truncates toward zero, 0 is false
    add("casts_scalar", main(*([Print(As(F(n, sh), "int"), As(Un("-", F(n, sh)), "int"), As(F(n, sh), "bool"), As(F(n, sh), "float")) for n, sh in ((5, 1), (7, 2), (1, 1), (15, 3), (8, 0))] +
                               [Print(As(I(n), "float"), As(I(n), "bool"), As(Un("-", I(n)), "float"), As(I(n), "int")) for n in (0, 1, 2, 7)] +
                               [Print(As(B(b), "int"), As(B(b), "float"), As(B(b), "bool")) for b in (True, False)] +
                               [Let("x", As(Bin("+", As(I(7), "float"), F(1, 1)), "int")), Print(Bin("*", V("x"), I(2)), Bin("/", As(V("x"), "float"), F(4, 0)))])))
    # reading a scalar out of a list / object into a variable or a parameter copies it
    add("extract_then_mutate", {"bump": Fn(["n"], Block([Expr(Asg(V("n"), I(100), "+=")), Print(S("n"), V("n"))])),
                                "main": Fn([], Block([Let("xs", List(I(1), I(2))), Let("x", Idx(V("xs"), I(0))), Expr(Asg(Idx(V("xs"), I(0)), I(9))), Print(V("x"), V("xs")),
                                                      Let("o", Obj(f=I(1), g=S("s"))), Let("y", Mem(V("o"), "f")), Expr(Asg(Mem(V("o"), "f"), I(5))), Print(V("y"), Mem(V("o"), "f")),
                                                      Expr(Asg(V("x"), I(7))), Print(V("x"), V("xs")), Expr(Call("bump", Idx(V("xs"), I(1)))), Expr(Call("bump", Mem(V("o"), "f"))),
                                                      Print(V("xs"), Mem(V("o"), "f"))]))})
    add("many_shadowed_names", main(*([Let("x", I(i)) for i in range(12)] + [Let("x1", I(100)), Let("x10", I(200)), Print(V("x"), V("x1"), V("x10")),
                                                                                Expr(Asg(V("x1"), I(7))), Print(V("x"), V("x1"), V("x10"))])))
    # for iterates over a snapshot
    add("for_snapshot_push", main(Let("l", List(I(1), I(2))),
                                  For("x", V("l"), Block([Expr(MCall(V("l"), "push", Bin("*", V("x"), I(10)))),
                                                          Print(V("x"))])), Print(V("l"))), for_mutates=True)
    add("for_snapshot_pop", main(Let("l", List(I(1), I(2), I(3))),
                                 For("x", V("l"), Block([Expr(MCall(V("l"), "pop")), Print(V("x"))])), Print(V("l"))),
        for_mutates=True)
    add("for_nested_same_list", main(Let("l", List(I(1), I(2))),
                                     For("x", V("l"), Block([For("y", V("l"), Block([Print(V("x"), V("y"))]))]))))
    add("for_break_then_again", main(Let("l", List(I(1), I(2), I(3))),
                                     For("x", V("l"), Block([Print(V("x")), Expr(If(Bin("==", V("x"), I(2)), Block([Break()])))])),
                                     For("y", V("l"), Block([Print(V("y"))]))), for_break_reuse=True)
    add("for_inner_mutation", main(Let("a", List(I(1))), Let("o", List(V("a"), List(I(5)))),
                                   For("x", V("o"), Block([Expr(MCall(V("x"), "push", I(9)))])), Print(V("o"), V("a"))),
        for_inner_mutation=True)
    add("for_loopvar_is_copy", main(Let("l", List(I(1), I(2))), For("x", V("l"), Block([Expr(Asg(V("x"), I(0)))])), Print(V("l"))))
    add("for_range_forms", main(For("a", Range(I(0), I(3)), Block([Print(V("a"))])),
                                For("b", Range(I(0), I(3), True), Block([Print(V("b"))])),
                                For("c", Range(I(3), I(0)), Block([Print(V("c"))])),
                                For("d", Range(I(2), I(2)), Block([Print(V("d"))])),
                                For("e", Range(I(2), I(2), True), Block([Print(V("e"))]))))
    add("for_string", main(For("ch", S("abc"), Block([Print(V("ch"))]))), for_string=True)
    add("for_loop_var_assign", main(For("a", Range(I(0), I(3)), Block([Expr(Asg(V("a"), I(7))), Print(V("a"))]))))
    # if / match / block / try as values
    add("if_value", main(Let("t", B(True)), Let("a", If(V("t"), Block([], I(1)), Block([], I(2)))),
                         Let("b", If(Un("!", V("t")), Block([], I(1)), Block([], I(2)))), Print(V("a"), V("b")),
                         Print(Bin("+", If(V("t"), Block([], I(10)), Block([], I(20))), I(1)))))
    add("match_value", main(Let("n", I(2)),
                            Let("a", Match(V("n"), [([I(1)], S("one")), ([I(2), I(3)], S("two-three"))], S("other"))),
                            Let("b", Match(I(9), [([I(1)], S("one"))], S("other"))), Print(V("a"), V("b"))), has_dflt=True)
    add("match_default_in_loop", main(For("i", Range(I(0), I(4)),
                                          Block([Print(Match(V("i"), [([I(1)], S("one"))], S("dflt")))])),
                                      Print(S("done"))), has_dflt=True, match_default_loop=True)
    add("match_no_default_stmt", main(For("i", Range(I(0), I(3)),
                                          Block([Expr(Match(V("i"), [([I(1)], Block([Print(S("one"))]))]))])),
                                      Print(S("done"))))
    add("match_str_bool", main(Print(Match(S("b"), [([S("a")], I(1)), ([S("b")], I(2))], I(0)),
                                     Match(B(False), [([B(True)], I(1))], I(0)))), has_dflt=True)
    add("block_value", main(Let("a", Block([Let("t", I(4))], Bin("*", V("t"), I(2)))), Print(V("a"))))
    add("try_value", main(Let("a", Try(Block([], I(1)), "e", Block([], I(2)))),
                          Let("b", Try(Block([Expr(Call("throw", S("x")))], I(1)), "e", Block([], I(2)))),
                          Print(V("a"), V("b"))))
    add("catch_ident_shadows", main(Let("e", I(1)), Expr(Try(Block([Expr(Call("throw", S("x")))]), "e",
                                                             Block([Print(Mem(V("e"), "message"))]))), Print(V("e"))),
        catch_shadows=True)
    add("catch_fields", main(Expr(Try(Block([Expr(Call("throw", S("msg")))]), "e",
                                      Block([Print(Mem(V("e"), "message"), Mem(V("e"), "line"), Mem(V("e"), "column"),
                                                   Mem(V("e"), "filename"))])))))
    add("throw_nonstring", main(Expr(Try(Block([Expr(Call("throw", I(42)))]), "e", Block([Print(Mem(V("e"), "message"))]))),
                                Expr(Try(Block([Expr(Call("throw", List(I(1), I(2))))]), "e",
                                         Block([Print(Mem(V("e"), "message"))])))))
    # short circuit
    add("short_circuit", {"t": Fn(["n"], Block([Print(S("t"), V("n"))], B(True)), ret="bool"),
                          "f": Fn(["n"], Block([Print(S("f"), V("n"))], B(False)), ret="bool"),
                          "main": Fn([], Block([Print(Bin("&&", Call("f", I(1)), Call("t", I(2)))),
                                                Print(Bin("||", Call("t", I(3)), Call("f", I(4)))),
                                                Print(Bin("&&", Call("t", I(5)), Call("f", I(6)))),
                                                Print(Bin("||", Call("f", I(7)), Call("t", I(8)))),
                                                Print(Bin("&", Call("f", I(9)), Call("t", I(10))))]))})
    # evaluation order
    add("arg_order", {"p": Fn(["n"], Block([Print(S("p"), V("n"))], V("n")), ret="int"),
                      "f3": Fn(["a", "b", "c"], Block([], Bin("-", Bin("-", V("a"), V("b")), V("c"))), ret="int"),
                      "main": Fn([], Block([Print(Call("f3", Call("p", I(1)), Call("p", I(2)), Call("p", I(3))))]))},
        arg_order=True)
    add("operand_order", {"p": Fn(["n"], Block([Print(S("p"), V("n"))], V("n")), ret="int"),
                          "main": Fn([], Block([Print(Bin("-", Call("p", I(1)), Call("p", I(2)))),
                                                Print(List(Call("p", I(3)), Call("p", I(4)))),
                                                Print(Idx(List(I(5), I(6)), Bin("-", Call("p", I(1)), Call("p", I(1)))))]))})
    add("builtin_arg_order", {"p": Fn(["n"], Block([Print(S("p"), V("n"))], V("n")), ret="int"),
                              "main": Fn([], Block([Print(Call("p", I(1)), Call("p", I(2)))]))}, arg_order=True)
    # calls, recursion, function values
    add("recursion", {"fib": Fn(["n"], Block([], If(Bin("<", V("n"), I(2)), Block([], V("n")),
                                                    Block([], Bin("+", Call("fib", Bin("-", V("n"), I(1))),
                                                                  Call("fib", Bin("-", V("n"), I(2))))))), ret="int"),
                      "main": Fn([], Block([Print(Call("fib", I(10)))]))})
    add("return_from_loop", {"f": Fn(["n"], Block([For("i", Range(I(0), I(10)),
                                                       Block([Expr(If(Bin("==", V("i"), V("n")), Block([Ret(Bin("*", V("i"), I(2)))])))]))],
                                                  I(-1)), ret="int"),
                             "main": Fn([], Block([Print(Call("f", I(3)), Call("f", I(20))), Print(Call("f", I(0)))]))})
    add("fn_value", {"dbl": Fn(["n"], Block([], Bin("*", V("n"), I(2))), ret="int"),
                     "main": Fn([], Block([Let("g", V("dbl")), Print(Call("g", I(4)))]))}, fn_value=True)
    add("globals", {"inc": Fn([], Block([Expr(Asg(V("cnt"), I(1), "+="))])),
                    "main": Fn([], Block([Expr(Call("inc")), Expr(Call("inc")), Print(V("cnt"), V("lst")),
                                          Expr(MCall(V("lst"), "push", I(2))), Print(V("lst"))]))},
        globs=[("cnt", I(0)), ("lst", List(I(1)))])
    add("uncaught", main(Print(S("a")), Expr(Call("throw", S("bye"))), Print(S("b"))))
    # the exception is the LAST thing of a block that spans several lines (no `;` after it): its position is its own
    add("uncaught_trailing_if", main(Print(S("a")), Expr(If(B(True), Block([Print(S("in"))], Call("throw", S("bye"))))), Print(S("b"))))
    add("uncaught_trailing_block", main(Print(S("a")), Let("v", Block([Print(S("in"))], Call("throw", S("bye")))), Print(S("b"), V("v"))))
    add("uncaught_trailing_arm", main(Print(S("a")), Expr(Match(I(1), [([I(1)], Block([Print(S("in"))], Call("throw", S("bye"))))], Block([]))), Print(S("b"))))
    add("uncaught_trailing_fn", {"f": Fn([], Block([Print(S("in"))], Call("throw", S("deep")))), "main": Fn([], Block([Print(S("a")), Expr(Call("f")), Print(S("b"))]))})
    add("uncaught_in_callee", {"f": Fn([], Block([Expr(Call("throw", S("deep")))])),
                               "main": Fn([], Block([Print(S("a")), Expr(Call("f")), Print(S("b"))]))})
    add("index_oob", main(Let("l", List(I(1))), Print(Idx(V("l"), I(0)), Idx(V("l"), I(-1))), Print(Idx(V("l"), I(1)))))
    add("index_oob_neg", main(Let("l", List(I(1))), Print(Idx(V("l"), I(-2)))))
    add("index_oob_caught", main(Let("l", List(I(1))), Expr(Try(Block([Print(Idx(V("l"), I(5)))]), "e",
                                                                Block([Print(S("caught"))]))), Print(S("after"))))
    add("string_index", main(Let("s", S("abc")), Print(Idx(V("s"), I(0)), Idx(V("s"), I(-1)))))
    add("null_stmt", main(For("i", Range(I(0), I(3)), Block([Expr(Null()), Expr(I(1)), Expr(S("s"))])), Print(S("ok"))),
        null_stmt=True)
    add("while_counter", main(Let("i", I(0)), Let("s", I(0)),
                              While(Bin("<", V("i"), I(5)), Block([Expr(Asg(V("i"), I(1), "+=")),
                                                                   Expr(If(Bin("==", V("i"), I(3)), Block([Continue()]))),
                                                                   Expr(Asg(V("s"), V("i"), "+="))])), Print(V("i"), V("s"))))
    add("nested_break", main(For("i", Range(I(0), I(3)), Block([For("j", Range(I(0), I(3)), Block([
        Expr(If(Bin("==", V("j"), I(1)), Block([Break()]))), Print(V("i"), V("j"))]))])), Print(S("done"))))
    add("option_members", main(Let("a", Un("?", I(1))), Let("l", List(I(4))), Let("b", MCall(V("l"), "pop")),
                               Let("c", MCall(V("l"), "pop")),
                               Print(MCall(V("a"), "is_some"), MCall(V("a"), "unwrap_or", I(9)), V("b"), V("c"),
                                     MCall(V("c"), "is_none"), MCall(V("c"), "unwrap_or", I(7)))), option=True)
    add("list_members", main(Let("l", List(I(1), I(2))), Print(MCall(V("l"), "len")), Print(MCall(V("l"), "contains", I(2))),
                             Print(MCall(V("l"), "pop")), Print(V("l")), Print(MCall(V("l"), "pop")),
                             Print(MCall(V("l"), "pop")), Print(MCall(V("l"), "len"))))
    add("equality_structural", main(Print(Bin("==", List(I(1), I(2)), List(I(1), I(2))), Bin("==", List(I(1)), List(I(2))),
                                          Bin("!=", List(I(1)), List(I(1), I(2))), Bin("==", Obj(a=I(1)), Obj(a=I(1))),
                                          Bin("==", Un("?", I(1)), Un("?", I(1))), Bin("==", Un("?", I(1)), NoneV()))))
    # a variable named like a function of the module hides it - for a call by name exactly as for any other mention -
    # as long as it is in scope, and not a moment longer
    step = Fn(["n"], Block([], Bin("+", V("n"), I(1))), "int", ["int"])
    times10 = FnLit(["n"], Block([], Bin("*", V("n"), I(10))), "int")
    add("fn_name_hidden_by_parameter", {"step": step,
        "apply": Fn(["step", "n"], Block([], Call("step", V("n"))), "int", ["fn(n: int) -> int", "int"]),
        "main": Fn([], Block([Print(Call("apply", times10, I(4)), Call("step", I(4)), Call("apply", V("step"), I(4)))]))})
    add("fn_name_hidden_by_let", {"step": step,
        "main": Fn([], Block([Print(Call("step", I(1))),
                              Expr(Block([Let("step", times10), Print(Call("step", I(1))), Let("g", V("step")), Print(CallV(V("g"), I(2)))])),
                              Print(Call("step", I(1)))]))})
    add("fn_name_hidden_by_loop_variable", {"step": step,
        "main": Fn([], Block([For("step", List(times10, FnLit(["n"], Block([], Bin("-", V("n"), I(1))), "int")), Block([Print(Call("step", I(5)))])),
                              Print(Call("step", I(5)))]))})
    add("fn_name_hidden_by_scalar", {"step": step,
        "main": Fn([], Block([Expr(Block([Let("step", I(7)), Print(V("step"))])), Print(Call("step", I(1))),
                              Let("f", V("step")), Expr(Block([Let("step", I(8)), Print(CallV(V("f"), V("step")))]))]))})
    # evaluation goes left to right and an operand is a VALUE once it has been evaluated: what a later operand does to
    # the variable (element, field) it came from does not change it any more
    bumpx = Fn([], Block([Expr(Asg(V("gx"), I(10)))], I(5)), "int")
    two = Fn(["a", "b"], Block([], Bin("+", Bin("*", V("a"), I(100)), V("b"))), "int", ["int", "int"])
    def setv(x, v, r):
        return Block([Expr(Asg(V(x), v))], r)
    add("eval_order_infix", {"bumpx": bumpx, "main": Fn([], Block([
        Print(Bin("+", V("gx"), Call("bumpx")), V("gx")),
        Let("y", I(1)), Print(Bin("*", V("y"), setv("y", I(5), I(2))), V("y")), Print(Bin("-", V("y"), setv("y", I(50), I(1))), V("y")),
        Print(Bin("==", V("y"), setv("y", I(9), I(50))), Bin("<", V("y"), setv("y", I(0), I(5))), V("y")),
        Let("s", S("a")), Print(Bin("+", V("s"), setv("s", S("b"), S("c"))), V("s")),
        Let("t", B(True)), Print(Bin("&", V("t"), setv("t", B(False), B(True))), Bin("|", V("t"), setv("t", B(True), B(False))), V("t")),
        Let("f", F(15, 1)), Print(Bin("+", V("f"), setv("f", F(5, 1), F(10, 1))), V("f"))]))}, globs=[("gx", I(1))])
    add("eval_order_arguments", {"two": two, "main": Fn([], Block([
        Let("y", I(1)), Print(Call("two", V("y"), setv("y", I(5), I(4))), V("y")),
        Let("c", FnLit(["a", "b"], Block([], Bin("-", V("a"), V("b"))), "int", ["int", "int"])), Print(CallV(V("c"), V("y"), setv("y", I(1), I(2))), V("y")),
        Print(V("y"), setv("y", I(6), V("y")), V("y")),
        Print(List(V("y"), setv("y", I(7), V("y")), V("y"))), Let("o", Obj(a=V("y"), b=setv("y", I(8), V("y")), c=V("y"))), Print(Mem(V("o"), "a"), Mem(V("o"), "b"), Mem(V("o"), "c"))]))})
    add("eval_order_compound_assignment", main(
        Let("x", I(1)), Expr(Asg(V("x"), setv("x", I(100), I(1)), "+=")), Print(V("x")),
        Let("l", List(I(1), I(2))), Print(Idx(V("l"), setv("l", List(I(9), I(8)), I(0))), V("l")),
        # the right side writes the very place which is assigned to: element, field, element of a field, with every operator class
        Let("xs", List(I(1), I(2))), Expr(Asg(Idx(V("xs"), I(0)), Block([Expr(Asg(Idx(V("xs"), I(0)), I(10)))], I(1)), "+=")), Print(V("xs")),
        Let("ob", Obj(a=I(1), l=List(I(5)))), Expr(Asg(Mem(V("ob"), "a"), Block([Expr(Asg(Mem(V("ob"), "a"), I(10)))], I(3)), "*=")), Print(Mem(V("ob"), "a")),
        Expr(Asg(Idx(Mem(V("ob"), "l"), I(0)), Block([Expr(Asg(Idx(Mem(V("ob"), "l"), I(0)), I(100)))], I(2)), "-=")), Print(Mem(V("ob"), "l")),
        Expr(Asg(Idx(V("xs"), I(1)), Block([Expr(Asg(Idx(V("xs"), I(1)), I(7), "+="))], I(1)), "+=")), Print(V("xs"))))
    add("eval_order_elements", {"two": two, "main": Fn([], Block([
        Let("l", List(I(1), I(2))), Print(Call("two", Idx(V("l"), I(0)), Block([Expr(Asg(Idx(V("l"), I(0)), I(7)))], I(2))), V("l")),
        Print(Bin("+", Idx(V("l"), I(1)), Block([Expr(Asg(Idx(V("l"), I(1)), I(30)))], I(1))), V("l")),
        Let("o", Obj(v=I(1))), Print(Call("two", Mem(V("o"), "v"), Block([Expr(Asg(Mem(V("o"), "v"), I(9)))], I(3))), Mem(V("o"), "v")),
        Print(List(Idx(V("l"), I(0)), Block([Expr(Asg(Idx(V("l"), I(0)), I(0)))], I(5)), Idx(V("l"), I(0))))]))}, element_operand=True)
    # a value taken out of an element or a field - into a variable, an option, a list, an object, an argument, a result -
    # is a value: a later write to that element or field does not reach it
    ident = Fn(["v"], Block([], V("v")), "int", ["int"])
    first = Fn(["l"], Block([], Idx(V("l"), I(0))), "int", ["[int]"])
    add("taken_from_element_then_written", {"ident": ident, "first": first, "main": Fn([], Block([
        Let("xs", List(I(1), I(2))), Let("ob", Obj(count=I(7))),
        Let("a", Idx(V("xs"), I(0))), Let("o", Un("?", Idx(V("xs"), I(0)))), Let("l", List(Idx(V("xs"), I(0)), Mem(V("ob"), "count"))),
        Let("w", Obj(e=Idx(V("xs"), I(0)), f=Un("?", Mem(V("ob"), "count")))), Let("r", Call("ident", Idx(V("xs"), I(0)))), Let("g", Call("first", V("xs"))),
        Let("ys", List(I(0))), Expr(MCall(V("ys"), "push", Idx(V("xs"), I(0)))), Let("before", Un("?", Mem(V("ob"), "count"))),
        Expr(Asg(Idx(V("xs"), I(0)), I(42))), Expr(Asg(Mem(V("ob"), "count"), I(1), "+=")), Expr(Asg(Mem(V("ob"), "count"), I(2), "*=")),
        Print(V("a"), MCall(V("o"), "unwrap"), V("l"), Mem(V("w"), "e"), MCall(Mem(V("w"), "f"), "unwrap"), V("r"), V("g"), V("ys"), MCall(V("before"), "unwrap")),
        Print(V("xs"), Mem(V("ob"), "count"))]))})
    # a literal makes a NEW object / list every time it is evaluated
    mk = Fn(["n"], Block([], Obj(v=V("n"), l=List(V("n")))), "{ v: int, l: [int] }", ["int"])
    add("literal_fresh_each_time", {"mk": mk, "main": Fn([], Block([
        Let("a", Call("mk", I(1))), Let("b", Call("mk", I(2))), Print(Mem(V("a"), "v"), Mem(V("b"), "v"), Mem(V("a"), "l"), Mem(V("b"), "l")),
        Expr(Asg(Mem(V("b"), "v"), I(7))), Expr(MCall(Mem(V("b"), "l"), "push", I(8))), Print(Mem(V("a"), "v"), Mem(V("b"), "v"), Mem(V("a"), "l"), Mem(V("b"), "l")),
        Let("all", List(Call("mk", I(0)))), For("i", Range(I(1), I(4)), Block([Let("o", Obj(k=V("i"), inner=Obj(z=V("i")))), Expr(MCall(V("all"), "push", Call("mk", V("i")))),
                                                                          Expr(Asg(Mem(Mem(V("o"), "inner"), "z"), I(1), "+=")), Print(V("o"))])),
        Print(V("all")), Let("rows", List(List(I(0)))), For("i", Range(I(1), I(3)), Block([Expr(MCall(V("rows"), "push", List(V("i"), V("i"))))])),
        Expr(Asg(Idx(Idx(V("rows"), I(1)), I(0)), I(50))), Print(V("rows"))]))})
    # `a || b` / `a && b` do not always evaluate b: they do not diverge because b does
    add("short_circuit_diverging_right", {
        "g": Fn(["c"], Block([Expr(Bin("||", V("c"), Block([Ret(I(1))], B(True)))), Print(S("after or")), Expr(Bin("&&", V("c"), Block([Ret(I(2))], B(True)))), Print(S("after and"))], I(3)), "int", ["bool"]),
        "main": Fn([], Block([Print(Call("g", B(True))), Print(Call("g", B(False)))]))})
    add("fn_values_displayed", {"step": step, "mk": Fn([], Block([], times10), "fn(n: int) -> int"),
        "main": Fn([], Block([Let("f", V("step")), Let("g", times10), Let("h", Call("mk")), Print(V("step"), V("f"), V("g"), V("h")),
                              Print(List(V("f"), V("g"))), Print(Obj(a=V("f"), b=V("h")))]))})
    add("fn_name_hidden_in_callee_only", {"step": step,
        "twice": Fn(["step"], Block([], Bin("*", V("step"), I(2))), "int", ["int"]),
        "main": Fn([], Block([Print(Call("twice", Call("step", I(1))), Call("step", Call("twice", I(1))))]))})
    return progs


# =============================================================================================
# values captured from a variable stay what they were when the variable is assigned to later
# (scalars are copied), and the other way round
# =============================================================================================
def capture_programs():
    progs = []
    n = 0
    scalars = {
        "int": (I(1), I(9), "+=", I(1), "int"),
        "str": (S("a"), S("z"), "+=", S("b"), "str"),
        "bool": (B(True), B(False), None, None, "bool"),
        "float": (F(3, 1), F(5, 1), "+=", F(1, 1), "float"),
    }
    for ty, (v1, v2, cop, cv, tyname) in scalars.items():
        caps = {
            "opt": (lambda: Un("?", V("x")), lambda: V("c"), None),
            "list": (lambda: List(V("x")), lambda: V("c"), lambda: Asg(Idx(V("c"), I(0)), v2)),
            "obj": (lambda: Obj(f=V("x")), lambda: Mem(V("c"), "f"), lambda: Asg(Mem(V("c"), "f"), v2)),
            "let": (lambda: V("x"), lambda: V("c"), lambda: Asg(V("c"), v2)),
            "idfn": (lambda: Call("id", V("x")), lambda: V("c"), lambda: Asg(V("c"), v2)),
            "block": (lambda: Block([], V("x")), lambda: V("c"), lambda: Asg(V("c"), v2)),
            "if": (lambda: If(V("yes"), Block([], V("x")), Block([], V("x"))), lambda: V("c"), lambda: Asg(V("c"), v2)),
            "match": (lambda: Match(I(1), [([I(1)], V("x"))], V("x")), lambda: V("c"), lambda: Asg(V("c"), v2)),
            "list2": (lambda: List(V("x"), V("x")), lambda: V("c"), lambda: Asg(Idx(V("c"), I(1)), v2)),
            "nested": (lambda: List(List(V("x"))), lambda: V("c"), lambda: Asg(Idx(Idx(V("c"), I(0)), I(0)), v2)),
        }
        if ty == "int":
            caps["range"] = (lambda: Range(V("x"), I(7)), lambda: V("c"), None)
        for cname, (cap, read, mutc) in caps.items():
            muts = [("assign", lambda: Asg(V("x"), v2))]
            if cop:
                muts.append(("compound", lambda: Asg(V("x"), cv, cop)))
            for mname, mut in muts:
                n += 1
                fns = {"id": Fn(["a"], Block([], V("a")), ret=tyname, pts=[tyname]),
                       "main": Fn([], Block([Let("yes", B(True)), Let("x", v1), Let("c", cap()), Expr(mut()),
                                             Print(V("x"), read()), Expr(mut()), Print(V("x"), read())]))}
                progs.append(Program("cap%d" % n, fns, feats={"family": "capture", "capture": cname, "ty": ty, "mut": mname}))
            if mutc:
                n += 1
                fns = {"id": Fn(["a"], Block([], V("a")), ret=tyname, pts=[tyname]),
                       "main": Fn([], Block([Let("yes", B(True)), Let("x", v1), Let("c", cap()), Expr(mutc()),
                                             Print(V("x"), read())]))}
                progs.append(Program("cap%d" % n, fns, feats={"family": "capture", "capture": cname, "ty": ty, "mut": "captured"}))
        # the loop form: remember the previous value
        n += 1
        if cop:
            body = Block([Expr(Asg(V("prev"), Un("?", V("x")))), Expr(Asg(V("x"), cv, cop)), Expr(Asg(V("k"), I(1), "+="))])
            progs.append(Program("cap%d" % n, {"main": Fn([], Block([Let("x", v1), Let("prev", Un("?", v1)), Let("k", I(0)),
                                                                      While(Bin("<", V("k"), I(3)), body), Print(V("x"), V("prev"))]))},
                                 feats={"family": "capture", "capture": "opt-loop", "ty": ty, "mut": "compound"}))
    # lists are references: a captured list sees later pushes, but not a re-assignment of the variable
    for cname, cap, read in [("let", lambda: V("x"), lambda: V("c")), ("opt", lambda: Un("?", V("x")), lambda: V("c")),
                             ("list", lambda: List(V("x")), lambda: V("c")), ("obj", lambda: Obj(f=V("x")), lambda: Mem(V("c"), "f")),
                             ("idfn", lambda: Call("idl", V("x")), lambda: V("c"))]:
        n += 1
        fns = {"idl": Fn(["a"], Block([], V("a")), ret="[int]", pts=["[int]"]),
               "main": Fn([], Block([Let("x", List(I(1))), Let("c", cap()), Expr(MCall(V("x"), "push", I(2))),
                                     Print(V("x"), read()), Expr(Asg(V("x"), List(I(7)))), Print(V("x"), read()),
                                     Expr(MCall(V("x"), "push", I(8))), Print(V("x"), read())]))}
        progs.append(Program("cap%d" % n, fns, feats={"family": "capture", "capture": cname, "ty": "list", "mut": "push+assign"}))
    return progs


# =============================================================================================
# function literals in the middle of other control flow (no captured locals)
# =============================================================================================
def lambda_programs():
    progs = []

    def add(name, stmts, **feats):
        progs.append(Program("lam_" + name, {"main": Fn([], Block(stmts))}, globs=[("yes", B(True)), ("no", B(False))],
                             feats=dict(feats, family="lambda", template=name)))

    def lam_if():
        return FnLit(["a"], Block([], If(Bin(">", V("a"), I(0)), Block([], V("a")), Block([], I(0)))), ret="int")

    def lam_loop():
        return FnLit(["a"], Block([Let("s", I(0)), For("q", Range(I(0), V("a")), Block([Expr(Asg(V("s"), V("q"), "+="))]))], V("s")), ret="int")

    def lam_plain():
        return FnLit(["a"], Block([], Bin("*", V("a"), I(2))), ret="int")

    for lname, lam in (("if", lam_if), ("loop", lam_loop), ("plain", lam_plain)):
        add("if_after_" + lname, [Expr(If(V("yes"), Block([Print(S("first"))]))), Expr(If(V("no"), Block([Print(S("never"))]))),
                                  Let("f", lam()), Expr(If(V("yes"), Block([Print(S("mid"), Call("f", I(3)))]))),
                                  Expr(If(V("yes"), Block([Print(S("third"))]), Block([Print(S("else"))]))), Print(S("end"))])
        add("loop_around_" + lname, [Let("t", I(0)), For("i", Range(I(0), I(3)), Block([
            Expr(If(Bin("==", V("i"), I(1)), Block([Print(S("one"))]))), Let("f", lam()),
            For("j", Range(I(0), I(2)), Block([Expr(Asg(V("t"), Call("f", Bin("+", V("i"), V("j"))), "+="))])),
            Print(S("outer"), V("i"), V("t"))])), Print(S("done"), V("t"))])
        add("value_after_" + lname, [Let("a", If(V("yes"), Block([], I(1)), Block([], I(2)))), Let("f", lam()),
                                     Let("b", If(V("no"), Block([], I(3)), Block([], If(V("yes"), Block([], I(4)), Block([], I(5)))))),
                                     Let("c", Match(Call("f", I(1)), [([I(2)], S("two"))], S("other"))),
                                     Print(V("a"), V("b"), V("c"), Call("f", I(2)))])
        add("try_after_" + lname, [Expr(Try(Block([Expr(Call("throw", S("a")))]), "e", Block([Print(S("c1"), Mem(V("e"), "message"))]))),
                                   Let("f", lam()),
                                   Expr(Try(Block([Print(Call("f", I(2))), Expr(Call("throw", S("b")))]), "e",
                                            Block([Print(S("c2"), Mem(V("e"), "message"))]))),
                                   Let("w", I(0)), While(Bin("<", V("w"), I(2)), Block([Expr(Asg(V("w"), I(1), "+=")), Print(S("w"), V("w"))])),
                                   Print(Bin("&&", V("yes"), Bin("||", V("no"), V("yes"))))])
    # an exit of the ENCLOSING function after a literal of another result kind (what the compiler knows about "the current
    # function" must be the enclosing function's again once the literal is done): return with and without value, from
    # loops / ifs / try, with operands of the caller pending
    lits = {"null": lambda: FnLit(["n"], Block([Print(S("visit"), V("n"))]), pts=["int"]),
            "int": lambda: FnLit(["n"], Block([], Bin("*", V("n"), V("n"))), ret="int"),
            "str": lambda: FnLit(["n"], Block([Ret(S("s"))]), ret="str", pts=["int"])}
    for lname, lit in lits.items():
        use = Expr(CallV(V("f"), V("x"))) if lname == "null" else Let("u", CallV(V("f"), V("x")))
        find = Fn(["l", "want"], Block([Let("f", lit()), For("x", V("l"), Block([use, Expr(If(Bin("==", V("x"), V("want")), Block([Ret(Bin("*", V("x"), I(10)))])))]))],
                                       Un("-", I(1))), "int", ["[int]", "int"])
        early = Fn(["l"], Block([Let("f", lit()), For("x", V("l"), Block([use, Expr(If(Bin(">", V("x"), I(1)), Block([Print(S("big"), V("x")), Ret(None)])))])),
                                 Print(S("none"))]), "null", ["[int]"])
        intry = Fn(["k"], Block([Let("f", lit()), Let("x", V("k")), use,
                                 Expr(Try(Block([Expr(If(Bin(">", V("k"), I(0)), Block([Ret(Bin("+", V("k"), I(100)))]))), Expr(Call("throw", S("t")))]), "e",
                                          Block([Ret(Un("-", I(5)))])))], I(0)), "int", ["int"])
        pair = Fn(["a", "b"], Block([], Bin("+", Bin("*", V("a"), I(1000)), V("b"))), "int", ["int", "int"])
        progs.append(Program("lam_return_after_" + lname, {"find": find, "early": early, "intry": intry, "pair": pair, "main": Fn([], Block([
            Print(Call("find", List(I(1), I(2), I(3)), I(2)), I(99)), Print(Call("pair", I(7), Call("find", List(I(4), I(5)), I(5)))),
            Print(Call("pair", Call("find", List(I(4)), I(9)), I(8))), Expr(Call("early", List(I(1), I(2), I(3)))), Expr(Call("early", List(I(0)))),
            Print(Call("pair", Call("intry", I(1)), Call("intry", I(0)))), Print(List(I(1), Call("find", List(I(6)), I(6)), I(3)))]))},
            globs=[("yes", B(True)), ("no", B(False))], feats={"family": "lambda", "template": "return_after_" + lname}))
    add("lambda_arg", [Print(CallV(FnLit(["a", "b"], Block([], Bin("-", V("a"), V("b"))), ret="int"), I(7), I(2)))])
    add("lambda_in_list_call", [Let("f", FnLit([], Block([Print(S("called"))]))), Expr(Call("f")), Expr(Call("f"))])
    return progs


# =============================================================================================
# singletons (zero value or host-provided), singleton parameters, trigger statements
# =============================================================================================
def singleton_programs():
    progs = []
    DEV = ("$Dev", "{ level: int, name: str }", None)     # (None: the default value of the type, HmsSem DefaultExpr)
    HOST = {"$Dev": (Obj(level=I(3), name=S("host")),
                     {"k": "obj", "fs": {"level": {"k": "int", "v": "3"}, "name": {"k": "str", "s": "host"}}})}
    LST = ("$Log", "[int]", None)
    LHOST = {"$Log": (List(I(4), I(5)), {"k": "list", "es": [{"k": "int", "v": "4"}, {"k": "int", "v": "5"}]})}

    def fns(main_body, extra=None):
        d = {"get": Fn([], Block([], Mem(V("self"), "level")), ret="int", sps=[("self", "$Dev")]),
             "set": Fn(["n"], Block([Expr(Asg(Mem(V("self"), "level"), V("n")))]), sps=[("self", "$Dev")]),
             "both": Fn(["a", "b"], Block([], Bin("+", Bin("+", Bin("*", V("a"), I(100)), Bin("*", Mem(V("self"), "level"), I(10))), V("b"))),
                        ret="int", sps=[("self", "$Dev")]),
             "name_of": Fn([], Block([], Mem(V("self"), "name")), ret="str", sps=[("self", "$Dev")]),
             "main": Fn([], Block(main_body))}
        d.update(extra or {})
        return d

    bodies = {
        "read_write": [Print(Mem(V("$Dev"), "level"), Mem(V("$Dev"), "name")), Expr(Call("set", I(7))),
                       Print(Call("get"), Mem(V("$Dev"), "level")), Print(Call("both", I(1), I(2))), Print(Call("name_of"))],
        "in_loop": [For("i", Range(I(0), I(4)), Block([Expr(Call("set", Bin("+", Call("get"), V("i")))), Print(Call("get"))])),
                    Print(Mem(V("$Dev"), "level"))],
        "in_expression": [Print(Bin("-", I(10), Call("get"))), Print(Bin("+", Call("both", I(1), I(2)), Call("both", I(3), I(4)))),
                          Print(List(Call("get"), Call("get")))],
        "assign_direct": [Expr(Asg(Mem(V("$Dev"), "level"), I(9))), Print(Call("get")), Expr(Asg(Mem(V("$Dev"), "name"), S("n2"))),
                          Print(Call("name_of"))],
    }
    for name, body in bodies.items():
        for hosted in (False, True):
            progs.append(Program("sing_%s_%s" % (name, "host" if hosted else "zero"), fns(body), sings=[DEV],
                                 host=HOST if hosted else None,
                                 feats={"family": "singleton", "template": name, "hosted": hosted}))
    # a list singleton
    lf = {"add": Fn(["n"], Block([Expr(MCall(V("log"), "push", V("n")))], MCall(V("log"), "len")), ret="int", sps=[("log", "$Log")]),
          "main": Fn([], Block([Print(Call("add", I(1))), Print(Call("add", I(2))), Print(V("$Log"))]))}
    for hosted in (False, True):
        progs.append(Program("sing_list_%s" % ("host" if hosted else "zero"), lf, sings=[LST], host=LHOST if hosted else None,
                             feats={"family": "singleton", "template": "list", "hosted": hosted}))
    # a singleton of every type that has a default value, never provided by the host
    ALL = ("$All", "{ i: int, f: float, b: bool, s: str, n: null, r: range, l: [int], ll: [[str]], o: ?int, a: { x: int, y: { z: [bool], w: ?str } } }", None)
    af = {"touch": Fn([], Block([Expr(Asg(Mem(V("all"), "i"), I(1), "+=")), Expr(MCall(Mem(V("all"), "l"), "push", Mem(V("all"), "i"))),
                                 Expr(Asg(Mem(Mem(V("all"), "a"), "x"), I(5)))]), sps=[("all", "$All")]),
          "main": Fn([], Block([Print(V("$All")), Print(Mem(V("$All"), "i"), Mem(V("$All"), "f"), Mem(V("$All"), "b"), MCall(Mem(V("$All"), "s"), "len"),
                                      Mem(V("$All"), "r"), Mem(V("$All"), "l"), Mem(V("$All"), "o"), Mem(Mem(Mem(V("$All"), "a"), "y"), "z")),
                                Expr(Call("touch")), Expr(Call("touch")), Print(V("$All")),
                                For("k", Mem(V("$All"), "r"), Block([Print(S("never"), V("k"))]))]))}
    progs.append(Program("sing_defaults_all_types", af, sings=[ALL], feats={"family": "singleton", "template": "defaults", "hosted": False}))
    # trigger statements: callback, event and arguments (evaluated in order) reach the host
    tf = {"cb": Fn(["elapsed"], Block([Print(S("cb"), V("elapsed"))]), event=True),
          "p": Fn(["n"], Block([Print(S("p"), V("n"))], V("n")), ret="int"),
          "main": Fn([], Block([Trigger("cb", "minute", Bin("+", I(5), I(1))),
                                For("i", Range(I(0), I(3)), Block([Trigger("cb", "minute", Bin("*", V("i"), I(2)))])),
                                Trigger("cb", "minute", Call("p", I(9))), Print(S("end"))]))}
    progs.append(Program("trig_basic", tf, imports=["import trigger minute from triggers;"],
                         feats={"family": "singleton", "template": "trigger", "vm_only": True}))
    return progs


# =============================================================================================
# random well-typed programs (seeded)
# =============================================================================================
# =============================================================================================
# C19: every form the printers can meet
# =============================================================================================
def ObjK(pairs):
    return {"k": "obj", "fs": [{"key": k, "e": e} for k, e in pairs]}


def printer_programs():
    progs = []

    def add(name, fns, globs=(), **feats):
        progs.append(Program("pr_" + name, fns, globs, feats=dict(feats, family="printer", template=name)))

    def main(*stmts):
        return {"main": Fn([], Block(list(stmts)))}

    strings = ["plain", "", "a\"b", "back\\slash", "line1\nline2", "tab\there", "{braces} %d %s", "caf\u00e9 \u65e5\u672c", "'single'", "a\\\"b\n",
               "  lead and trail  ", "semi; colon", "// not a comment", "/* nor this */"]
    add("strings", main(*[Print(S(x), MCall(S(x), "len")) for x in strings]))
    add("strings_nested", main(Let("l", List(*[S(x) for x in strings[:8]])), Print(V("l")),
                               Let("o", Obj(a=S("x\ny"), b=List(S("q\"r")), c=Obj(d=S("deep\nline")))), Print(V("o")),
                               Print(Mem(V("o"), "a"), Idx(Mem(V("o"), "b"), I(0)), Mem(Mem(V("o"), "c"), "d")),
                               Print(Match(S("a\"b"), [([S("a\"b")], S("hit\n1")), ([S("x"), S("y\\")], S("other"))], S("dflt")))))
    add("string_keys", main(Let("o", ObjK([("plain", I(1)), ("with space", I(2)), ("kebab-case", I(3)), ("9start", I(4)), ("quote\"d", I(5))])), Print(V("o")),
                            Let("j", MCall(V("o"), "to_json")), Print(V("j"))))
    # values whose types cannot be written in a program: builtins with variable argument lists, diverging blocks, none
    add("unwritable_types", main(Let("pr", V("println")), Expr(CallV(V("pr"), S("x"), I(1))), Let("ps", List(V("print"), V("println"))), Expr(CallV(Idx(V("ps"), I(1)), S("y"))),
                                 Let("o", Obj(f=V("println"))), Expr(CallV(Mem(V("o"), "f"), S("z")))))
    # keys which read like an identifier only after something was skipped or cut: blanks and comments around it, other
    # separators inside, keywords, nothing at all - and the bare identifier next to them in the same object
    odd = ["k ", " k", "k\t", "k\n", "y//z", "k/* */", "/**/k", "a.b", "a:b", "a,b", "", "fn", "let", "true", "none", "_", "__x", "k1", "1k", "\u00e4", "a\u00e4", "k;", "(k)", "$k", "@k", "k?"]
    add("string_keys_odd", main(Let("o", ObjK([(x, I(i)) for i, x in enumerate(odd)] + [("k", I(100)), ("y", I(101)), ("a", I(102))])), Print(V("o")),
                                Let("j", MCall(V("o"), "to_json")), Print(V("j")), Print(MCall(V("o"), "keys"))))
    # nested blocks as values, if / else chains, match with several literals and a default, try as a value
    add("nested_values", main(
        Let("v", Block([Let("a", I(1))], Block([Let("b", Bin("+", V("a"), I(1)))], Block([], Bin("*", V("b"), I(3)))))), Print(V("v")),
        Let("w", If(Bin(">", V("v"), I(5)), Block([Let("t", I(1))], If(Bin("==", V("t"), I(1)), Block([], S("a")), Block([], S("b")))), Block([], S("c")))), Print(V("w")),
        Let("m", Match(V("v"), [([I(1), I(2), I(3)], S("low")), ([I(6)], Block([Let("q", S("si"))], Bin("+", V("q"), S("x"))))], Match(V("w"), [([S("a")], S("nested"))], S("nd")))), Print(V("m")),
        Let("t", Try(Block([Let("z", I(0)), Expr(If(Bin("==", V("z"), I(0)), Block([Expr(Call("throw", S("boom\n2")))])))], Bin("+", V("z"), I(1))), "e",
                     Block([Print(S("caught"), Mem(V("e"), "message"))], Un("-", I(1))))), Print(V("t")),
        Expr(Block([Expr(Block([Expr(Block([Print(S("deep"))]))]))])),
    ))
    add("operators", main(
        Let("a", I(7)), Let("b", I(2)), Let("f", F(5, 1)), Let("t", B(True)),
        Print(Bin("-", Bin("-", V("a"), V("b")), I(1)), Bin("-", V("a"), Bin("-", V("b"), I(1))), Bin("/", Bin("*", V("a"), V("b")), I(3)), Bin("*", V("a"), Bin("/", V("b"), I(3)))),
        Print(Bin("**", I(2), Bin("**", I(3), I(2))), Bin("**", Bin("**", I(2), I(3)), I(2)), Un("-", Bin("**", I(2), I(2))), Bin("**", Un("-", I(2)), I(2))),
        Print(Bin("&&", V("t"), Bin("||", B(False), V("t"))), Bin("||", Bin("&&", V("t"), B(False)), V("t")), Un("!", Bin("==", V("a"), V("b"))), Bin("==", Un("!", V("t")), B(False))),
        Print(Bin("<<", I(1), Bin("+", V("b"), I(1))), Bin("+", Bin("<<", I(1), V("b")), I(1)), Bin("|", Bin("&", V("a"), I(3)), I(8)), Bin("&", V("a"), Bin("|", I(3), I(8))), Bin("^", V("a"), V("b"))),
        Print(Un("-", Un("-", V("a"))), Un("-", V("f")), Un("?", Un("?", V("a"))), Un("!", Un("!", V("t")))),
        Print(As(V("a"), "float"), As(Bin("+", V("a"), V("b")), "float"), Bin("+", As(V("a"), "float"), V("f")), As(V("f"), "int")),
        Print(Bin("<", Bin("+", V("a"), I(1)), Bin("*", V("b"), I(9))), Bin("!=", Bin("%", V("a"), V("b")), I(0))),
    ))
    add("statements", {
        "acc": Fn(["n", "l"], Block([Let("s", I(0)), For("x", V("l"), Block([Expr(If(Bin("==", V("x"), V("n")), Block([Continue()]))), Expr(Asg(V("s"), V("x"), "+="))])), Ret(V("s"))]), "int", ["int", "[int]"]),
        "find": Fn(["l"], Block([Let("i", I(0)), Loop(Block([Expr(If(Bin(">=", V("i"), MCall(V("l"), "len")), Block([Break()]))),
                                                             Expr(If(Bin("==", Idx(V("l"), V("i")), I(3)), Block([Ret(Un("?", V("i")))]))), Expr(Asg(V("i"), I(1), "+="))]))], NoneV()), "?int", ["[int]"]),
        "main": Fn([], Block([Let("l", List(I(1), I(2), I(3))), Print(Call("acc", I(2), V("l")), Call("find", V("l")), Call("find", List(I(9)))),
                              Let("k", I(0)), While(Bin("<", V("k"), I(3)), Block([Expr(Asg(V("k"), I(1), "+="))])), Print(V("k")),
                              For("i", Range(I(0), I(2), True), Block([Print(V("i"))])), For("c", S("ab"), Block([Print(V("c"))])),
                              Let("o", Obj(n=I(1), l=List(I(1)))), Expr(Asg(Mem(V("o"), "n"), I(5), "*=")), Expr(Asg(Idx(Mem(V("o"), "l"), I(0)), I(7))), Print(V("o")),
                              Let("g", FnLit(["a", "b"], Block([Ret(Bin("+", V("a"), MCall(V("b"), "len")))]), "int", ["int", "str"])), Print(CallV(V("g"), I(1), S("xy")))]))})
    # block-like expressions as statements: the `;` after them separates them from what follows (`-a`, `(..)`, `[..]`)
    # and decides between statement and block value
    add("semicolons", {
        "bump": Fn(["k"], Block([Expr(Asg(V("cnt"), V("k"), "+="))], V("k")), "int"),
        "f": Fn(["a"], Block([Expr(If(Bin(">", V("a"), I(5)), Block([], Call("bump", I(1))), Block([], Call("bump", I(2)))))], Un("-", V("a"))), "int"),
        "g": Fn(["a"], Block([Expr(Match(V("a"), [([I(1)], S("one"))], S("other"))), Expr(Block([], List(I(1))))], List(V("a"))), "[int]"),
        "h": Fn(["a"], Block([Expr(Try(Block([], V("a")), "e", Block([], I(0)))), Expr(If(B(True), Block([], S("x")), Block([], S("y"))))], Bin("+", V("a"), I(1))), "int"),
        "k": Fn(["a"], Block([Let("i", I(0)), While(Bin("<", V("i"), V("a")), Block([Expr(Asg(V("i"), I(1), "+=")), Expr(If(B(True), Block([], S("v")), Block([], S("w"))))])),
                               Loop(Block([Expr(Block([], I(3))), Break()]))], V("i")), "int"),
        "main": Fn([], Block([Print(Call("f", I(9)), Call("f", I(1)), V("cnt"), Call("g", I(1)), Call("h", I(4)), Call("k", I(2))),
                              Expr(If(B(True), Block([], I(1)), Block([], I(2))))]))}, globs=[("cnt", I(0))])
    # every kind of expression as the base of a member call / an index / a field access, as an operand of a prefix
    # operator and as a bound of a range: what binds weaker than the postfix form keeps its parentheses
    a, b, f, t, l = V("a"), V("b"), V("f"), V("t"), V("l")
    int_bases = [I(7), Un("-", a), Bin("+", a, b), Bin("**", a, b), As(f, "int"), If(t, Block([], a), Block([], b)), Block([Let("q", a)], V("q")),
                 Match(a, [([I(7)], I(1))], I(0)), Try(Block([], a), "e", Block([], I(0))), MCall(l, "len"), Idx(l, I(0)), Call("id", a)]
    range_bases = [Range(I(0), a), Range(I(0), I(3), True), Range(Un("-", a), Bin("+", a, I(1))), Range(MCall(l, "len"), Idx(l, I(1)))]
    list_bases = [List(a, b), If(t, Block([], l), Block([], List(b))), Block([], l), Match(a, [([I(7)], l)], List(I(0)))]
    add("postfix_bases", {"id": Fn(["n"], Block([], V("n")), "int", ["int"]), "main": Fn([], Block(
        [Let("a", I(7)), Let("b", I(2)), Let("f", F(5, 1)), Let("t", B(True)), Let("l", List(I(4), I(5)))] +
        [Print(*[MCall(x, "to_string") for x in int_bases])] +
        [Print(*[MCall(x, "diff") for x in range_bases]), Print(*[MCall(x, "rev") for x in range_bases]), Print(*[Mem(x, "start") for x in range_bases]),
         Print(*[MCall(MCall(x, "rev"), "to_string") for x in range_bases])] +
        [Print(*[Idx(x, I(0)) for x in list_bases]), Print(*[MCall(x, "len") for x in list_bases])] +
        [Print(MCall(F(15, 1), "round"), MCall(Un("-", f), "round"), MCall(As(a, "float"), "to_string"), MCall(Bin("*", f, f), "trunc")),
         Print(MCall(S("xy"), "len"), MCall(Bin("+", S("x"), S("yz")), "len"), MCall(Un("?", a), "unwrap"), MCall(Un("?", Bin("+", a, b)), "unwrap_or", I(0))),
         Print(Un("-", MCall(l, "len")), Un("-", Idx(l, I(0))), Un("!", MCall(l, "contains", I(4))), Un("-", As(f, "int")), As(Un("-", f), "int")),
         Print(Bin("==", Range(I(0), a), Range(I(0), I(7))), Bin("==", MCall(Range(I(0), a), "rev"), Range(a, I(0)))),
         For("i", Range(Un("-", I(1)), Bin("-", a, I(5))), Block([Print(V("i"))])),
         Let("r", Range(Bin("*", b, I(2)), Bin("+", Bin("*", b, I(2)), I(1)), True)), Print(V("r"), MCall(V("r"), "diff"))]))})
    # what stands in an else block: only an if (an else-if chain), statements and then an if, other block-like values
    add("else_blocks", {
        "grade": Fn(["n"], Block([], If(Bin(">", V("n"), I(10)), Block([], S("big")),
                                         Block([Let("half", Bin("/", V("n"), I(2))), Print(S("visiting"), V("n"))],
                                               If(Bin(">", V("half"), I(2)), Block([], S("mid")), Block([], S("small")))))), "str"),
        "chain": Fn(["n"], Block([], If(Bin("==", V("n"), I(0)), Block([], S("zero")), Block([], If(Bin("==", V("n"), I(1)), Block([], S("one")),
                                         Block([], If(Bin("==", V("n"), I(2)), Block([], S("two")), Block([], S("many")))))))), "str"),
        "walk": Fn(["n"], Block([Let("k", V("n")), While(Bin(">", V("k"), I(0)), Block([
                                     Expr(If(Bin("==", Bin("%", V("k"), I(2)), I(0)), Block([Print(S("even"), V("k"))]),
                                             Block([Expr(Asg(V("cnt"), I(1), "+="))], If(Bin(">", V("k"), I(3)), Block([Print(S("odd big"), V("k"))]), Block([Print(S("odd"), V("k"))]))))),
                                     Expr(Asg(V("k"), I(1), "-="))]))])),
        "other": Fn(["n"], Block([], If(Bin("<", V("n"), I(0)), Block([], I(0)), Block([Let("d", Bin("*", V("n"), I(2)))], Match(V("d"), [([I(4)], I(40))], Bin("+", V("d"), I(1)))))), "int"),
        "main": Fn([], Block([Print(Call("grade", I(20)), Call("grade", I(6)), Call("grade", I(2))), Print(Call("chain", I(0)), Call("chain", I(1)), Call("chain", I(2)), Call("chain", I(9))),
                              Expr(Call("walk", I(5))), Print(V("cnt"), Call("other", I(2)), Call("other", I(5)), Call("other", Un("-", I(1))))]))}, globs=[("cnt", I(0))])
    add("types", {
        "ids": Fn(["a", "b", "c", "d", "e"], Block([Print(V("a"), V("b"), V("c"), V("d"), CallV(V("e"), I(1)))]), "null",
                  ["[[int]]", "?[str]", "{ x: int, y: ?str }", "{ ? }", "fn(v: int) -> [int]"]),
        "main": Fn([], Block([Let("o", Obj(x=I(1), y=Un("?", S("s"))), "{ x: int, y: ?str }"), Let("n", NoneV(), "?[str]"),
                              Let("ao", As(Obj(k=I(1)), "{ ? }")),
                              Expr(Call("ids", List(List(I(1))), V("n"), V("o"), V("ao"), FnLit(["v"], Block([], List(V("v"))), "[int]")))]))})
    add("globals", {"main": Fn([], Block([Print(V("gi"), V("gs"), V("gl"), V("go"), V("gn"))]))},
        globs=[("gi", Un("-", I(4))), ("gs", S("g\"s\n")), ("gl", List(List(I(1)), List(I(2), I(3)))), ("go", Obj(a=I(1), b=S("x"))), ("gn", Bin("*", I(2), Bin("+", I(3), I(4))))])
    return progs


# =============================================================================================
# function literals that use the variables of their surroundings (lexical scoping, by reference)
# =============================================================================================
def closure_programs():
    progs = []

    def add(variant, fns, globs=(), **feats):
        progs.append(Program("clo_%s_%d" % (variant, len(progs)), fns, globs, feats=dict(feats, family="closure", variant=variant)))

    def main(*stmts):
        return {"main": Fn([], Block(list(stmts)))}

    # read, no parameters, called where it was made; the captured variable at several positions among the locals
    for pos in range(4):
        others = [Let("a%d" % i, I(100 + i)) for i in range(3)]
        stmts = others[:pos] + [Let("x", I(5))] + others[pos:]
        stmts += [Let("f", FnLit([], Block([], Bin("+", V("x"), I(1))), "int")), Print(CallV(V("f")), V("a0"), V("a1"), V("a2"), V("x"))]
        add("read-direct", main(*stmts), pos=pos)
    # the same with a parameter / a local of its own
    add("read-param", main(Let("a", I(1)), Let("x", I(5)), Let("f", FnLit(["p"], Block([], Bin("+", V("x"), V("p"))), "int")),
                           Print(CallV(V("f"), I(2)), V("a"), V("x"))))
    add("read-local", main(Let("a", I(1)), Let("x", I(5)), Let("f", FnLit([], Block([Let("t", I(3))], Bin("+", V("x"), V("t"))), "int")),
                           Print(CallV(V("f")), V("a"), V("x"))))
    # writes are seen outside, later writes outside are seen inside
    add("write", main(Let("a", I(1)), Let("x", I(5)), Let("g", FnLit([], Block([Expr(Asg(V("x"), Bin("+", V("x"), I(1))))]))),
                      Expr(CallV(V("g"))), Expr(CallV(V("g"))), Print(V("x"), V("a")), Expr(Asg(V("x"), I(50))), Expr(CallV(V("g"))), Print(V("x"))))
    add("list", main(Let("l", List(I(1))), Let("h", FnLit([], Block([Expr(MCall(V("l"), "push", I(2)))]))),
                     Expr(CallV(V("h"))), Expr(CallV(V("h"))), Print(V("l"))))
    # the literal outlives the call that made it; two instances have separate variables
    mk = Fn([], Block([Let("c", I(10))], FnLit([], Block([Expr(Asg(V("c"), I(1), "+="))], V("c")), "int")), "fn() -> int")
    add("escape", {"mk": mk, "main": Fn([], Block([Let("k", Call("mk")), Print(CallV(V("k")), CallV(V("k"))),
                                                   Let("j", Call("mk")), Print(CallV(V("j")), CallV(V("k")))]))})
    # called from another function, which has locals of its own
    apply = Fn(["f", "v"], Block([Let("shadow", I(100))], Bin("+", CallV(V("f"), V("v")), V("shadow"))), "int", ["fn(a: int) -> int", "int"])
    add("passed", {"apply": apply, "main": Fn([], Block([Let("base", I(7)), Print(Call("apply", FnLit(["a"], Block([], Bin("+", V("a"), V("base"))), "int"), I(1)))]))})
    # made in a loop, using the loop's locals
    add("loop", main(For("i", Range(I(0), I(3)), Block([Let("loc", Bin("*", V("i"), I(10))), Let("g", FnLit([], Block([], Bin("+", V("loc"), I(1))), "int")),
                                                         Print(CallV(V("g")))]))))
    # a literal inside a literal
    add("nested", main(Let("y", I(1)), Let("h", FnLit([], Block([], FnLit([], Block([], Bin("+", V("y"), I(1))), "int")), "fn() -> int")),
                       Let("hh", CallV(V("h"))), Print(CallV(V("hh")))))
    # shadowing after the literal was made: the literal keeps the binding it saw
    add("shadow-later", main(Let("x", I(1)), Let("f", FnLit([], Block([], V("x")), "int")), Let("x", I(2)), Print(CallV(V("f")), V("x"))))
    add("shadow-inner", main(Let("y", I(1)), Let("g", FnLit([], Block([], V("y")), "int")), Expr(Block([Let("y", I(5)), Print(CallV(V("g")), V("y"))]))))
    # globals are not captured, they are shared
    add("global", {"main": Fn([], Block([Let("f", FnLit([], Block([Expr(Asg(V("cnt"), I(1), "+="))]))), Expr(CallV(V("f"))), Expr(CallV(V("f"))), Print(V("cnt"))]))},
        globs=[("cnt", I(0))])
    return progs


# =============================================================================================
# C14: programs whose observable behaviour would depend on map iteration order if any part of the
# tool chain let it through: objects with several fields, many locals, many functions, many globals
# =============================================================================================
def order_programs(seed=0):
    import random as _r
    rnd = _r.Random(seed)
    progs = []
    names = ["zeta", "alpha", "mid", "beta", "kappa", "q", "a", "z", "m1", "m2", "omega", "b"]

    def add(name, fns, globs=(), **feats):
        progs.append(Program("o_" + name, fns, globs, feats=dict(feats, family="order", template=name)))

    def main(*stmts):
        return {"main": Fn([], Block(list(stmts)))}

    # objects with 2..12 fields in shuffled definition order: display, field access, equality, nesting
    for n in (2, 3, 5, 8, 12):
        for variant in range(3):
            ks = names[:n]
            rnd.shuffle(ks)
            fs = {k: I(i + 1) for i, k in enumerate(ks)}
            ks2 = list(ks)
            rnd.shuffle(ks2)
            fs2 = {k: fs[k] for k in ks2}
            add("obj%d_%d" % (n, variant),
                main(Let("o", Obj(**fs)), Print(V("o")), Let("p", Obj(**fs2)), Print(Bin("==", V("o"), V("p"))),
                     Print(*[Mem(V("o"), k) for k in sorted(ks)]),
                     Let("l", List(V("o"), V("p"))), Print(V("l")),
                     Let("w", Obj(inner=V("o"), other=Obj(y=S("s"), x=List(I(1), I(2))), n=I(0))), Print(V("w"))),
                fields=n)
    # the field initialisers of an object literal (and list elements, call arguments) run in the order they are written
    tick = Fn(["tag"], Block([Expr(Asg(V("ticks"), I(1), "+=")), Print(S("tick"), V("tag"), V("ticks"))], V("ticks")), "int", ["str"])
    for variant in range(3):
        ks = names[:6]
        rnd.shuffle(ks)
        fields = {k: Call("tick", S(k)) for k in ks}
        progs.append(Program("o_init_order_%d" % variant,
                             {"tick": tick, "main": Fn([], Block([Let("o", Obj(**fields)), Print(V("o")),
                                                                  Let("l", List(*[Call("tick", S("l%d" % i)) for i in range(4)])), Print(V("l")),
                                                                  Let("w", Obj(first=Call("tick", S("first")), inner=Obj(a=Call("tick", S("ia")), b=Call("tick", S("ib"))), last=Call("tick", S("last")))),
                                                                  Print(Mem(V("w"), "first"), Mem(Mem(V("w"), "inner"), "a"), Mem(Mem(V("w"), "inner"), "b"), Mem(V("w"), "last"))]))},
                             globs=[("ticks", I(0))], feats={"family": "order", "template": "init_order_%d" % variant}))
    # ... also when one of them ends the program: which exception is raised does not depend on a map
    boom = Fn(["tag"], Block([Expr(If(V("armed"), Block([Expr(Call("throw", V("tag")))])))], I(0)), "int", ["str"])
    progs.append(Program("o_init_throw", {"boom": boom, "main": Fn([], Block([Let("o", Obj(zeta=Call("boom", S("zeta")), alpha=Call("boom", S("alpha")), mid=Call("boom", S("mid")))), Print(V("o"))]))},
                         globs=[("armed", B(True))], feats={"family": "order", "template": "init_throw"}))
    # many locals: 40 bindings with shadowing, summed and printed in a fixed order
    for variant in range(3):
        stmts = []
        vs = ["v%d" % i for i in range(40)]
        rnd.shuffle(vs)
        for i, v in enumerate(vs):
            stmts.append(Let(v, I(i + 1)))
        for v in vs[:10]:
            stmts.append(Let(v, Bin("+", V(v), I(100))))
        acc = I(0)
        for v in sorted(vs):
            acc = Bin("+", Bin("*", acc, I(3)), V(v))
        stmts.append(Print(*[V(v) for v in sorted(vs)[:12]]))
        stmts.append(Print(Bin("%", acc, I(1000003))))
        add("locals_%d" % variant, main(*stmts), locals=40)
    # many functions calling each other, many globals
    for variant in range(3):
        k = 14
        order = list(range(k))
        rnd.shuffle(order)
        fns = {}
        for i in order:
            body = [Print(S("f%d" % i), V("g%d" % i)), Expr(Asg(V("g%d" % i), Bin("+", V("g%d" % i), I(1))))]
            if i + 1 < k:
                body.append(Expr(Call("f%d" % (i + 1))))
            fns["f%d" % i] = Fn([], Block(body))
        fns["main"] = Fn([], Block([Expr(Call("f0")), Expr(Call("f7")), Print(*[V("g%d" % i) for i in range(k)])]))
        globs = [("g%d" % i, I(i * 10)) for i in order]
        add("fns_%d" % variant, fns, globs, nfns=k)
    return progs


class RandGen:
    """small type-directed generator over ints, bools, strings, int lists; effects are prints"""

    def __init__(self, rnd):
        self.r = rnd
        self.vars = []     # stack of scopes: list of (name, type)
        self.n = 0
        self.loop_depth = 0
        self.fns = {}

    def fresh(self, b):
        self.n += 1
        return "%s%d" % (b, self.n)

    def visible(self, ty):
        seen = set()
        out = []
        for sc in reversed(self.vars):
            for name, t in reversed(sc):
                if name not in seen:
                    seen.add(name)
                    if t == ty:
                        out.append(name)
        return out

    def expr(self, ty, d):
        r = self.r
        vs = self.visible(ty)
        if d <= 0 or r.random() < 0.25:
            if vs and r.random() < 0.6:
                return V(r.choice(vs))
            if ty == "int":
                return I(r.choice([0, 1, 2, 3, 5, 7, -1, -3]))
            if ty == "bool":
                return B(r.random() < 0.5)
            if ty == "str":
                return S(r.choice(["", "a", "bc"]))
            if ty == "[int]":
                return List(*[I(r.randint(0, 5)) for _ in range(r.randint(1, 3))])
        c = r.random()
        if ty == "int":
            if c < 0.45:
                return Bin(r.choice(["+", "-", "*", "&", "|", "^"]), self.expr("int", d - 1), self.small_nonneg(d - 1)
                           ) if r.random() < 0.3 else Bin(r.choice(["+", "-", "*"]), self.expr("int", d - 1), self.expr("int", d - 1))
            if c < 0.55:
                return Bin(r.choice(["/", "%"]), self.expr("int", d - 1), I(r.choice([1, 2, 3, -2])))
            if c < 0.65:
                return Un("-", self.expr("int", d - 1))
            if c < 0.8:
                return If(self.expr("bool", d - 1), Block([], self.expr("int", d - 1)), Block([], self.expr("int", d - 1)))
            if c < 0.9:
                return Match(self.expr("int", d - 1), [([I(0)], self.expr("int", d - 1)), ([I(1), I(2)], self.expr("int", d - 1))],
                             self.expr("int", d - 1))
            if self.visible("[int]"):
                return MCall(V(r.choice(self.visible("[int]"))), "len")
            return Block([Let(self.fresh("t"), self.expr("int", d - 1))], self.expr("int", d - 1))
        if ty == "bool":
            if c < 0.4:
                return Bin(r.choice(["<", "<=", ">", ">=", "==", "!="]), self.expr("int", d - 1), self.expr("int", d - 1))
            if c < 0.7:
                return Bin(r.choice(["&&", "||", "^", "==", "!="]), self.expr("bool", d - 1), self.expr("bool", d - 1))
            if c < 0.85:
                return Un("!", self.expr("bool", d - 1))
            return Bin(r.choice(["==", "!="]), self.expr("str", d - 1), self.expr("str", d - 1))
        if ty == "str":
            if c < 0.6:
                return Bin("+", self.expr("str", d - 1), self.expr("str", d - 1))
            return If(self.expr("bool", d - 1), Block([], self.expr("str", d - 1)), Block([], self.expr("str", d - 1)))
        if ty == "[int]":
            return List(*[self.expr("int", d - 1) for _ in range(r.randint(1, 3))])
        raise ValueError(ty)

    def small_nonneg(self, d):
        return I(self.r.choice([0, 1, 2, 3, 6]))

    def stmts(self, n, d):
        out = []
        self.vars.append([])
        for _ in range(n):
            out.append(self.stmt(d))
        self.vars.pop()
        return out

    def stmt(self, d):
        r = self.r
        c = r.random()
        if c < 0.25 or d <= 0:
            ty = r.choice(["int", "int", "bool", "str", "[int]"])
            e = self.expr(ty, 2)
            name = r.choice(["a", "b", "c", "x", "y"]) if r.random() < 0.5 else self.fresh("v")
            self.vars[-1].append((name, ty))
            return Let(name, e)
        if c < 0.45:
            tys = ["int", "bool", "str", "[int]"]
            return Print(*[self.expr(r.choice(tys), 2) for _ in range(r.randint(1, 3))])
        if c < 0.55:
            vs = [v for v in self.visible("int") if not v.startswith("k")]   # never a while counter
            if vs:
                return Expr(Asg(V(r.choice(vs)), self.expr("int", 2), r.choice(["=", "+=", "-=", "*="])))
            return Print(self.expr("int", 2))
        if c < 0.62:
            ls = self.visible("[int]")
            if ls:
                return Expr(MCall(V(r.choice(ls)), "push", self.expr("int", 1)))
            return Print(self.expr("bool", 2))
        if c < 0.72:
            return Expr(If(self.expr("bool", 2), Block(self.stmts(r.randint(1, 2), d - 1)),
                           Block(self.stmts(r.randint(0, 2), d - 1)) if r.random() < 0.5 else None))
        if c < 0.82:
            x = self.fresh("i")
            self.vars.append([(x, "int")])
            self.loop_depth += 1
            body = self.stmts(r.randint(1, 3), d - 1)
            if r.random() < 0.4:
                body.insert(r.randint(0, len(body)), Expr(If(Bin("==", V(x), I(1)), Block([r.choice([Break(), Continue()])]))))
            self.loop_depth -= 1
            self.vars.pop()
            it = Range(I(0), I(r.randint(0, 3))) if r.random() < 0.6 or not self.visible("[int]") else V(r.choice(self.visible("[int]")))
            return For(x, it, Block(body))
        if c < 0.88:
            k = self.fresh("k")
            self.vars.append([(k, "int")])
            self.loop_depth += 1
            body = [Expr(Asg(V(k), I(1), "+="))] + self.stmts(r.randint(1, 2), d - 1)
            self.loop_depth -= 1
            self.vars.pop()
            # the Let has to precede the loop: emit both as a block-less pair via a wrapper block statement
            return Expr(Block([Let(k, I(0)), While(Bin("<", V(k), I(r.randint(1, 3))), Block(body))]))
        if c < 0.905:
            f = self.fresh("f")
            saved = self.vars
            self.vars = [[("a", "int")]]           # a function literal sees its parameters only
            body = Block([], self.expr("int", 3))
            self.vars = saved
            lam = FnLit(["a"], body, ret="int")
            return Expr(Block([Let(f, lam), Print(S("lam"), Call(f, self.expr("int", 1)))]))
        if c < 0.94:
            e = self.fresh("e")
            self.vars.append([])
            tb = self.stmts(r.randint(1, 2), d - 1)
            if r.random() < 0.6:
                # inserted at a random position: only literals, the scope at that position is not known here
                tb.insert(r.randint(0, len(tb)), Expr(If(B(r.random() < 0.7), Block([Expr(Call("throw", S(r.choice(["t1", "t2", ""]))))]))))
            self.vars.pop()
            self.vars.append([])
            cb = [Print(S("caught"), Mem(V(e), "message"))] + self.stmts(r.randint(0, 1), d - 1)
            self.vars.pop()
            return Expr(Try(Block(tb), e, Block(cb)))
        return Expr(Block(self.stmts(r.randint(1, 3), d - 1)))

    def program(self, pid):
        self.vars = []
        self.fns = {}
        body = self.stmts(self.r.randint(3, 7), 3)
        return Program(pid, {"main": Fn([], Block(body))}, feats={"family": "random"})


def random_programs(n, seed):
    rnd = random.Random(seed)
    g = RandGen(rnd)
    return [g.program("rnd%d_%d" % (seed, i)) for i in range(n)]
