"""C03 - the analyzer rejects every ill-typed program and accepts every well-typed one.

HmsTypes (TLC) is the oracle: for every well-typed program of the families and every single-fault mutant it
computes the verdict (ok / the class of the first broken rule / unspec) and, for accepted programs, the type
of every let-bound variable.  The real analyzer must report no error-level diagnostic exactly for the
accepted ones, and must have recorded the same variable types.
"""
import json
import random

from . import common as C
from . import families as Fam
from . import progs as P
from . import tyspec as T


def base_programs(thorough, seed):
    progs = T.typing_programs(ill=True) + Fam.template_programs() + Fam.capture_programs() + Fam.lambda_programs() + Fam.order_programs(seed)[:6]
    ops = Fam.operator_programs()
    progs += ops if thorough else ops[seed % 7::7]
    progs += Fam.nestings(1)[::(1 if thorough else 5)]
    progs += Fam.random_programs(120 if thorough else 25, seed + 3)
    progs += Fam.singleton_programs()
    return progs


def run_spec(programs, rep, timeout=3000, chunk=12000):
    cfg = "SPECIFICATION Spec\nINVARIANTS VerdictWellFormed Export\nCHECK_DEADLOCK FALSE\n"
    out = {}
    # (TLC holds the whole program file as one value: bounded pieces keep it inside the heap)
    for i in range(0, len(programs), chunk):
        text = "\n".join(T.types_json(p) for p in programs[i:i + chunk]) + "\n"
        r = C.run_tlc("HmsTypes", cfg, files=[("programs.ndjson", text)], timeout=timeout, heap="24g")
        C.tlc_must_pass(r, "HmsTypes")
        rep.add_tlc(r)
        out.update({c["id"]: c for c in r.cases})
    missing = [p["id"] for p in programs if p["id"] not in out]
    if missing:
        raise C.Machinery("HmsTypes produced no verdict for %d programs, e.g. %s" % (len(missing), missing[:3]))
    return out


def run(args):
    rep = C.Report("C03")
    thorough = C.tier() == "thorough"
    rnd = random.Random(C.seed())
    rep.cov["rule"] = ("well-typed programs (typing forms, templates, captures, lambdas, operators x operand types, control nestings, "
                       "seeded random programs) and their single-fault mutants (literal of another type in every expression position, "
                       "arity, unknown identifier / member / type, break / continue outside a loop or inside a function literal, duplicate "
                       "function / parameter / global, non-constant global, implicit any, main shape, declared / returned type incl. "
                       "after a function literal, operator outside its type, calling / indexing a non-function / non-container, loop and "
                       "if values, missing match default); HmsTypes fixes accept / reject and the let-bound types; non-trivial = "
                       "distinct rendered sources")
    bases = base_programs(thorough, C.seed())
    allp = []
    for b in bases:
        allp.append(b)
        for q, op in T.mutants(b, rnd, 40 if thorough else 6):
            allp.append(q)
    # distinct ids
    seen = set()
    progs = []
    for p in allp:
        if p["id"] in seen:
            continue
        seen.add(p["id"])
        progs.append(p)
    verdicts = run_spec(progs, rep)
    pool = C.Pool(C.build_worker())
    reqs, meta = [], []
    nunspec = 0
    for p in progs:
        v = verdicts[p["id"]]
        if v["c"] == "unspec":
            nunspec += 1
            continue
        try:
            src, spans = P.render(p)
        except Exception as e:
            raise C.Machinery("cannot render %s: %s" % (p["id"], e))
        reqs.append({"op": "run", "id": len(reqs), "a": {"modules": {"main": src}, "entry": "main", "backend": "analyze",
                                                           "want_types": True, "timeout_ms": 8000}})
        meta.append((p, v, src))
    rep.notes["unspecified_programs_skipped"] = nunspec
    res = pool.map(reqs, timeout=30)
    classes = {}
    nsyntax = 0
    for (p, v, src), r in zip(meta, res):
        rep.count()
        rep.nontrivial(src)
        feats = p.get("feats", {})
        feat = {"family": feats.get("family", "?"), "mutation": feats.get("mutation", "none"), "verdict": v["c"]}
        classes[v["c"]] = classes.get(v["c"], 0) + 1
        if "crash" in r or "hang" in r:
            from .sem import panic_class
            rep.fail(dict(feat, kind="hostcrash" if "crash" in r else "hang", panic=panic_class((r.get("crash") or {}).get("stderr", ""))),
                     {"program": src, "real": str(r)[:1500]})
            continue
        a = r["r"]
        errs = [d for d in a["diags"] if d["level"] == "Error"]
        if a["syntax"]:
            nsyntax += 1       # the quantifier ranges over syntactically valid programs: a generator slip, not a verdict
            rep.notes.setdefault("syntax_error_examples", [])
            if len(rep.notes["syntax_error_examples"]) < 3:
                rep.notes["syntax_error_examples"].append({"id": p["id"], "msg": a["syntax"][0]["msg"], "src": src[:300]})
            continue
        if v["c"] == "ok":
            if errs:
                rep.fail(dict(feat, kind="well-typed-rejected", msg=errs[0]["msg"][:50]), {"program": src, "diags": errs[:4]})
                continue
            want = sorted(json.dumps({"x": e[1], "t": T.norm_type(e[2])}, sort_keys=True) for e in v["pr"])
            got = sorted(json.dumps({"x": l["x"], "t": T.norm_type(l["t"])}, sort_keys=True) for l in a.get("let_types") or [])
            if want != got:
                rep.fail(dict(feat, kind="recorded-type-differs"),
                         {"program": src, "only_spec": [x for x in want if x not in got][:4], "only_analyzer": [x for x in got if x not in want][:4]})
        else:
            if not errs:
                rep.fail(dict(feat, kind="ill-typed-accepted", cls=v["c"]), {"program": src, "class": v["c"], "mutation": feats.get("mutation")})
    rep.notes["verdict_classes"] = classes
    rep.notes["syntactically_invalid_skipped"] = nsyntax
    if nsyntax > len(meta) // 20:
        raise C.Machinery("%d of %d generated programs are syntactically invalid" % (nsyntax, len(meta)))
    for (p, v, src) in rnd.sample(meta, min(3, len(meta))):
        rep.sample({"id": p["id"], "verdict": v["c"], "program": src[:500]})
    return rep.finish()
