"""C02 - an accepted program can never crash, wedge or confuse the host."""
import itertools
import random

from . import common as C
from . import families as Fam
from . import progs as P
from . import sem
from . import vmtrace

LIMITS = [{"call": 1, "stack": 1, "mem": 1}, {"call": 2, "stack": 4, "mem": 8}, {"call": 8, "stack": 16, "mem": 32},
          {"call": 100, "stack": 500, "mem": 100000}]

INT = ["0", "1", "(0 - 1)", "2", "63", "64", "(0 - 64)", "9223372036854775807", "(0 - 9223372036854775807 - 1)"]
FLT = ["0.0", "1.5", "(0.0 - 2.5)", "1000000000000000000000.0", "0.000001", "(0.0 - 0.0)"]
BOOL = ["true", "false"]
STR = ['""', '"a"', '"abc"', '"12"', '"é"']
OPS = {"int": ["+", "-", "*", "/", "%", "**", "<<", ">>", "|", "&", "^", "==", "!=", "<", ">", "<=", ">="],
       "float": ["+", "-", "*", "/", "**", "==", "!=", "<", ">", "<=", ">="],
       "bool": ["|", "&", "^", "||", "&&", "==", "!="], "str": ["+", "==", "!="]}
ASSIGN = {"int": ["+=", "-=", "*=", "/=", "%=", "**=", "<<=", ">>=", "|=", "&=", "^="], "float": ["+=", "-=", "*=", "/=", "**="],
          "str": ["+="], "bool": ["|=", "&=", "^="]}
VALS = {"int": INT, "float": FLT, "bool": BOOL, "str": STR}


def operator_grid():
    """every (operator, operand type) the analyzer's table admits x boundary operands, also as compound assignment"""
    out = []
    for ty, ops in OPS.items():
        for op in ops:
            for a in VALS[ty]:
                body = "".join("    { let y = %s; println(x %s y); }\n" % (b, op) for b in VALS[ty][:6])
                out.append(("op %s %s" % (ty, op), "fn main() {\n    let x = %s;\n%s}\n" % (a, body)))
                # one operation per program for the operand pairs that may end the run (so that the others are reached too)
            for a, b in itertools.product(VALS[ty], VALS[ty]):
                if (op in ("/", "%", "**", "<<", ">>")):
                    out.append(("op1 %s %s" % (ty, op), "fn main() {\n    let x = %s; let y = %s; println(x %s y);\n}\n" % (a, b, op)))
    for ty, ops in ASSIGN.items():
        for op in ops:
            for a, b in itertools.product(VALS[ty][:5], VALS[ty][:5]):
                out.append(("asg %s %s" % (ty, op),
                            "fn main() {\n    let x = %s; let l = [%s]; let o = new { f: %s };\n    x %s %s; l[0] %s %s; o.f %s %s;\n    println(x, l, o.f);\n}\n"
                            % (a, a, a, op, b, op, b, op, b)))
    for a in INT:
        out.append(("prefix int", "fn main() { let x = %s; println(-x, !x, ?x); }\n" % a))
    for a in FLT:
        out.append(("prefix float", "fn main() { let x = %s; println(-x, ?x); }\n" % a))
    return out


def container_grid():
    """indexing and every index- / count-taking member on boundary receivers x boundary positions (before the start,
    -len, -1, 0, len - 1, len, the encoded size of text with multi-byte characters, far out), one operation per program"""
    out = []
    texts = ['""', '"a"', '"abc"', '"é"', '"aéb"', '"äöü"', '"😀a"', '"Temperatur: 21°C"', '"e\u0301"', '"ae\u0301o\u0308b"']
    lists = ["[1]", "[1, 2, 3]", '["a", ""]', "[[1], [2, 3]]"]
    idx = ["0", "1", "2", "3", "4", "5", "6", "7", "16", "17", "18", "100", "(0 - 1)", "(0 - 2)", "(0 - 3)", "(0 - 4)", "(0 - 6)", "(0 - 7)", "(0 - 100)",
           "9223372036854775807", "(0 - 9223372036854775807 - 1)"]
    for t in texts:
        for i in idx:
            out.append(("index str", "fn main() { let s = %s; let i = %s; println(s[i]); }\n" % (t, i)))
            out.append(("substring", "fn main() { let s = %s; let i = %s; println(s.substring(i)); }\n" % (t, i)))
        for i in idx[:8] + idx[12:14]:
            out.append(("repeat", "fn main() { let s = %s; let i = %s; println(s.repeat(i).len()); }\n" % (t, i)))
        for a in ['""', '"a"', '"é"', '"ab"']:
            out.append(("str members", "fn main() { let s = %s; let a = %s; println(s.split(a), s.replace(a, \"x\"), s.replace(a, \"\"), s.contains(a), "
                        "s.starts_with(a), s.compare_lev(a), s.to_upper(), s.to_lower(), s.len()); for c in s { print(c); } println(\"\"); }\n" % (t, a)))
    for l in lists:
        for i in idx:
            out.append(("index list", "fn main() { let l = %s; let i = %s; println(l[i]); }\n" % (l, i)))
            out.append(("list remove", "fn main() { let l = %s; let i = %s; l.remove(i); println(l); }\n" % (l, i)))
            out.append(("list insert", "fn main() { let l = %s; let i = %s; l.insert(i, l[0]); println(l); }\n" % (l, i)))
            out.append(("index assign", "fn main() { let l = %s; let i = %s; l[i] = l[0]; println(l); }\n" % (l, i)))
        out.append(("list members", "fn main() { let l = %s; println(l.join(\",\"), l.join(\"\"), l.len(), l.last(), l.contains(l[0]), l.to_json()); "
                    "l.concat(l); l.push(l[0]); l.push_front(l[0]); println(l.pop(), l.pop_front(), l); }\n" % l))
    for i in idx:
        out.append(("range", "fn main() { let i = %s; let n = 0; for j in 0..i { n += 1; if n > 3 { break; } } println(n, (0..i).diff(), (i..0).rev(), i.to_range(), i.to_string()); }\n" % i))
    return out


def misc_programs():
    return [
        ("empty list ops", "fn main() { let l: [int] = []; println(l.pop(), l.pop_front(), l.last(), l.len()); l.sort(); println(l.join(\",\")); }\n"),
        ("empty list index", "fn main() { let l: [int] = []; println(l[0]); }\n"),
        ("none unwrap", "fn main() { let o: ?int = none; println(o.unwrap()); }\n"),
        ("none expect", "fn main() { let o: ?int = none; println(o.expect(\"msg\")); }\n"),
        ("none unwrap caught", "fn main() { let o: ?int = none; try { println(o.unwrap()); } catch e { println(\"caught\"); } println(\"after\"); }\n"),
        ("deep recursion", "fn r(n: int) -> int { r(n + 1) }\nfn main() { println(r(0)); }\n"),
        ("global init fails", "let g = 1 / 0;\nfn main() { println(g); }\n"),
        ("global init throws", "fn t() -> int { throw(\"init\"); 1 }\nlet g = t();\nfn main() { println(g); }\n"),
        ("anyobj ops", "fn main() { let o = new { ? }; o.set(\"a\", 1); println(o.get(\"a\"), o.get(\"b\"), o.keys()); println(o.get_type(\"b\")); }\n"),
        ("anyobj arrow", "fn main() { let o = new { ? }; o.set(\"a\", 1); println(o->a, o->b); println(o~>b); }\n"),
        ("parse failures", "fn main() { println(\"x\".parse_int()); }\n"),
        ("parse failures 2", "fn main() { println(\"x\".parse_float()); }\n"),
        ("parse failures 3", "fn main() { println(\"x\".parse_bool()); }\n"),
        ("parse json bad", "fn main() { let j: any = \"{\".parse_json(); println(j); }\n"),
        ("string repeat", "fn main() { println(\"ab\".repeat(0 - 1)); }\n"),
        ("substring", "fn main() { println(\"ab\".substring(0 - 1)); }\n"),
        ("range to string", "fn main() { let r = 1..3; println(r.to_string(), r.rev(), r.diff()); }\n"),
        ("huge range", "fn main() { let n = 0; for i in 0..9223372036854775807 { n += 1; if n > 3 { break; } } println(n); }\n"),
        ("closure value", "fn main() { let f = fn(a: int) -> int { a + 1 }; let l = [f]; println(l[0](1)); println(f); }\n"),
        ("nested fn values", "fn ap(f: fn(x: int) -> int, v: int) -> int { f(v) }\nfn d(x: int) -> int { x * 2 }\nfn main() { println(ap(d, 4)); }\n"),
        ("let any cast", "fn main() { let j: any = \"[1]\".parse_json(); let l: [int] = j; println(l); }\n"),
        ("let any cast mismatch", "fn main() { let j: any = \"[1]\".parse_json(); let l: str = j; println(l); }\n"),
        ("float modulo assign", "fn main() { let x = 5.5; x %= 2.0; println(x); }\n"),
        ("print fn", "fn f() { }\nfn main() { println(f, println); }\n"),
        ("compare lists", "fn main() { println([1] == [1], [[1]] != [[2]], (1..2) == (1..2)); }\n"),
        ("deep literal", "fn main() { println(" + "[" * 60 + "1" + "]" * 60 + "); }\n"),
        ("match on all", "fn main() { println(match 1.5 { 1.5 => 1, _ => 0 }, match \"a\" { \"a\" | \"b\" => 1, _ => 0 }, match null { null => 1 }, match none { _ => 2 }); }\n"),
        ("return mid expression", "fn f(n: int) -> int { let l = [1, if n > 0 { return 5; } else { 2 }]; l[1] }\nfn main() { for i in 0..3 { println(1 + f(i)); } }\n"),
        ("break mid expression", "fn main() { let s = 0; for i in 0..5 { s += 1 + if i == 2 { break; } else { i }; } println(s); }\n"),
        ("throw mid expression", "fn main() { for i in 0..3 { try { println([1, 2, throw(\"t\")]); } catch e { println(e.message); } } println(\"end\"); }\n"),
        ("string iteration", "fn main() { for c in \"héllo\" { print(c); } println(\"\"); }\n"),
        ("time builtin", "fn main() { let t = time.now(); println(t.year > 2000); }\n"),
        ("fmt", "fn main() { println(fmt(\"%d-%s\", 1, \"x\")); println(fmt(\"%d\", \"x\")); }\n"),
        ("assert fails", "fn main() { assert(false); println(\"after\"); }\n"),
        ("cyclic any-object shown", "fn main() { let a = new { ? }; a.set(\"me\", a); println(\"made\"); println(a); }\n"),
        ("cyclic any-object compared", "fn main() { let a = new { ? }; a.set(\"me\", a); let b = new { ? }; b.set(\"me\", b); println(a == b); }\n"),
        ("cyclic any-object to_json", "fn main() { let a = new { ? }; let b = new { ? }; a.set(\"b\", b); b.set(\"a\", a); println(a.to_json()); }\n"),
        ("cyclic list", "fn main() { let a = new { ? }; let l = [a]; a.set(\"l\", l); println(l.len()); println(l); }\n"),
        ("thread joined", "fn w(n: int) -> int { n * 2 }\nfn main() { let h = spawn w(2); println(h.join(), h.join()); let j = h.join; println(j()); }\n"),
        ("thread joined null", "fn w(n: int) { println(n); }\nfn main() { let h = spawn w(2); h.join(); h.join(); println(\"after\"); }\n"),
        ("thread handle shown", "fn w(n: int) -> [int] { [n] }\nfn main() { let h = spawn w(2); println(h, h == h, h.join); let l = [h, spawn w(3)]; for x in l { println(x.join()); } }\n"),
        ("thread joined after failure", "fn w(n: int) -> int { throw(\"w failed\"); n }\nfn main() { let h = spawn w(2); println(\"m\"); println(h.join()); println(\"not reached\"); }\n"),
        ("thread joined in try", "fn w(n: int) -> int { throw(\"w failed\"); n }\nfn main() { let h = spawn w(2); try { println(h.join()); } catch e { println(\"caught\"); } }\n"),
        ("thread joins thread", "fn leaf(n: int) -> int { n + 1 }\nfn mid(n: int) -> int { let a = spawn leaf(n); let b = spawn leaf(n * 2); a.join() + b.join() }\n"
                                "fn main() { let m = spawn mid(1); let k = spawn mid(2); println(k.join() + m.join()); }\n"),
        ("thread deep recursion joined", "fn r(n: int) -> int { r(n + 1) }\nfn main() { let h = spawn r(0); println(h.join()); }\n"),
        ("thread many", "fn w(n: int) -> int { n }\nfn main() { let hs = [spawn w(0)]; for i in 1..20 { hs.push(spawn w(i)); } let s = 0; for h in hs { s += h.join(); } println(s); }\n"),
        ("thread never ends joined", "fn w(n: int) -> int { loop { } }\nfn main() { let h = spawn w(1); println(h.join()); }\n"),
        ("thread handle in global", "let slot: ?{ join: fn() -> int } = none;\nfn w(n: int) -> int { n }\nfn other(n: int) -> int { slot.unwrap().join() + n }\n"
                                    "fn main() { slot = ?(spawn w(5)); let o = spawn other(1); println(o.join()); }\n"),
        ("thread joins itself", "let slot: ?{ join: fn() -> int } = none;\nfn w(n: int) -> int { let k = 0; while slot.is_none() && k < 100000 { k += 1; } if slot.is_some() { slot.unwrap().join() } else { n } }\n"
                                "fn main() { slot = ?(spawn w(5)); println(\"set\"); }\n"),
        ("thread of function value", "fn w(n: int) -> int { n }\nfn main() { let f = w; spawn f(1); let g = fn(n: int) -> int { n }; spawn g(2); }\n"),
        ("thread of builtin", "fn main() { spawn println(1); spawn print(2); }\n"),
        ("thread of host function", "import tag from hosta;\nfn main() { spawn tag(); }\n"),
        ("thread returning function", "fn mk() -> fn(a: int) -> int { fn(a: int) -> int { a } }\nfn main() { let h = spawn mk(); println(h.join()(1)); }\n"),
        ("cyclic value closed by push", "fn main() { let a = new { ? }; let l: [{ ? }] = []; a.set(\"l\", l); l.push(a); println(\"made\", l.len()); println(l); }\n"),
        ("cyclic value closed by element assignment", "fn main() { let a = new { ? }; let b = new { ? }; let l = [b]; a.set(\"l\", l); l[0] = a; println(\"made\"); println(a == a); }\n"),
        ("spawn arg types", "fn w(l: [int], o: { a: int }, s: str) { println(l, o.a, s); }\nfn main() { spawn w([1], new { a: 1 }, \"s\"); }\n"),
    ]


def run(args):
    rep = C.Report("C02")
    thorough = C.tier() == "thorough"
    rnd = random.Random(C.seed())
    rep.cov["rule"] = ("every (operator, operand type) of the analyzer's table x boundary operands (zero divisors, negative and "
                       ">= 64 shift counts, extreme ints/floats, empty strings) incl. compound assignment on variables, elements "
                       "and fields; indexing and index- / count-taking members on boundary text (multi-byte characters) and lists x boundary "
                       "positions; boundary programs for members, options, casts, closures, globals; the C01 program families; "
                       "each on both backends under a grid of 4 CoreLimits; observation must be completion or an interrupt, "
                       "never a host panic / hang / dead worker; VM instruction traces must satisfy HmsVM's invariants; "
                       "non-trivial = distinct (program, backend, limits)")
    pool = C.Pool(C.build_worker())
    srcs = operator_grid() + misc_programs() + container_grid()
    fam = Fam.template_programs() + Fam.capture_programs() + Fam.lambda_programs() + Fam.singleton_programs() + Fam.closure_programs() + \
        Fam.nestings(2, rnd, sample=600) + Fam.random_programs(600 if thorough else 150, C.seed() + 7)
    for p in fam:
        srcs.append(("family " + p["feats"]["family"] + (" " + p["feats"]["variant"] if "variant" in p["feats"] else ""), P.render(p)[0]))
    limits = LIMITS if thorough else [LIMITS[1], LIMITS[3]]
    reqs, meta = [], []
    for pi, (label, src) in enumerate(srcs):
        for b in ("vm", "tree"):
            for li, lim in enumerate(limits if b == "vm" else [None]):
                # (programs which only the deadline ends get a short one: they spin on every core for all of it)
                a = {"modules": {"main": src}, "entry": "main", "backend": b, "timeout_ms": 1200 if "never ends" in label or "joins itself" in label else 6000}
                if lim:
                    a["limits"] = lim
                if b == "tree":
                    a["tree_limit"] = 300
                if b == "vm" and lim == LIMITS[3] and (pi % 3 == 0 or thorough or "mid expression" in label):
                    a["trace"] = True
                    a["trace_instr"] = True
                reqs.append({"op": "run", "id": len(reqs), "a": a})
                meta.append((label, src, b, lim))
    res = pool.map(reqs, timeout=30)
    traces, owners = [], []
    rejected = 0
    for (label, src, b, lim), r in zip(meta, res):
        rep.count()
        rep.nontrivial((src, b, str(lim)))
        feat = {"family": label.split(" ")[0], "what": label, "backend": b, "tight_limits": bool(lim and lim["stack"] < 100)}
        if "crash" in r:
            rep.fail(dict(feat, kind="hostcrash", panic=sem.panic_class(r["crash"]["stderr"])),
                     {"source": src, "limits": lim, "stderr": r["crash"]["stderr"][:2500]})
            continue
        if "hang" in r:
            rep.fail(dict(feat, kind="hang"), {"source": src, "limits": lim})
            continue
        rr = r["r"]
        if not rr["accepted"]:
            rejected += 1
            continue
        oc = rr.get("outcome") or {}
        if oc.get("kind") not in ("done", "uncaught", "fatal", "terminated"):
            rep.fail(dict(feat, kind="confused-outcome", got=str(oc.get("kind"))), {"source": src, "limits": lim, "outcome": oc})
        if rr.get("goroutines", 0) > 0:
            rep.fail(dict(feat, kind="goroutine-leak"), {"source": src, "limits": lim})
        if rr.get("trace") and oc.get("kind") == "done":
            traces.append(rr["trace"])
            owners.append({"what": label, "program": src})
    rep.notes["programs_rejected_by_analyzer"] = rejected
    vmtrace.validate_all(traces, owners, rep, {"family": "vm-trace"})
    for label, src in rnd.sample(srcs, 3):
        rep.sample({"what": label, "source": src[:500]})
    return rep.finish()
