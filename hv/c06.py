"""C06 - the token stream is a faithful image of the source text.

M: TLC checks HmsLex's design invariants (Partition, Monotone, LongestMatch, SpanIsLexeme,
   KeywordsAreNotIdentifiers, Deterministic) on every state of every enumerated input.
A: every terminal state (input, token list with spans, error) is replayed on the real lexer.
B: token streams recorded from the real lexer on the repository's .hms files are validated
   against the specification by TLC (TraceLex).
"""
import glob
import json
import os
import random

from . import common as C

ALPHABET = [32, 10, 9, 97, 102, 95, 48, 49, 56, 46, 34, 39, 92, 120, 110, 47, 42, 61, 60, 62, 33, 124, 38,
            94, 45, 43, 126, 40, 167, 233]
INVS = "Partition Monotone SpanIsLexeme LongestMatch KeywordsAreNotIdentifiers Deterministic Export"


def cfg(mode, maxlen=1, lo=1, hi=1, alphabet=ALPHABET):
    return """SPECIFICATION Spec
CONSTANTS
  Mode = "%s"
  Alphabet = {%s}
  MaxLen = %d
  PairLo = %d
  PairHi = %d
INVARIANTS %s
CHECK_DEADLOCK FALSE
""" % (mode, ", ".join(map(str, alphabet)), maxlen, lo, hi, INVS)


def tok_features(exp, got):
    for f in ("k", "v", "s", "e"):
        if exp.get(f) != got.get(f):
            return f
    if got.get("f") != "vfile":
        return "f"
    return None


def compare(case, real, rep, family):
    """Compare the specification's terminal state with the real lexer's result."""
    src = case["src"]
    exp = case["toks"]
    got = real.get("toks", [])
    base = {"family": family, "src": C.text(src)}
    if "crash" in real or "hang" in real:
        return rep.fail(dict(base, kind="hostcrash" if "crash" in real else "hang"), {"case": case, "real": real})
    if real["status"] == "nontermination":
        return rep.fail(dict(base, kind="nontermination"), {"case": case, "real": real})
    n = min(len(exp), len(got))
    for i in range(n):
        f = tok_features(exp[i], got[i])
        if f:
            return rep.fail(dict(base, kind="token", field=f, expected_kind=exp[i]["k"], got_kind=got[i]["k"],
                                 index=i), {"case": case, "real": real, "token_index": i})
    if case["status"] == "done":
        if case["lenient"] and real["status"] == "error":
            if real["err"]["s"]["i"] == case["err"]["i"] and len(got) == len(exp) - 1:
                return None
            return rep.fail(dict(base, kind="comment-error-position"), {"case": case, "real": real})
        if real["status"] != "done" or len(got) != len(exp):
            return rep.fail(dict(base, kind="status", expected="done", got=real["status"],
                                 extra_tokens=len(got) - len(exp)), {"case": case, "real": real})
        return None
    # the specification ends in an error after len(exp) tokens
    if real["status"] != "error" or len(got) != len(exp):
        return rep.fail(dict(base, kind="status", expected="error:" + case["err"]["what"], got=real["status"],
                             extra_tokens=len(got) - len(exp)), {"case": case, "real": real})
    e = real["err"]
    lo = case["err"]["i"]
    ok = lo <= e["s"]["i"] <= len(src) and e["s"]["i"] <= e["e"]["i"] <= len(src) and e["f"] == "vfile"
    if case["err"]["what"] == "illegal character":
        ok = ok and e["s"]["i"] == lo
    if case["err"]["what"] == "incomplete operator":
        ok = ok and e["s"]["i"] <= lo + 1
    if not ok:
        return rep.fail(dict(base, kind="error-position", what=case["err"]["what"]), {"case": case, "real": real})
    return None


def record_files(pool, rep):
    files = sorted(glob.glob(os.path.join(C.REPO, "examples", "*.hms")) +
                   glob.glob(os.path.join(C.REPO, "tests", "*.hms")) +
                   glob.glob(os.path.join(C.REPO, "*.hms")))
    srcs = []
    for f in files:
        try:
            t = open(f, encoding="utf-8").read()
        except Exception:
            continue
        srcs.append((os.path.relpath(f, C.REPO), C.cps(t)))
    res = pool.map([{"op": "lex", "id": i, "a": s} for i, (_, s) in enumerate(srcs)], timeout=30)
    lines = []
    names = []
    for (name, s), r in zip(srcs, res):
        if "crash" in r or "hang" in r:
            rep.fail({"family": "file", "kind": "hostcrash", "src": name}, {"file": name, "real": r})
            continue
        rr = r["r"]
        for t in rr["toks"]:
            if t["f"] != "vfile":
                rep.fail({"family": "file", "kind": "token", "field": "f", "src": name}, {"file": name, "tok": t})
        lines.append(json.dumps({"src": s, "status": rr["status"],
                                 "toks": [{k: t[k] for k in ("k", "v", "s", "e")} for t in rr["toks"]]}))
        names.append(name)
    return names, "\n".join(lines) + "\n"


def run(args):
    rep = C.Report("C06")
    rep.cov["rule"] = ("inputs enumerated by TLC from HmsLex: every string over a %d-character class alphabet up to "
                       "length N, and lexeme1+separator+lexeme2 over a catalogue of ~150 lexemes x 6 separators; "
                       "non-trivial = distinct inputs that produce at least one token or an error (not only EOF)"
                       % len(ALPHABET))
    rep.assumptions = ["code points above 0x10FFFF in \\U escapes are not enumerated (undefined by the grammar)",
                       "grammar.ebnf omits \\' and \\\" escapes; the specification admits them",
                       "an unterminated block comment may be an error or swallow the rest of the input"]
    worker = C.build_worker()
    pool = C.Pool(worker)
    thorough = C.tier() == "thorough"
    rnd = random.Random(C.seed())

    def replay(cases, family):
        res = pool.map([{"op": "lex", "id": i, "a": c["src"]} for i, c in enumerate(cases)])
        for c, r in zip(cases, res):
            rep.count()
            real = r["r"] if "r" in r else r
            if len(c["toks"]) > 1 or c["status"] == "error":
                rep.nontrivial(C.text(c["src"]))
            compare(c, real, rep, family)
        if cases:
            for c in rnd.sample(cases, min(2, len(cases))):
                rep.sample({"family": family, "src": C.text(c["src"]), "status": c["status"],
                            "tokens": [[t["k"], C.text(t["v"]), t["s"]["i"], t["e"]["i"]] for t in c["toks"]]})

    # ---- family L1: exhaustive strings
    maxlen = 4 if thorough else 3
    if thorough:
        # length 4 over the full alphabet is 8.4e5 inputs; TLC handles it, split to bound memory
        alph = ALPHABET
    else:
        alph = ALPHABET
    r = C.run_tlc("HmsLex", cfg("exh", maxlen=maxlen, alphabet=alph), timeout=3000 if thorough else 600,
                  heap="24g" if thorough else "8g")
    C.tlc_must_pass(r, "HmsLex exhaustive strings")
    rep.add_tlc(r)
    replay(r.cases, "exh")
    # ---- family L1c: comments need longer inputs than the full alphabet allows: every string over / * a 1 and newline
    # (where a block comment ends depends on runs of stars and slashes: /***/, /* **/, /*/*/, // a*/ ...)
    r = C.run_tlc("HmsLex", cfg("exh", maxlen=8 if thorough else 7, alphabet=[47, 42, 97, 49, 10]), timeout=3000, heap="16g")
    C.tlc_must_pass(r, "HmsLex comment strings")
    rep.add_tlc(r)
    replay(r.cases, "comments")

    # ---- family L2: adjacency of two lexemes
    ncat = 170  # upper bound; the spec ignores indices beyond the catalogue
    if thorough:
        slices = [(1, 60), (61, 120), (121, 200)]
    else:
        start = 1 + (C.seed() * 37) % 140
        slices = [(start, start + 24)]
    for lo, hi in slices:
        r = C.run_tlc("HmsLex", cfg("pairs", lo=lo, hi=hi), timeout=1800, heap="16g")
        C.tlc_must_pass(r, "HmsLex pairs")
        rep.add_tlc(r)
        replay(r.cases, "pairs")
    rep.cov["exhaustive"] = True
    rep.notes["exhaustive_scope"] = "all strings of length <= %d over the class alphabet%s" % (
        maxlen, "; all ordered lexeme pairs x separators" if thorough else "; a seed-chosen slice of lexeme pairs")

    # ---- B: recorded token streams of real files validated by TLC
    names, trace = record_files(pool, rep)
    tr = C.run_tlc("TraceLex", "SPECIFICATION TraceSpec\nCONSTANTS\n Mode = \"file\"\n Alphabet = {}\n MaxLen = 0\n"
                   " PairLo = 1\n PairHi = 1\nINVARIANTS TraceCheck Partition Monotone LongestMatch\n"
                   "CHECK_DEADLOCK FALSE\n",
                   files=[("lex_trace.ndjson", trace)], tags=("MISMATCH", "ACCEPTED"), timeout=900, heap="8g")
    C.tlc_must_pass(tr, "TraceLex")
    rep.add_tlc(tr)
    bad = {}
    for m in tr.tagged["MISMATCH"]:
        bad.setdefault(m["cid"], m)
    for cid, m in bad.items():
        rep.fail({"family": "file", "kind": "trace-rejected", "src": names[cid - 1],
                  "expected_kind": m["spec"].get("k")}, {"file": names[cid - 1], "mismatch": m})
    acc = {m["cid"] for m in tr.tagged["ACCEPTED"]} - set(bad)
    rep.cov["traces_validated_against_impl"] += len(acc)
    rep.notes["trace_files"] = len(names)
    if len(acc) + len(bad) != len(names):
        raise C.Machinery("TraceLex did not finish every file: %d accepted, %d rejected, %d files"
                          % (len(acc), len(bad), len(names)))
    return rep.finish()
