"""C11 - break, continue, return and throw leave exactly what the source says."""
import random

from . import common as C
from . import families as Fam
from . import sem


def run(args):
    rep = C.Report("C11")
    thorough = C.tier() == "thorough"
    rnd = random.Random(C.seed())
    rep.cov["rule"] = ("all nestings of {loop, while, for, block, if, match arm, match default, try, catch, call} of "
                       "depth <= %d around each of {break, continue, return, throw, fatal, none} (legal combinations), "
                       "with marker prints before/after and a second use of locals, try and a loop afterwards; "
                       "expected output/outcome from HmsSem; non-trivial = distinct program texts" % (3 if thorough else 2))
    progs = Fam.nestings(3 if thorough else 2, rnd, sample=None)
    # exits of a function which also makes function values: the literal's own exits (NestGen context `lit`) and the exits of the
    # enclosing function after the literal
    progs += Fam.lambda_programs()
    backends = ("vm", "tree")
    results, cases, rendered = sem.run_programs(progs, rep, backends=backends)
    for p in rnd.sample([q for q in progs if q["id"] in rendered], 3):
        rep.sample({"ctxs": p["feats"].get("ctxs"), "exit": p["feats"].get("exit"), "program": rendered[p["id"]][0][:1500],
                    "expected_status": cases[p["id"]]["status"]})
    rep.cov["exhaustive"] = True
    return rep.finish()
