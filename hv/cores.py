"""Shared pieces for the core-protocol checks (C10, C16, C17): HmsCores model checking and TraceCores validation."""
import json

from . import common as C

KEEP = {"SpawnLock", "SpawnAppend", "SpawnUnlock", "SpawnGo", "Offer", "Cancel", "WaitRLock", "WaitSnapUnlock", "WaitRecv",
        "WaitPollEmpty", "WaitNilLock", "WaitNilAssign", "WaitNilUnlock", "WaitErrLock", "WaitErrCancel", "WaitErrUnlock",
        "WaitDrainRecv", "WaitReturnErr", "WaitReturnNil", "WaitSleep",
        "PreJoin", "Joined", "JoinFailed", "JoinCancelled", "WatchRLock", "WatchReturn"}

SAFETY = ("LockDiscipline WaitOnlyAfterAllDone FatalReported ReportedIsReal LocksReleasedOnReturn ListEmptyOnReturn "
          "NoCoreStranded DeadlockFree JoinSound NoJoinerLeft WatchSound WatchHoldsNoLockWhileCoresRun")


def cfg(variant="fixed", cores=3, spawns=2, fatal=1, calls=2, cancel=True, work=1, spec="Spec", invs=SAFETY, props="",
        hist=False, strict=False, joins=0, watch="none", parent_only=True):
    return ("SPECIFICATION %s\nCONSTANTS\n Variant = \"%s\"\n MaxCores = %d\n MaxSpawns = %d\n MaxFatal = %d\n"
            " MaxCalls = %d\n AllowCancel = %s\n InitWork = %d\n RecordHist = %s\n StrictCancel = %s\n MaxJoins = %d\n"
            " JoinParentOnly = %s\n Watch = \"%s\"\n%s%sCHECK_DEADLOCK FALSE\n" % (
                spec, variant, cores, spawns, fatal, calls, "TRUE" if cancel else "FALSE", work,
                "TRUE" if hist else "FALSE", "TRUE" if strict else "FALSE", joins, "TRUE" if parent_only else "FALSE", watch,
                ("INVARIANTS %s\n" % invs) if invs else "",
                ("PROPERTIES %s\n" % props) if props else ""))


def model_check(rep, thorough):
    """M: the design (fixed protocol) satisfies the safety properties and, under fairness, the liveness ones;
    the protocol of the original snapshot is refuted (sanity check that the properties are not vacuous)."""
    r = C.run_tlc("HmsCores", cfg(cores=4 if thorough else 3, spawns=3 if thorough else 2, calls=2), timeout=1800, heap="16g")
    C.tlc_must_pass(r, "HmsCores safety (fixed)")
    rep.add_tlc(r)
    r = C.run_tlc("HmsCores", cfg(spec="FairSpec", calls=1, invs="", props="CancelLeadsToReturn OffersAreTaken"),
                  timeout=1800, heap="16g")
    C.tlc_must_pass(r, "HmsCores liveness (fixed)")
    rep.add_tlc(r)
    # joins: a core inside h.join() ends the join only after the thread has ended, nobody stays inside a join
    r = C.run_tlc("HmsCores", cfg(cores=4 if thorough else 3, spawns=3 if thorough else 2, calls=1, joins=3 if thorough else 2,
                                  props="JoinEndsAfterThread"), timeout=1800, heap="16g")
    C.tlc_must_pass(r, "HmsCores safety with joins")
    rep.add_tlc(r)
    r = C.run_tlc("HmsCores", cfg(spec="FairSpec", cores=3 if thorough else 2, spawns=2 if thorough else 1, calls=1, joins=2, invs="",
                                  props="JoinsEnd CancelLeadsToReturn OffersAreTaken"), timeout=1800, heap="16g")
    C.tlc_must_pass(r, "HmsCores liveness with joins")
    rep.add_tlc(r)
    # WaitNonConsuming beside Wait: as repaired it disturbs nothing and returns; as found it wedges everything
    r = C.run_tlc("HmsCores", cfg(cores=3 if thorough else 2, spawns=2 if thorough else 1, calls=2, watch="fixed"), timeout=1800, heap="16g")
    C.tlc_must_pass(r, "HmsCores safety with a watcher")
    rep.add_tlc(r)
    r = C.run_tlc("HmsCores", cfg(spec="FairSpecW", cores=2, spawns=1, calls=1, watch="fixed", invs="",
                                  props="WatchReturns CancelLeadsToReturn OffersAreTaken"), timeout=1800, heap="16g")
    C.tlc_must_pass(r, "HmsCores liveness with a watcher")
    rep.add_tlc(r)
    if thorough:
        # joins and a watcher at the same time
        r = C.run_tlc("HmsCores", cfg(cores=3, spawns=2, calls=1, joins=2, watch="fixed", props="JoinEndsAfterThread"), timeout=1800, heap="16g")
        C.tlc_must_pass(r, "HmsCores safety with joins and a watcher")
        rep.add_tlc(r)
        r = C.run_tlc("HmsCores", cfg(spec="FairSpecW", cores=2, spawns=1, calls=1, joins=1, watch="fixed", invs="",
                                      props="JoinsEnd WatchReturns CancelLeadsToReturn OffersAreTaken"), timeout=1800, heap="16g")
        C.tlc_must_pass(r, "HmsCores liveness with joins and a watcher")
        rep.add_tlc(r)
    r = C.run_tlc("HmsCores", cfg(cores=2, spawns=1, calls=1, watch="orig", invs="NoCoreStranded"), timeout=600)
    if r.ok:
        raise C.Machinery("HmsCores: the watcher as found is not refuted (vacuous property?)")
    rep.notes["orig_watcher_refuted"] = ["NoCoreStranded"]
    refuted = []
    for inv in ("WaitOnlyAfterAllDone", "LocksReleasedOnReturn", "NoCoreStranded"):
        r = C.run_tlc("HmsCores", cfg(variant="orig", invs=inv), timeout=600)
        if r.ok:
            raise C.Machinery("HmsCores: %s is not refuted for the original protocol (vacuous property?)" % inv)
        refuted.append(inv)
    rep.notes["orig_protocol_refuted"] = refuted


def trace_lines(events):
    out = []
    for e in events:
        if e["e"] in KEEP:
            d = {"e": e["e"], "c": e.get("c", -1)}
            if "a" in e:
                d["a"] = e["a"]
            if "held" in e:
                d["held"] = e["held"]
            out.append(d)
    out.append({"e": "Reset"})
    return out


def validate_all(traces, owners, rep, feat, max_rejections=4):
    """validate every trace; a rejected one is reported and the rest re-validated (at most max_rejections times)"""
    todo = list(range(len(traces)))
    rej = 0
    while todo:
        ok, idx, detail = validate([traces[i] for i in todo], rep)
        if ok:
            return
        bad = todo[idx]
        rep.fail(dict(feat, kind="trace-rejected", invariant=detail["invariant"], next_event=(detail["next_line"] or {}).get("e")),
                 {"owner": owners[bad], "detail": detail})
        rej += 1
        todo = todo[idx + 1:]
        if rej >= max_rejections:
            rep.notes["traces_not_validated_after_rejections"] = len(todo)
            return


def validate(traces, rep, max_cores=14):
    """B: TraceCores over the concatenation of the traces.  -> (ok, index of the first rejected trace or None, detail)"""
    lines = []
    starts = []
    for t in traces:
        starts.append(len(lines))
        lines += trace_lines(t)
    text = "\n".join(json.dumps(x) for x in lines) + "\n"
    # room for every core of the longest execution (core numbers start at 0; join events name cores as well)
    max_cores = max([max_cores] + [x.get("c", 0) + 2 for x in lines if x["e"] not in ("WaitRLock", "WatchRLock")])
    cfgt = ("SPECIFICATION TraceSpec\nCONSTANTS\n Variant = \"fixed\"\n MaxCores = %d\n MaxSpawns = 100\n MaxFatal = 100\n"
            " MaxCalls = 100\n AllowCancel = TRUE\n InitWork = 0\n RecordHist = FALSE\n StrictCancel = FALSE\n"
            " MaxJoins = 100000\n JoinParentOnly = FALSE\n Watch = \"fixed\"\n"
            "INVARIANTS LockDiscipline WaitOnlyAfterAllDone FatalReported ReportedIsReal LocksReleasedOnReturn "
            "ListEmptyOnReturn JoinSound NoJoinerLeft WatchSound Progress\nPOSTCONDITION TraceAccepted\nCHECK_DEADLOCK FALSE\n" % max_cores)
    r = C.run_tlc("TraceCores", cfgt, files=[("cores_trace.ndjson", text)], workers=1, timeout=1200, heap="8g",
                  tags=("PROGRESS",))
    rep.add_tlc(r)
    if r.ok:
        rep.cov["traces_validated_against_impl"] += len(traces)
        return True, None, None
    # how far did it get?
    import re
    m = re.search(r"The depth of the complete state graph search is (\d+)", r.stdout)
    depth = int(m.group(1)) if m else 0
    line_no = max(0, depth - 1)          # number of lines consumed
    idx = 0
    for i, s in enumerate(starts):
        if s <= line_no:
            idx = i
    inv = re.search(r"Invariant (\w+) is violated", r.stdout)
    detail = {"consumed_lines": line_no, "trace_index": idx, "next_line": lines[line_no] if line_no < len(lines) else None,
              "context": lines[max(starts[idx], line_no - 8):line_no + 1], "invariant": inv.group(1) if inv else None,
              "tlc": r.stdout[-1500:]}
    rep.cov["traces_validated_against_impl"] += idx
    return False, idx, detail


# ---------------------------------------------------------------------------------------------
# A: schedules chosen by TLC (random walks of HmsCores) replayed on the real VM, hooks as gates

def export_schedules(rep, n, seed, cores=4, spawns=3, cancel=False, joins=0):
    r = C.run_tlc("HmsCores", cfg(cores=cores, spawns=spawns, fatal=1, calls=1, cancel=cancel, work=1,
                                  invs="ExportSched LockDiscipline", hist=True, strict=True, joins=joins),
                  workers=4, timeout=600, tags=("SCHED",), simulate="num=%d" % max(1, n // 4),
                  extra_args=["-depth", "200", "-seed", str(seed)])
    C.tlc_must_pass(r, "HmsCores schedule export")
    seen = set()
    out = []
    for s in r.tagged["SCHED"]:
        key = json.dumps(s["hist"])
        if key not in seen:
            seen.add(key)
            out.append(s)
    return out


def program_for(s):
    """derive a program whose cores behave as in the schedule: who spawns and joins whom in which order, how each core ends"""
    hist = s["hist"]
    acts = {}              # core -> its spawns and joins, in order
    parent = {}
    nxt = 1
    for p, a in hist:
        if a == "SpawnAppend":
            acts.setdefault(p, []).append(("spawn", nxt))
            parent[nxt] = p
            nxt += 1
        elif a == "JoinBegin":                       # p is the thread which is joined, by the core that spawned it
            acts.setdefault(parent[p], []).append(("join", p))
    ncores = nxt - 1
    res = s["res"]
    src = []
    for c in range(1, ncores + 1):
        body = ["    println(\"start %d\");" % c]
        for what, ch in acts.get(c, []):
            if what == "spawn":
                body.append("    let h%d = spawn f%d();" % (ch, ch))
            else:
                body.append("    h%d.join();" % ch)
        kind = res[c - 1]
        if kind == "fatal":
            body.append("    throw(\"f%d failed\");" % c)
        elif kind == "term":
            body.append("    loop { }")
        else:
            body.append("    println(\"end %d\");" % c)
        src.append("fn f%d() {\n%s\n}" % (c, "\n".join(body)))
    src.append("fn main() { }")
    return "\n".join(src) + "\n", ncores


def replay_schedules(scheds, rep, pool):
    """-> list of (schedule, program, response)"""
    reqs = []
    metas = []
    for s in scheds:
        src, n = program_for(s)
        steps = [{"p": p, "a": a} for p, a in s["hist"]]
        reqs.append({"op": "run", "id": len(reqs), "a": {"modules": {"main": src}, "entry": "main", "backend": "vm",
                                                        "trace": True, "sched": steps, "sched_offset": 0,
                                                        "invoke": [{"fn": "f1", "args": []}], "timeout_ms": 20000}})
        metas.append((s, src))
    res = pool.map(reqs, timeout=40)
    return [(s, src, r) for (s, src), r in zip(metas, res)]
