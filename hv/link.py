"""Module graphs of HmsLink rendered as real modules, and the comparison of what the real tools say."""
import json
import re

from . import common as C

XV = {"main": 10, "b": 20, "c": 30}


def cfg(sl, n):
    return ("SPECIFICATION Spec\nCONSTANTS\n Slice = %d\n Slices = %d\n"
            "INVARIANTS OnlyPubImportable InitExactlyOnceBeforeMain OrderIndependent ResolvesToDefiningModule Export\n"
            "CHECK_DEADLOCK FALSE\n" % (sl, n))


def visible(g, m, name):
    """does module m see `name` (own definition or import)?  (only meaningful for accepted graphs)"""
    if name == "f" and g["f"][m] != "none":
        return True
    return any(it[0] == name for it in imports(g, m))


def imports(g, m):
    imp = [tuple(x) for x in g["imp"][m]]
    if m == "main":
        if g.get("mainb", True):
            imp.append(("pb", "b"))
        if g["hasc"]:
            imp.append(("pc", "c"))
    return imp


FILE = {0: {"main": "main", "b": "b", "c": "c"}, 1: {"main": "main", "b": "lib", "c": "lib_x"}}
_STR = re.compile(r'("(?:[^"\\]|\\.)*")')


def fname(m, naming):
    return FILE[naming].get(m, m)


def _rename(text, table):
    parts = _STR.split(text)
    for i in range(0, len(parts), 2):
        parts[i] = re.sub(r"\b[A-Za-z_][A-Za-z_0-9]*\b", lambda mo: table.get(mo.group(0), mo.group(0)), parts[i])
    return "".join(parts)


def render(g, order=0, naming=0):
    """-> ({file: text}, {(module, item, from): line number of the import statement});
    order: 0 = as listed, 1 = reversed, n >= 2 = rotated by n - 1 (the order in which the analyzer visits the modules);
    naming: which identifiers stand for the specification's module and item names - 0: b, c, h, hist; 1: modules lib and
    lib_x, whose private h / hist are called x_h / x_hist in lib and h / hist in lib_x (names are arbitrary identifiers:
    what a tool glues together from them must still tell the modules apart)"""
    mods, lines = _render(g, order)
    if naming == 0:
        return mods, lines
    out = {}
    for m, text in mods.items():
        table = {"b": "lib", "c": "lib_x"}
        if m == "b":
            table.update({"h": "x_h", "hist": "x_hist"})
        out[fname(m, naming)] = _rename(text, table)
    return out, lines


def _render(g, order=0):
    mods, lines = {}, {}
    for m in ("main", "b", "c"):
        if m == "c" and not g["hasc"]:
            continue
        out = []
        imps = imports(g, m)
        if order == 1:
            imps = imps[::-1]
        elif order >= 2 and imps:
            k = (order - 1) % len(imps)
            imps = imps[k:] + imps[:k]
        for it in imps:
            out.append("import %s%s from %s;" % ("type " if it[0] == "T" else "", it[0], it[1]))
            lines[(m, it[0], it[1])] = len(out)
        host = (g.get("host") or {}).get(m, "none")
        if host != "none":
            out.append("import tag from %s;" % host)
        imports_x = any(it[0] == "x" for it in imports(g, m))
        bare = m == "c" and g.get("cbare")
        if m == "main":
            if not imports_x:
                out.append("let x = 10;")
        elif not bare:
            out.append("%slet x = %d;" % ("pub " if g["x"][m] == "pub" else "", XV[m]))
        if m == "c" and not bare and g.get("y", "none") != "none":
            out.append("%slet y = 77;" % ("pub " if g["y"] == "pub" else ""))
        if g.get("tval") and m in ("main", "b"):
            out.append("let T = %d;" % (11 if m == "main" else 55))
        if m == "b" and g["t"] != "none":
            out.append("%stype T = int;" % ("pub " if g["t"] == "pub" else ""))
        if not bare:
            out.append("let hist = [0];")
        out.append("fn h() { println(\"%s.h\"); }" % m)
        if g["f"][m] != "none":
            out.append("%sfn f() { hist.push(1); println(\"%s.f\", x, hist.len()); h(); }" % ("pub " if g["f"][m] == "pub" else "", m))
        sees_f = visible(g, m, "f")
        other = ""
        if m == "b" and visible(g, m, "pc"):
            other = "pc(); "
        if m == "c" and visible(g, m, "pb"):
            other = "pb(); "
        if bare:
            out.append("pub fn pc() { println(\"c.p bare\"); %s%s%sh(); }" % ("println(\"c.tag\", tag()); " if host != "none" else "", "f(); " if sees_f else "", other))
            out.append("pub fn main() { println(\"c.main\"); }")
        elif m in ("b", "c"):
            sees_y = "println(\"b.y\", y); " if m == "b" and any(it[0] == "y" for it in imports(g, m)) else ""
            if host != "none":
                sees_y += "println(\"%s.tag\", tag()); " % m
            if m == "b" and g.get("tval"):
                sees_y += "println(\"b.T\", T); "
            out.append("pub fn p%s() { x += 1; println(\"%s.p\", x, hist.len()); %s%s%sh(); }" % (m, m, sees_y, "f(); " if sees_f else "", other))
            # a library's own main (pub when its x is pub) is never run: only the entry module's main is
            out.append("%sfn main() { println(\"%s.main\"); }" % ("pub " if g["x"][m] == "pub" else "", m))
        else:
            body = []
            if sees_f:
                body.append("f();")
            if g.get("mainb", True):
                body.append("pb();")
            if g["hasc"]:
                body.append("pc();")
            body.append("h();")
            body.append("println(\"main.x\", x);")
            if any(it[0] == "y" for it in imports(g, m)):
                body.append("println(\"main.y\", y);")
            if host != "none":
                body.append("println(\"main.tag\", tag());")
            if g.get("tval"):
                body.append("println(\"main.T\", T);")
            if sees_f:
                body.append("f();")
            if any(it[0] == "T" for it in imports(g, m)):
                body.append("let t: T = 5; println(\"main.t\", t);")
            out.append("fn main() { " + " ".join(body) + " }")
        mods[m] = "\n".join(out) + "\n"
    return mods, lines


def expected_text(out):
    ls = []
    for l in out:
        if l[1] == "pbare":
            ls.append("c.p bare")
        elif l[1] == "h":
            ls.append("%s.h" % l[0])
        elif l[1] == "T":
            ls.append("%s.T %d" % (l[0], l[2]))
        elif l[1] == "tag":
            ls.append("%s.tag %s" % (l[0], l[2]))
        elif l[1] == "y":
            ls.append("%s.y %d" % (l[0], l[2]))
        elif l[1] in ("x", "t"):
            ls.append("main.%s %d" % (l[1], l[2]))
        else:
            ls.append("%s.%s %d %d" % (l[0], l[1], l[2], l[3]))
    return "\n".join(ls) + "\n"


def overlap(g):
    """names defined in more than one module (f; x and h and hist always are)"""
    return sum(1 for m in ("main", "b", "c") if g["f"][m] != "none" and (m != "c" or g["hasc"])) >= 2
