"""The semantic pipeline shared by C01 / C04 / C11 (and later C02, C09, C19, C20).

  programs (spec AST)  --HmsSem (TLC)-->  expected observation (out, status)
                       --render-->        source text  --worker-->  real observation per backend
  compare real with expected; every backend run is isolated in a worker process.
"""
import json
import random
import re

from . import common as C
from . import progs as P
from .progs import *  # noqa: F401,F403  (builders)

FATAL_NAMES = {"StackOverflow": "StackOverFlow", "ValueError": "ValueError", "IndexOutOfBounds": "IndexOutOfBounds",
               "OutOfMemory": "OutOfMemoryError", "CastError": "CastError"}


def run_spec(programs, rep, call_limit=40, fuel=20000, timeout=1800):
    """HmsSem on every program -> {id: case}"""
    text = "\n".join(P.spec_json(p) for p in programs) + "\n"
    cfg = ("SPECIFICATION Spec\nCONSTANTS\n CallLimit = %d\n Fuel = %d\n"
           "INVARIANTS KontWellFormed CleanExit ExitsAreLexical FatalNotCaught Terminates Export\n"
           "PROPERTY OutputMonotone\nCHECK_DEADLOCK FALSE\n" % (call_limit, fuel))
    r = C.run_tlc("HmsSem", cfg, files=[("programs.ndjson", text)], timeout=timeout, heap="24g")
    C.tlc_must_pass(r, "HmsSem")
    rep.add_tlc(r)
    out = {c["id"]: c for c in r.cases}
    missing = [p["id"] for p in programs if p["id"] not in out]
    if missing:
        raise C.Machinery("HmsSem produced no terminal state for %d programs, e.g. %s" % (len(missing), missing[:3]))
    return out


def first_lines(msg):
    return msg.split("\n=====")[0]


def compare(prog, case, real, spans, backend):
    """-> None if the real observation is allowed by the specification, else (kind, detail)"""
    if "crash" in real:
        return "hostcrash", {"stderr": real["crash"]["stderr"][:2600], "rc": real["crash"]["rc"]}
    if "hang" in real:
        return "hang", {}
    r = real["r"]
    if not r["accepted"]:
        return "rejected-by-analyzer", {"diags": [d for d in r["diags"] if d["level"] == "Error"][:5], "syntax": r["syntax"][:5]}
    oc = r.get("outcome") or {"kind": "none"}
    pattern, groups = P.expected_pattern(case["out"])
    exp_plain = P.plain_text(case["out"])
    got = r["out"]
    # text
    if exp_plain is not None:
        if got != exp_plain:
            return "output", {"expected": exp_plain, "got": got}
    else:
        m = re.fullmatch(pattern, got, re.S)
        if not m:
            return "output", {"expected_pattern": pattern, "got": got}
        for g, p, what in groups:
            sp = spans.get(p)
            if sp is None:
                continue
            val = m.group(g)
            if what == "line" and not (sp["s"][0] <= int(val) <= sp["e"][0]):
                return "caught-position", {"what": what, "got": val, "span": sp}
            if what == "column" and sp["s"][0] == sp["e"][0] and not (sp["s"][1] <= int(val) <= sp["e"][1]):
                return "caught-position", {"what": what, "got": val, "span": sp}
            if what == "filename" and val != "main":
                return "caught-position", {"what": what, "got": val}
    # triggers registered with the host, in order, with their arguments
    want_tr = P.expected_triggers(case["out"])
    if want_tr or r.get("triggers"):
        got_tr = [(t["cb"], t["ev"], t["args"]) for t in r.get("triggers", [])]
        if got_tr != want_tr:
            return "triggers", {"expected": want_tr, "got": got_tr}
    # outcome
    st = case["status"]
    if st == "done":
        if oc["kind"] != "done":
            return "outcome", {"expected": "done", "got": oc}
    elif st == "uncaught":
        msg = "".join(x if isinstance(x, str) else "?" for x in P.show(case["info"]["msg"]))
        if oc["kind"] != "uncaught" or first_lines(oc["msg"]) != msg:
            return "outcome", {"expected": {"uncaught": msg}, "got": oc}
    elif st == "fatal":
        want = FATAL_NAMES.get(case["info"]["kind"], case["info"]["kind"])
        if oc["kind"] != "fatal" or oc.get("fatal") != want:
            return "outcome", {"expected": {"fatal": want}, "got": oc}
    if backend == "vm" and r.get("goroutines", 0) > 0:
        return "goroutine-leak", {"goroutines": r["goroutines"]}
    return None


def run_programs(programs, rep, backends=("vm",), limits=None, pool=None, family_of=None, spec_opts=None,
                 prop_filter=None, vm_trace=None, reps=1):
    """vm_trace: predicate on a program; its VM run is recorded instruction by instruction and validated against HmsVM"""
    """Full pipeline.  Returns list of (prog, backend, verdict) for callers that need more."""
    cases = run_spec(programs, rep, **(spec_opts or {}))
    usable = []
    oom = 0
    for p in programs:
        c = cases[p["id"]]
        if c["status"] == "oom":
            oom += 1
            continue
        if c["status"] == "run":
            raise C.Machinery("program %s ran out of fuel in the specification" % p["id"])
        usable.append(p)
    rep.notes["out_of_model_programs"] = rep.notes.get("out_of_model_programs", 0) + oom
    rendered = {}
    reqs = []
    meta = []
    for p in usable:
        src, spans = P.render(p)
        rendered[p["id"]] = (src, spans)
        for b in backends:
            if b == "tree" and p["feats"].get("vm_only"):
                continue
            a = {"modules": {"main": src}, "entry": "main", "backend": b, "timeout_ms": 8000}
            if p.get("host"):
                a["singletons"] = p["host"]
            if b == "vm" and vm_trace and vm_trace(p):
                a["trace"] = True
                a["trace_instr"] = True
            if limits:
                a["limits"] = limits
            reqs.append({"op": "run", "id": len(reqs), "a": a})
            meta.append((p, b))
            # repetitions of the same sources (C14): other GOMAXPROCS, seeded yields in the hooks, other process histories
            for k in range(1, reps):
                ak = dict(a, procs=(1, 4, 16)[k % 3])
                if b == "vm" and k % 3 == 2 and not ak.get("trace"):
                    ak["trace"] = True
                    ak["jitter"] = C.seed() * 1000 + k
                reqs.append({"op": "run", "id": len(reqs), "a": ak})
                meta.append((p, b))
    pool = pool or C.Pool(C.build_worker())
    res = pool.map(reqs, timeout=25)
    results = []
    firsts = {}
    for (p, b), r in zip(meta, res):
        rep.count()
        src, spans = rendered[p["id"]]
        c = cases[p["id"]]
        rep.nontrivial(src)
        v = compare(p, c, r, spans, b)
        if reps > 1 and v is None and "r" in r:
            o = r["r"]
            obs = {"out": o.get("out"), "outcome": o.get("outcome"), "triggers": o.get("triggers"),
                   "diags": sorted(json.dumps(d, sort_keys=True) for d in o.get("diags", []))}
            f = firsts.setdefault((p["id"], b), obs)
            if f != obs:
                v = ("repetition-differs", {"first": f, "now": obs})
        results.append((p, b, v, r))
        if v is not None:
            kind, detail = v
            feat = dict(p.get("feats", {}), backend=b, kind=kind, family=p["feats"].get("family", "?"), id=p["id"])
            if kind in ("outcome",):
                feat["expected_outcome"] = json.dumps(detail["expected"], sort_keys=True)[:80]
                feat["got_outcome"] = (detail["got"].get("kind", "?") + ":" + str(detail["got"].get("fatal", "")))
            if kind == "hostcrash":
                feat["panic"] = panic_class(detail["stderr"])
            rep.fail(feat, {"program": src, "expected": {"status": c["status"], "info": c["info"]},
                            "detail": detail, "backend": b})
    if vm_trace:
        from . import vmtrace
        traces, owners = [], []
        for p, b, v, r in results:
            if b == "vm" and "r" in r and r["r"].get("trace"):
                traces.append(r["r"]["trace"])
                owners.append({"id": p["id"], "program": rendered[p["id"]][0]})
        if traces:
            vmtrace.validate_all(traces, owners, rep, {"family": "vm-trace"})
    return results, cases, rendered


def panic_class(stderr):
    m = re.search(r"panic: (.*)", stderr)
    if not m:
        return "no-panic-line"
    t = m.group(1)
    t = re.sub(r"\[recovered\].*", "", t)
    t = re.sub(r"0x[0-9a-f]+", "0x", t)
    t = re.sub(r"\d+", "N", t)
    return t[:90]
