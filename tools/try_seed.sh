#!/bin/sh
# tools/try_seed.sh <property> <patch.diff> [tier]: run a check against a scratch copy of /repo with a seeded change applied.
# /repo itself and /verif/.build are not touched, so this can run beside other checks.
P=$1; D=$2; T=${3:-quick}
W=/tmp/seedrepo-$$; B=/tmp/seedbuild-$$
git -C /repo worktree add -q --detach $W HEAD || exit 2
# (a seed written against an older tree: three-way merge on the blobs it names; a conflict means the code it changed is gone)
( cd $W && { git apply "$D" 2>/dev/null || { git reset -q --hard && git apply -3 "$D" >/dev/null 2>&1 && git reset -q; }; } ) || { echo "exit=stale (patch does not apply to the current tree)"; git -C /repo worktree remove --force $W; exit 3; }
( cd $W && GOFLAGS=-mod=mod GOPROXY=off GOSUMDB=off GOTOOLCHAIN=local go build ./... >/dev/null 2>&1 ) || { echo "exit=stale (the patched tree does not compile any more)"; git -C /repo worktree remove --force $W; exit 3; }
cd /verif && VERIF_REPO=$W VERIF_BUILD=$B VERIF_OUT=/tmp/seedout VERIF_TIER=$T ./check $P > /tmp/try_seed_$P.log 2>&1; rc=$?
git -C /repo worktree remove --force $W; rm -rf $B
echo "exit=$rc"; grep -c VIOLATION /tmp/try_seed_$P.log; grep -A1 VIOLATION /tmp/try_seed_$P.log | grep "like cases" | cut -c1-260 | head -8; tail -1 /tmp/try_seed_$P.log
