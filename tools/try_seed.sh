#!/bin/sh
# tools/try_seed.sh <property> <patch.diff> [tier]: apply a seeded change to /repo, run the check, undo it.
P=$1; D=$2; T=${3:-quick}
cd /repo || exit 2
git diff --quiet || { echo "/repo has local changes"; exit 2; }
git apply "$D" || { echo "patch does not apply"; exit 2; }
cd /verif && VERIF_TIER=$T ./check $P > /tmp/try_seed_$P.log 2>&1; rc=$?
cd /repo && git checkout -- . 
echo "exit=$rc"; grep -c VIOLATION /tmp/try_seed_$P.log; grep -A1 VIOLATION /tmp/try_seed_$P.log | grep "like cases" | cut -c1-260 | head -8; tail -1 /tmp/try_seed_$P.log
