#!/usr/bin/env python3
"""ad-hoc: run a program (files given as name=path or a single path for module main) on both backends and print what happens
usage: python3 tools/runhms.py [--reps N] main.hms [b=b.hms ...]"""
import json
import os
import sys

sys.path.insert(0, os.path.join(os.path.dirname(os.path.abspath(__file__)), ".."))
from hv import common as C  # noqa


def main():
    args = sys.argv[1:]
    reps = 1
    if args and args[0] == "--reps":
        reps = int(args[1])
        args = args[2:]
    mods = {}
    for a in args:
        if "=" in a:
            n, p = a.split("=", 1)
        else:
            n, p = "main", a
        mods[n] = open(p).read()
    pool = C.Pool(C.build_worker(), n=2)
    reqs = []
    for b in ("vm", "tree"):
        for k in range(reps):
            reqs.append({"op": "run", "id": len(reqs), "a": {"modules": mods, "entry": "main", "backend": b, "timeout_ms": 8000}})
    res = pool.map(reqs, timeout=30)
    seen = set()
    for q, r in zip(reqs, res):
        if "r" in r:
            a = r["r"]
            s = json.dumps({"accepted": a.get("accepted"), "diags": [(d["level"], d["msg"], d.get("file"), d["span"]["s"][0]) for d in a.get("diags", []) if d["level"] == "Error"],
                            "syntax": a.get("syntax"), "out": a.get("out"), "outcome": a.get("outcome")}, indent=1)
        else:
            s = json.dumps(r)[:3000]
        key = (q["a"]["backend"], s)
        if key in seen:
            continue
        seen.add(key)
        print("==", q["a"]["backend"])
        print(s)


main()
