#!/bin/sh
# tools/selftest_seeds.sh: every kept seeded change against the check of its property (scratch copies of /repo)
cd /verif
for d in seeded/*/; do
  n=$(basename $d); p=${n%%-*}
  case $n in neutral-*) p=$(python3 -c "import json;print(json.load(open('$d/meta.json'))['property'])");; esac   # controls: exit=0 expected
  r=$(tools/try_seed.sh $p /verif/$d/patch.diff 2>&1 | head -1)
  echo "$n $r"
done
