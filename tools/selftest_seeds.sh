#!/bin/sh
# tools/selftest_seeds.sh [streams]: every kept seeded change against the check of its property (scratch copies of /repo).
# The seeds of one property run one after the other (they share a log and an output directory), properties in parallel streams.
# A line "<seed> exit=1" means: reported; neutral-* are controls and must give exit=0.
cd /verif
N=${1:-4}
one() {
  d=$1; n=$(basename $d); p=${n%%-*}
  case $n in neutral-*) p=$(python3 -c "import json;print(json.load(open('$d/meta.json'))['property'])");; esac
  r=$(tools/try_seed.sh $p /verif/$d/patch.diff 2>&1 | head -1)
  echo "$n $r"
}
props=$(ls seeded | sed 's/-.*//' | sort -u | grep -v neutral)
i=0
for p in $props; do
  i=$((i+1))
  ( for d in seeded/$p-*; do one $d; done; if [ "$p" = "C17" ]; then for d in seeded/neutral-*; do one $d; done; fi ) > /tmp/selftest_$p.out 2>&1 &
  if [ $((i % N)) -eq 0 ]; then wait; fi
done
wait
cat /tmp/selftest_C*.out
