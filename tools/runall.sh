#!/bin/sh
# tools/runall.sh [tier]: every claimed check in sequence; one line per check
T=${1:-quick}
cd /verif
for p in C01 C02 C03 C04 C05 C06 C07 C08 C09 C10 C11 C12 C13 C14 C15 C16 C17 C18 C19 C20; do
  s=$(date +%s)
  VERIF_TIER=$T ./check $p > /tmp/runall_$p.log 2>&1; rc=$?
  e=$(date +%s)
  echo "$p rc=$rc $((e-s))s $(tail -1 /tmp/runall_$p.log | cut -c1-150)"
done
