#!/usr/bin/env python3
"""print the replays of a property compactly: features, errors, and the printed line an error points at"""
import glob, json, sys
prop = sys.argv[1]
maxn = int(sys.argv[2]) if len(sys.argv) > 2 else 99
for f in sorted(glob.glob('/verif/replays/%s-*.json' % prop))[:maxn]:
    e = json.load(open(f))
    d = e['detail']
    print('##', json.dumps(e['features']), e.get('like_cases'))
    errs = d.get('errors') or []
    printed = d.get('printed') or d.get('first') or ''
    for er in errs[:3]:
        print('   ERR', er)
        try:
            ln = int(er.replace('syntax ', '').split(':')[0])
            lines = printed.split('\n')
            print('   >>>', lines[ln - 1][:200])
        except Exception:
            pass
    if 'second' in d:
        a, b = d['first'].split('\n'), d['second'].split('\n')
        for i, (x, y) in enumerate(zip(a, b)):
            if x != y:
                print('   1st:', x[:160]); print('   2nd:', y[:160]); break
    if 'original' in d:
        print('   orig:', str(d['original'])[:300]); print('   this:', str(d['this'])[:300])
