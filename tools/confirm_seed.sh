#!/bin/sh
# tools/confirm_seed.sh <id> [check ...]: re-run an agent's seeded change in its worktree /tmp/wt-<id> (demo fails with the change,
# the suite passes with it, the demo passes without it), then run the named checks (default: <id>) against it via try_seed.sh
ID=$1; shift
CHECKS=${*:-$ID}
export GOFLAGS=-mod=mod GOPROXY=off GOSUMDB=off GOTOOLCHAIN=local
cd /tmp/wt-$ID || exit 2
DEMO=$(git status --short | grep demo_test.go | awk '{print $2}' | head -1)
[ -z "$DEMO" ] && { echo "no demo in worktree"; exit 2; }
PKG=$(dirname $DEMO)
go build ./... || { echo "BUILD FAILS"; exit 2; }
echo "-- demo with the change:"; go test -vet=off -count=1 ./$PKG/ 2>&1 | grep -E "^--- FAIL|^ok|^FAIL|^panic" | head -5
mv $DEMO /tmp/demo_$ID.go
echo "-- suite with the change:"; go test -vet=off -count=1 ./... 2>&1 | grep -v "no test files"
git diff > /tmp/change_$ID.diff          # (no git stash: the stash is shared by all worktrees of a repository)
git apply -R /tmp/change_$ID.diff
cp /tmp/demo_$ID.go $DEMO
echo "-- demo without the change:"; go test -vet=off -count=1 ./$PKG/ 2>&1 | tail -1
rm -f $DEMO; git apply /tmp/change_$ID.diff; cp /tmp/demo_$ID.go $DEMO

cd /verif
for c in $CHECKS; do echo "-- check $c:"; tools/try_seed.sh $c /tmp/seed-$ID/patch.diff; done
