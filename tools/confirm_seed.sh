#!/bin/sh
# tools/confirm_seed.sh <id> [check ...]: re-run an agent's seeded change in its worktree /tmp/wt-<id> (expects patch.diff and
# seeded_demo/ there): the demo fails with the change, the suite passes with it, the demo passes without it; then run the
# named checks (default: <id>) against the change via try_seed.sh (scratch worktree of /repo's HEAD, /repo untouched)
ID=$1; shift
CHECKS=${*:-$ID}
export GOFLAGS=-mod=mod GOPROXY=off GOSUMDB=off GOTOOLCHAIN=local
cd /tmp/wt-$ID || exit 2
[ -f patch.diff ] && [ -d seeded_demo ] || { echo "no patch.diff / seeded_demo in worktree"; exit 2; }
git checkout -q -- homescript; git apply patch.diff || { echo "PATCH DOES NOT APPLY"; exit 2; }
go build ./... || { echo "BUILD FAILS"; exit 2; }
echo "-- demo with the change:"; go test -vet=off -count=1 ./seeded_demo/ 2>&1 | grep -E "^--- FAIL|^ok|^FAIL|^panic" | head -5
echo "-- suite with the change:"; go test -vet=off -count=1 $(go list ./... | grep -v seeded_demo) 2>&1 | grep -v "no test files"
git apply -R patch.diff
echo "-- demo without the change:"; go test -vet=off -count=1 ./seeded_demo/ 2>&1 | tail -1
git apply patch.diff
cd /verif
for c in $CHECKS; do echo "-- check $c:"; tools/try_seed.sh $c /tmp/wt-$ID/patch.diff; done
