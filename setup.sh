#!/bin/sh
# Offline setup: builds the worker once (warms the Go build cache) and checks the tools.
set -e
cd "$(dirname "$0")"
export GOFLAGS=-mod=mod GOPROXY=off GOSUMDB=off GOTOOLCHAIN=local
mkdir -p .build evidence replays
cp /repo/go.sum harness/go.sum
(cd harness && go build -tags verif -o ../.build/hvworker ./cmd/hvworker)
java -cp /opt/veriftools/tla/tla2tools.jar tlc2.TLC -h >/dev/null 2>&1 || true
echo setup ok
