package main

import (
	"encoding/json"
	"fmt"

	"github.com/smarthome-go/homescript/v3/homescript"
	"github.com/smarthome-go/homescript/v3/homescript/diagnostic"
	"github.com/smarthome-go/homescript/v3/homescript/fuzzer"
)

// transform: the semantic fuzzer's transformer (C20).  The source is analysed afresh for every seed (the
// transformer shuffles the slices of the tree it is given) and every pass is printed.
type tfReq struct {
	Src        string                     `json:"src"`
	Seeds      []int64                    `json:"seeds"`
	Passes     int                        `json:"passes"`
	Singletons map[string]json.RawMessage `json:"singletons"`
}

func init() {
	ops["transform"] = func(raw json.RawMessage) (any, error) {
		var r tfReq
		if err := json.Unmarshal(raw, &r); err != nil {
			return nil, err
		}
		out := []map[string]any{}
		for _, seed := range r.Seeds {
			st := &hostState{req: &RunReq{Entry: "main", Modules: map[string]string{"main": r.Src}, Singletons: r.Singletons}}
			mods, diags, syn := homescript.Analyze(
				homescript.InputProgram{ProgramText: r.Src, Filename: "main"},
				homescript.TestingAnalyzerScopeAdditions(), anHost{st: st}, true)
			bad := len(syn) > 0
			for _, d := range diags {
				if d.Level == diagnostic.DiagnosticLevelError {
					bad = true
				}
			}
			if bad {
				return map[string]any{"rejected": true}, nil
			}
			func() {
				defer func() {
					if p := recover(); p != nil {
						out = append(out, map[string]any{"seed": seed, "panic": fmt.Sprint(p)})
					}
				}()
				t := fuzzer.NewTransformer(seed)
				for pass, tree := range t.TransformPasses(mods["main"], r.Passes) {
					out = append(out, map[string]any{"seed": seed, "pass": pass + 1, "text": tree.String()})
				}
			}()
		}
		return map[string]any{"variants": out}, nil
	}
}
