package main

import (
	"reflect"

	"github.com/smarthome-go/homescript/v3/homescript/analyzer/ast"
)

// typeJSON renders an analyzer type in the structure HmsTypes uses.
func typeJSON(t ast.Type) map[string]any {
	if t == nil {
		return map[string]any{"k": "nil"}
	}
	switch v := t.(type) {
	case ast.ListType:
		return map[string]any{"k": "list", "t": typeJSON(v.Inner)}
	case ast.OptionType:
		return map[string]any{"k": "opt", "t": typeJSON(v.Inner)}
	case ast.ObjectType:
		fs := []any{}
		for _, f := range v.ObjFields {
			fs = append(fs, map[string]any{"n": f.FieldName.Ident(), "t": typeJSON(f.Type)})
		}
		return map[string]any{"k": "obj", "fs": fs}
	case ast.FunctionType:
		switch p := v.Params.(type) {
		case ast.NormalFunctionTypeParamKindIdentifier:
			ps := []any{}
			for _, q := range p.Params {
				ps = append(ps, map[string]any{"n": q.Name.Ident(), "t": typeJSON(q.Type)})
			}
			return map[string]any{"k": "fn", "ps": ps, "r": typeJSON(v.ReturnType)}
		default:
			return map[string]any{"k": "fn", "va": true, "r": typeJSON(v.ReturnType)}
		}
	}
	switch t.Kind() {
	case ast.IntTypeKind:
		return map[string]any{"k": "int"}
	case ast.FloatTypeKind:
		return map[string]any{"k": "float"}
	case ast.BoolTypeKind:
		return map[string]any{"k": "bool"}
	case ast.StringTypeKind:
		return map[string]any{"k": "str"}
	case ast.NullTypeKind:
		return map[string]any{"k": "null"}
	case ast.RangeTypeKind:
		return map[string]any{"k": "range"}
	case ast.AnyTypeKind:
		return map[string]any{"k": "any"}
	case ast.AnyObjectTypeKind:
		return map[string]any{"k": "anyobj"}
	case ast.NeverTypeKind:
		return map[string]any{"k": "never"}
	case ast.UnknownTypeKind:
		return map[string]any{"k": "unknown"}
	}
	return map[string]any{"k": "other:" + t.Kind().String()}
}

// letTypes walks an analyzed module and reports the recorded type of every let statement
// (the variable's type), keyed by the position of the `let` keyword.
func letTypes(mod ast.AnalyzedProgram) []map[string]any {
	out := []map[string]any{}
	seen := map[[2]int]bool{}
	var walk func(v reflect.Value, depth int)
	walk = func(v reflect.Value, depth int) {
		if depth > 400 || !v.IsValid() {
			return
		}
		switch v.Kind() {
		case reflect.Interface, reflect.Ptr:
			if v.IsNil() {
				return
			}
			walk(v.Elem(), depth+1)
		case reflect.Slice, reflect.Array:
			for i := 0; i < v.Len(); i++ {
				walk(v.Index(i), depth+1)
			}
		case reflect.Struct:
			if v.CanInterface() {
				if l, ok := v.Interface().(ast.AnalyzedLetStatement); ok {
					key := [2]int{int(l.Range.Start.Line), int(l.Range.Start.Column)}
					if !seen[key] { // (a default match arm is analysed twice)
						seen[key] = true
						out = append(out, map[string]any{"x": l.Ident.Ident(), "line": key[0], "col": key[1], "t": typeJSON(l.VarType)})
					}
				}
				if _, isType := v.Interface().(ast.Type); isType {
					return
				}
			}
			for i := 0; i < v.NumField(); i++ {
				if v.Type().Field(i).IsExported() {
					walk(v.Field(i), depth+1)
				}
			}
		}
	}
	walk(reflect.ValueOf(mod), 0)
	return out
}
