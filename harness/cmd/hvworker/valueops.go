package main

import (
	"encoding/json"
	"fmt"

	herrors "github.com/smarthome-go/homescript/v3/homescript/errors"
	treeValue "github.com/smarthome-go/homescript/v3/homescript/interpreter/value"
	vmValue "github.com/smarthome-go/homescript/v3/homescript/runtime/value"
)

type PathElem []any // ["i", n] | ["f", name] | ["o", 0]

type MutStep struct {
	Side string     `json:"side"`
	Op   string     `json:"op"`
	P    []PathElem `json:"p"`
}

func guard(out map[string]any, key string, f func() any) {
	defer func() {
		if r := recover(); r != nil {
			out[key] = map[string]any{"panic": fmt.Sprint(r)}
		}
	}()
	out[key] = f()
}

func vmCell(root *vmValue.Value, p []PathElem) (*vmValue.Value, error) {
	cur := root
	for _, e := range p {
		switch e[0].(string) {
		case "i":
			idx := *vmValue.NewValueInt(int64(e[1].(float64)))
			nxt, i := vmValue.IndexValue(cur, &idx, func() herrors.Span { return herrors.Span{} })
			if i != nil {
				return nil, fmt.Errorf("index: %s", (*i).Message())
			}
			cur = nxt
		case "f":
			var fields map[string]*vmValue.Value
			switch o := (*cur).(type) {
			case vmValue.ValueObject:
				fields = o.FieldsInternal
			case vmValue.ValueAnyObject:
				fields = o.FieldsInternal
			}
			nxt, ok := fields[e[1].(string)]
			if !ok {
				return nil, fmt.Errorf("no field %v", e[1])
			}
			cur = nxt
		case "o":
			cur = (*cur).(vmValue.ValueOption).Inner
		}
	}
	return cur, nil
}

func vmOther(v vmValue.Value) vmValue.Value {
	switch x := v.(type) {
	case vmValue.ValueInt:
		return *vmValue.NewValueInt(x.Inner + 40)
	case vmValue.ValueFloat:
		return *vmValue.NewValueFloat(x.Inner + 20)
	case vmValue.ValueString:
		return *vmValue.NewValueString("changed")
	case vmValue.ValueBool:
		return *vmValue.NewValueBool(!x.Inner)
	}
	return v
}

func vmApply(root *vmValue.Value, st MutStep) error {
	cell, err := vmCell(root, st.P)
	if err != nil {
		return err
	}
	switch st.Op {
	case "set":
		// what `l[i] = x` / `o.f = x` do: write through the element's cell
		*cell = vmOther(*cell)
	case "push":
		fs, i := (*cell).Fields()
		if i != nil {
			return fmt.Errorf("fields: %s", (*i).Message())
		}
		first := *(*(*cell).(vmValue.ValueList).Values)[0]
		push := (*fs["push"]).(vmValue.ValueBuiltinFunction)
		if _, i := push.Callback(nil, nil, herrors.Span{}, *first.Clone()); i != nil {
			return fmt.Errorf("push: %s", (*i).Message())
		}
	}
	return nil
}

func disp(f func() (string, any)) any {
	s, i := f()
	if i != nil {
		return map[string]any{"interrupt": fmt.Sprint(i)}
	}
	return s
}

func init() {
	ops["valueops"] = func(raw json.RawMessage) (any, error) {
		var r struct {
			What string    `json:"what"`
			A    SV        `json:"a"`
			B    SV        `json:"b"`
			T    ST        `json:"t"`
			Hist []MutStep `json:"hist"`
		}
		if err := json.Unmarshal(raw, &r); err != nil {
			return nil, err
		}
		out := map[string]any{}
		ja, jb := r.A.toJV(), r.B.toJV()
		switch r.What {
		case "eq":
			guard(out, "vm", func() any {
				a, _ := vmFromJV(ja)
				b, _ := vmFromJV(jb)
				ab, i1 := a.IsEqual(b)
				ba, i2 := b.IsEqual(a)
				aa, _ := a.IsEqual(a)
				da, _ := a.Display()
				db, _ := b.Display()
				return map[string]any{"ab": ab, "ba": ba, "aa": aa, "da": da, "db": db, "i": i1 != nil || i2 != nil}
			})
			guard(out, "tree", func() any {
				a, _ := treeFromJV(ja)
				b, _ := treeFromJV(jb)
				ab, i1 := a.IsEqual(b)
				ba, i2 := b.IsEqual(a)
				aa, _ := a.IsEqual(a)
				da, _ := a.Display()
				db, _ := b.Display()
				return map[string]any{"ab": ab, "ba": ba, "aa": aa, "da": da, "db": db, "i": i1 != nil || i2 != nil}
			})
		case "clone":
			guard(out, "vm", func() any {
				orig, err := vmFromJV(ja) // the history's start value travels in `a`'s original form: see driver
				if err != nil {
					return map[string]any{"machinery": err.Error()}
				}
				cp := orig.Clone()
				eq0, _ := orig.IsEqual(*cp)
				for _, st := range r.Hist {
					target := &orig
					if st.Side == "copy" {
						target = cp
					}
					if err := vmApply(target, st); err != nil {
						return map[string]any{"machinery": err.Error()}
					}
				}
				p1, p2 := projector{}, projector{}
				return map[string]any{"eq0": eq0, "orig": jvToSV(p1.vm(orig, 0)), "copy": jvToSV(p2.vm(*cp, 0))}
			})
		case "json":
			typ := r.T.toAst()
			guard(out, "vm", func() any {
				v, _ := vmFromJV(ja)
				fs, i := v.Fields()
				if i != nil {
					return map[string]any{"nofields": true}
				}
				tj, ok := fs["to_json"]
				if !ok {
					return map[string]any{"no_to_json": true}
				}
				sv, i := (*tj).(vmValue.ValueBuiltinFunction).Callback(nil, nil, herrors.Span{})
				if i != nil {
					return map[string]any{"to_json_interrupt": (*i).Message()}
				}
				text := (*sv).(vmValue.ValueString).Inner
				sfs, _ := (*sv).Fields()
				parsed, i := (*sfs["parse_json"]).(vmValue.ValueBuiltinFunction).Callback(nil, nil, herrors.Span{})
				if i != nil {
					return map[string]any{"json": text, "parse_interrupt": (*i).Message()}
				}
				back, cerr := vmValue.DeepCast(*parsed, typ, herrors.Span{}, false)
				if cerr != nil {
					return map[string]any{"json": text, "cast_error": cerr.Message()}
				}
				eq, _ := v.IsEqual(*back)
				p := projector{}
				return map[string]any{"json": text, "back": jvToSV(p.vm(*back, 0)), "eq": eq}
			})
			guard(out, "tree", func() any {
				v, _ := treeFromJV(ja)
				fs, i := v.Fields()
				if i != nil {
					return map[string]any{"nofields": true}
				}
				tj, ok := fs["to_json"]
				if !ok {
					return map[string]any{"no_to_json": true}
				}
				sv, i := (*tj).(treeValue.ValueBuiltinFunction).Callback(nil, nil, herrors.Span{})
				if i != nil {
					return map[string]any{"to_json_interrupt": (*i).Message()}
				}
				text := (*sv).(treeValue.ValueString).Inner
				sfs, _ := (*sv).Fields()
				parsed, i := (*sfs["parse_json"]).(treeValue.ValueBuiltinFunction).Callback(nil, nil, herrors.Span{})
				if i != nil {
					return map[string]any{"json": text, "parse_interrupt": (*i).Message()}
				}
				back, cerr := treeValue.DeepCast(*parsed, typ, herrors.Span{}, false)
				if cerr != nil {
					return map[string]any{"json": text, "cast_error": cerr.Message()}
				}
				eq, _ := v.IsEqual(*back)
				p := projector{}
				return map[string]any{"json": text, "back": jvToSV(p.tree(*back, 0)), "eq": eq}
			})
		}
		return out, nil
	}
}
