package main

import (
	"encoding/json"
	"fmt"

	"github.com/smarthome-go/homescript/v3/homescript"
	"github.com/smarthome-go/homescript/v3/homescript/diagnostic"
	"github.com/smarthome-go/homescript/v3/homescript/lexer"
	"github.com/smarthome-go/homescript/v3/homescript/parser"
)

// roundtrip: the printers as serialisation format (C19).
//
//	parsed:   text -> parse -> String() = s1 -> parse -> String() = s2           (s2 must equal s1)
//	analyzed: text -> analyze -> String() = a1 -> analyze -> String() = a2       (a2 must equal a1)
//
// together with whether each text parses / is accepted.
type rtReq struct {
	Src        string                     `json:"src"`
	Modules    map[string]string          `json:"modules"` // further modules the program imports (name -> text)
	Singletons map[string]json.RawMessage `json:"singletons"`
}

func parsePrint(src string) (string, []string) {
	lex := lexer.NewLexer(src, "main")
	p := parser.NewParser(lex, "main")
	prog, soft, hard := p.Parse()
	errs := []string{}
	for _, e := range soft {
		errs = append(errs, fmt.Sprintf("%d:%d %s", e.Span.Start.Line, e.Span.Start.Column, e.Message))
	}
	if hard != nil {
		errs = append(errs, fmt.Sprintf("%d:%d %s", hard.Span.Start.Line, hard.Span.Start.Column, hard.Message))
		return "", errs
	}
	return prog.String(), errs
}

// printAll: every module of a program printed from its parsed and from its analysed form
func printAll(all map[string]string, st *hostState) (parsed map[string]string, analyzed map[string]string, errs []string) {
	parsed, analyzed = map[string]string{}, map[string]string{}
	for name, text := range all {
		lex := lexer.NewLexer(text, name)
		p := parser.NewParser(lex, name)
		prog, soft, hard := p.Parse()
		if hard != nil || len(soft) > 0 {
			return nil, nil, []string{"module " + name + " does not parse"}
		}
		parsed[name] = prog.String()
	}
	mods, diags, syn := homescript.Analyze(
		homescript.InputProgram{ProgramText: all["main"], Filename: "main"},
		homescript.TestingAnalyzerScopeAdditions(), anHost{st: st}, true)
	for _, e := range syn {
		errs = append(errs, "syntax "+e.Message)
	}
	for _, d := range diags {
		if d.Level == diagnostic.DiagnosticLevelError {
			errs = append(errs, d.Message)
		}
	}
	if len(errs) > 0 {
		return parsed, nil, errs
	}
	for name, m := range mods {
		analyzed[name] = m.String()
	}
	return parsed, analyzed, nil
}

func analyzePrint(src string, st *hostState) (string, bool, []string) {
	mods, diags, syn := homescript.Analyze(
		homescript.InputProgram{ProgramText: src, Filename: "main"},
		homescript.TestingAnalyzerScopeAdditions(), anHost{st: st}, true)
	errs := []string{}
	for _, e := range syn {
		errs = append(errs, fmt.Sprintf("syntax %d:%d %s", e.Span.Start.Line, e.Span.Start.Column, e.Message))
	}
	for _, d := range diags {
		if d.Level == diagnostic.DiagnosticLevelError {
			errs = append(errs, fmt.Sprintf("%d:%d %s", d.Span.Start.Line, d.Span.Start.Column, d.Message))
		}
	}
	if len(errs) > 0 || mods == nil {
		return "", false, errs
	}
	m, ok := mods["main"]
	if !ok {
		return "", false, []string{"no analyzed module"}
	}
	return m.String(), true, nil
}

func init() {
	ops["roundtrip"] = func(raw json.RawMessage) (any, error) {
		var r rtReq
		if err := json.Unmarshal(raw, &r); err != nil {
			return nil, err
		}
		if len(r.Modules) > 0 {
			all := map[string]string{"main": r.Src}
			for k, v := range r.Modules {
				all[k] = v
			}
			st := &hostState{req: &RunReq{Entry: "main", Modules: all, Singletons: r.Singletons}}
			parsed, analyzed, errs := printAll(all, st)
			return map[string]any{"parsed": parsed, "analyzed": analyzed, "errs": errs}, nil
		}
		st := &hostState{req: &RunReq{Entry: "main", Modules: map[string]string{"main": r.Src}, Singletons: r.Singletons}}
		out := map[string]any{}
		s1, e1 := parsePrint(r.Src)
		out["s1"], out["s1_errs"] = s1, e1
		if len(e1) == 0 {
			s2, e2 := parsePrint(s1)
			out["s2"], out["s2_errs"] = s2, e2
		}
		a1, ok1, ae1 := analyzePrint(r.Src, st)
		out["accepted"], out["a1"], out["a1_errs"] = ok1, a1, ae1
		if ok1 {
			a2, ok2, ae2 := analyzePrint(a1, st)
			out["a1_accepted"], out["a2"], out["a2_errs"] = ok2, a2, ae2
		}
		if len(e1) == 0 {
			s1a, oks, es := analyzePrint(s1, st)
			out["s1_accepted"], out["s1_an_errs"], out["s1_a1"] = oks, es, s1a
		}
		return out, nil
	}
}
