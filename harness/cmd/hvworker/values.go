package main

import (
	"encoding/json"
	"fmt"
	"math"
	"reflect"
	"sort"
	"strconv"

	treeValue "github.com/smarthome-go/homescript/v3/homescript/interpreter/value"
	vmValue "github.com/smarthome-go/homescript/v3/homescript/runtime/value"
)

// JSON value encoding shared with the specification (Appendix A of DESIGN.md):
//
//	{k:"null"} {k:"int",v:"<decimal>"} {k:"float",f:<number>|"text"} {k:"bool",v} {k:"str",s:"..."}
//	{k:"list",es:[..]} {k:"obj",fs:{key:v}} {k:"anyobj",fs:{..}} {k:"opt"} / {k:"opt",v:..}
//	{k:"range",l,r,incl}
type JV struct {
	K    string         `json:"k"`
	V    any            `json:"v,omitempty"`
	S    *string        `json:"s,omitempty"`
	F    any            `json:"f,omitempty"`
	Es   []JV           `json:"es,omitempty"`
	Fs   map[string]JV  `json:"fs,omitempty"`
	Some *JV            `json:"some,omitempty"`
	L    *int64         `json:"l,omitempty"`
	R    *int64         `json:"r,omitempty"`
	Incl bool           `json:"incl,omitempty"`
	ID   int            `json:"id,omitempty"`
	X    map[string]any `json:"x,omitempty"`
}

func parseJV(raw json.RawMessage) (JV, error) {
	var j JV
	err := json.Unmarshal(raw, &j)
	return j, err
}

func jvInt(j JV) (int64, error) {
	switch v := j.V.(type) {
	case string:
		return strconv.ParseInt(v, 10, 64)
	case float64:
		return int64(v), nil
	}
	return 0, fmt.Errorf("bad int %v", j.V)
}

func jvFloat(j JV) (float64, error) {
	switch v := j.F.(type) {
	case float64:
		return v, nil
	case string:
		return strconv.ParseFloat(v, 64)
	}
	return 0, fmt.Errorf("bad float %v", j.F)
}

func vmFromJV(j JV) (vmValue.Value, error) {
	switch j.K {
	case "null":
		return *vmValue.NewValueNull(), nil
	case "int":
		n, err := jvInt(j)
		return *vmValue.NewValueInt(n), err
	case "float":
		f, err := jvFloat(j)
		return *vmValue.NewValueFloat(f), err
	case "bool":
		b, _ := j.V.(bool)
		return *vmValue.NewValueBool(b), nil
	case "str":
		s := ""
		if j.S != nil {
			s = *j.S
		}
		return *vmValue.NewValueString(s), nil
	case "list":
		es := make([]*vmValue.Value, 0, len(j.Es))
		for _, e := range j.Es {
			v, err := vmFromJV(e)
			if err != nil {
				return nil, err
			}
			vv := v
			es = append(es, &vv)
		}
		return *vmValue.NewValueList(es), nil
	case "obj", "anyobj":
		fs := map[string]*vmValue.Value{}
		for k, e := range j.Fs {
			v, err := vmFromJV(e)
			if err != nil {
				return nil, err
			}
			vv := v
			fs[k] = &vv
		}
		if j.K == "obj" {
			return *vmValue.NewValueObject(fs), nil
		}
		return *vmValue.NewValueAnyObject(fs), nil
	case "opt":
		if j.Some == nil {
			return *vmValue.NewNoneOption(), nil
		}
		v, err := vmFromJV(*j.Some)
		if err != nil {
			return nil, err
		}
		return *vmValue.NewValueOption(&v), nil
	case "range":
		return *vmValue.NewValueRange(*vmValue.NewValueInt(*j.L), *vmValue.NewValueInt(*j.R), j.Incl), nil
	}
	return nil, fmt.Errorf("unknown value kind %q", j.K)
}

func vmFromJSON(raw json.RawMessage) (vmValue.Value, error) {
	j, err := parseJV(raw)
	if err != nil {
		return nil, err
	}
	return vmFromJV(j)
}

func treeFromJV(j JV) (treeValue.Value, error) {
	switch j.K {
	case "null":
		return *treeValue.NewValueNull(), nil
	case "int":
		n, err := jvInt(j)
		return *treeValue.NewValueInt(n), err
	case "float":
		f, err := jvFloat(j)
		return *treeValue.NewValueFloat(f), err
	case "bool":
		b, _ := j.V.(bool)
		return *treeValue.NewValueBool(b), nil
	case "str":
		s := ""
		if j.S != nil {
			s = *j.S
		}
		return *treeValue.NewValueString(s), nil
	case "list":
		es := make([]*treeValue.Value, 0, len(j.Es))
		for _, e := range j.Es {
			v, err := treeFromJV(e)
			if err != nil {
				return nil, err
			}
			vv := v
			es = append(es, &vv)
		}
		return *treeValue.NewValueList(es), nil
	case "obj", "anyobj":
		fs := map[string]*treeValue.Value{}
		for k, e := range j.Fs {
			v, err := treeFromJV(e)
			if err != nil {
				return nil, err
			}
			vv := v
			fs[k] = &vv
		}
		if j.K == "obj" {
			return *treeValue.NewValueObject(fs), nil
		}
		return *treeValue.NewValueAnyObject(fs), nil
	case "opt":
		if j.Some == nil {
			return *treeValue.NewNoneOption(), nil
		}
		v, err := treeFromJV(*j.Some)
		if err != nil {
			return nil, err
		}
		return *treeValue.NewValueOption(&v), nil
	case "range":
		return *treeValue.NewValueRange(*treeValue.NewValueInt(*j.L), *treeValue.NewValueInt(*j.R), j.Incl), nil
	}
	return nil, fmt.Errorf("unknown value kind %q", j.K)
}

func treeFromJSON(raw json.RawMessage) (treeValue.Value, error) {
	j, err := parseJV(raw)
	if err != nil {
		return nil, err
	}
	return treeFromJV(j)
}

// ---------------------------------------------------------------------------------------------
// projection of real values (sharing made visible through canonical ids of the backing storage)

type projector struct {
	ids map[uintptr]int
}

func (p *projector) id(ptr uintptr) int {
	if p.ids == nil {
		p.ids = map[uintptr]int{}
	}
	if n, ok := p.ids[ptr]; ok {
		return n
	}
	n := len(p.ids) + 1
	p.ids[ptr] = n
	return n
}

func floatJ(f float64) any {
	if math.IsNaN(f) || math.IsInf(f, 0) {
		return fmt.Sprint(f)
	}
	return f
}

func (p *projector) vm(v vmValue.Value, depth int) JV {
	if v == nil {
		return JV{K: "nil"}
	}
	if depth > 200 {
		return JV{K: "deep"}
	}
	switch x := v.(type) {
	case vmValue.ValueNull:
		return JV{K: "null"}
	case vmValue.ValueInt:
		return JV{K: "int", V: strconv.FormatInt(x.Inner, 10)}
	case vmValue.ValueFloat:
		return JV{K: "float", F: floatJ(x.Inner)}
	case vmValue.ValueBool:
		return JV{K: "bool", V: x.Inner}
	case vmValue.ValueString:
		s := x.Inner
		return JV{K: "str", S: &s}
	case vmValue.ValueList:
		out := JV{K: "list", Es: []JV{}, ID: p.id(reflect.ValueOf(x.Values).Pointer())}
		for _, e := range *x.Values {
			if e == nil {
				out.Es = append(out.Es, JV{K: "nil"})
			} else {
				out.Es = append(out.Es, p.vm(*e, depth+1))
			}
		}
		return out
	case vmValue.ValueObject:
		out := JV{K: "obj", Fs: map[string]JV{}, ID: p.id(reflect.ValueOf(x.FieldsInternal).Pointer())}
		for k, e := range x.FieldsInternal {
			if e == nil {
				out.Fs[k] = JV{K: "nil"}
			} else {
				out.Fs[k] = p.vm(*e, depth+1)
			}
		}
		return out
	case vmValue.ValueAnyObject:
		out := JV{K: "anyobj", Fs: map[string]JV{}, ID: p.id(reflect.ValueOf(x.FieldsInternal).Pointer())}
		for k, e := range x.FieldsInternal {
			if e == nil {
				out.Fs[k] = JV{K: "nil"}
			} else {
				out.Fs[k] = p.vm(*e, depth+1)
			}
		}
		return out
	case vmValue.ValueOption:
		if x.Inner == nil {
			return JV{K: "opt"}
		}
		in := p.vm(*x.Inner, depth+1)
		return JV{K: "opt", Some: &in}
	case vmValue.ValueRange:
		l := (*x.Start).(vmValue.ValueInt).Inner
		r := (*x.End).(vmValue.ValueInt).Inner
		return JV{K: "range", L: &l, R: &r, Incl: x.EndIsInclusive}
	}
	return JV{K: "other:" + fmt.Sprintf("%T", v)}
}

func (p *projector) tree(v treeValue.Value, depth int) JV {
	if v == nil {
		return JV{K: "nil"}
	}
	if depth > 200 {
		return JV{K: "deep"}
	}
	switch x := v.(type) {
	case treeValue.ValueNull:
		return JV{K: "null"}
	case treeValue.ValueInt:
		return JV{K: "int", V: strconv.FormatInt(x.Inner, 10)}
	case treeValue.ValueFloat:
		return JV{K: "float", F: floatJ(x.Inner)}
	case treeValue.ValueBool:
		return JV{K: "bool", V: x.Inner}
	case treeValue.ValueString:
		s := x.Inner
		return JV{K: "str", S: &s}
	case treeValue.ValueList:
		out := JV{K: "list", Es: []JV{}, ID: p.id(reflect.ValueOf(x.Values).Pointer())}
		for _, e := range *x.Values {
			if e == nil {
				out.Es = append(out.Es, JV{K: "nil"})
			} else {
				out.Es = append(out.Es, p.tree(*e, depth+1))
			}
		}
		return out
	case treeValue.ValueObject:
		out := JV{K: "obj", Fs: map[string]JV{}, ID: p.id(reflect.ValueOf(x.FieldsInternal).Pointer())}
		for k, e := range x.FieldsInternal {
			if e == nil {
				out.Fs[k] = JV{K: "nil"}
			} else {
				out.Fs[k] = p.tree(*e, depth+1)
			}
		}
		return out
	case treeValue.ValueAnyObject:
		out := JV{K: "anyobj", Fs: map[string]JV{}, ID: p.id(reflect.ValueOf(x.FieldsInternal).Pointer())}
		for k, e := range x.FieldsInternal {
			if e == nil {
				out.Fs[k] = JV{K: "nil"}
			} else {
				out.Fs[k] = p.tree(*e, depth+1)
			}
		}
		return out
	case treeValue.ValueOption:
		if x.Inner == nil {
			return JV{K: "opt"}
		}
		in := p.tree(*x.Inner, depth+1)
		return JV{K: "opt", Some: &in}
	case treeValue.ValueRange:
		l := (*x.Start).(treeValue.ValueInt).Inner
		r := (*x.End).(treeValue.ValueInt).Inner
		return JV{K: "range", L: &l, R: &r, Incl: x.EndIsInclusive}
	}
	return JV{K: "other:" + fmt.Sprintf("%T", v)}
}

func sortedKeys[T any](m map[string]T) []string {
	ks := make([]string, 0, len(m))
	for k := range m {
		ks = append(ks, k)
	}
	sort.Strings(ks)
	return ks
}
