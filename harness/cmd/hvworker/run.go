package main

import (
	"context"
	"encoding/json"
	"fmt"
	"runtime"
	"strings"
	"sync"
	"time"

	"github.com/smarthome-go/homescript/v3/homescript"
	"github.com/smarthome-go/homescript/v3/homescript/analyzer"
	"github.com/smarthome-go/homescript/v3/homescript/analyzer/ast"
	"github.com/smarthome-go/homescript/v3/homescript/compiler"
	"github.com/smarthome-go/homescript/v3/homescript/diagnostic"
	herrors "github.com/smarthome-go/homescript/v3/homescript/errors"
	treeValue "github.com/smarthome-go/homescript/v3/homescript/interpreter/value"
	"github.com/smarthome-go/homescript/v3/homescript/optimizer"
	pAst "github.com/smarthome-go/homescript/v3/homescript/parser/ast"
	hmsrt "github.com/smarthome-go/homescript/v3/homescript/runtime"
	vmValue "github.com/smarthome-go/homescript/v3/homescript/runtime/value"
)

// ---------------------------------------------------------------------------------------------
// request / response

type Limits struct {
	Call  uint `json:"call"`
	Stack uint `json:"stack"`
	Mem   uint `json:"mem"`
}

type RunReq struct {
	Modules    map[string]string          `json:"modules"` // module name -> source text
	Entry      string                     `json:"entry"`
	Backend    string                     `json:"backend"` // "vm" | "tree" | "analyze"
	Limits     *Limits                    `json:"limits"`
	TreeLimit  uint                       `json:"tree_limit"`
	Singletons map[string]json.RawMessage `json:"singletons"` // host-provided singleton values ("@Name" -> value JSON)
	TimeoutMs  int                        `json:"timeout_ms"`
	NoMain     bool                       `json:"no_main"` // analyze without requiring main
	Optimize   bool                       `json:"optimize"`
	Invoke     []Invocation               `json:"invoke"`    // if set: host invocations instead of main (vm only)
	CancelAt   int                        `json:"cancel_at"` // cancel at the k-th poll (needs verif hooks); 0 = never
	Trace      bool                       `json:"trace"`
	TraceInstr bool                       `json:"trace_instr"`
	Jitter     int64                      `json:"jitter"` // seed of random yields inside the hooks (0 = none)
	Sched      []SchedStep                `json:"sched"`  // schedule to follow (hooks act as gates)
	Procs      int                        `json:"procs"`  // GOMAXPROCS for this run
	SchedOff   int64                      `json:"sched_offset"`
	WantTypes  bool                       `json:"want_types"`
	EchoModule string                     `json:"echo_module"` // if set: the text of every module the request does not define
	Watchers   int                        `json:"watchers"`    // vm: main is spawned asynchronously, the host waits with Wait, and this many
	// further host goroutines wait with WaitNonConsuming
}

type Invocation struct {
	Fn   string            `json:"fn"`
	Args []json.RawMessage `json:"args"`
}

type DiagJ struct {
	Level string         `json:"level"`
	Msg   string         `json:"msg"`
	Span  map[string]any `json:"span"`
	File  string         `json:"file"`
}

type Outcome struct {
	Kind  string         `json:"kind"` // done | uncaught | fatal | terminated | exception | exit
	Msg   string         `json:"msg"`
	Fatal string         `json:"fatal,omitempty"`
	Span  map[string]any `json:"span,omitempty"`
	Core  uint           `json:"core"`
}

type RunRes struct {
	Syntax    []map[string]any `json:"syntax"`
	Diags     []DiagJ          `json:"diags"`
	Accepted  bool             `json:"accepted"`
	Out       string           `json:"out"`
	Triggers  []map[string]any `json:"triggers"`
	SingLoads []string         `json:"sing_loads"`
	Outcome   *Outcome         `json:"outcome,omitempty"`
	Calls     []map[string]any `json:"calls,omitempty"`
	Residue   map[string]any   `json:"residue,omitempty"`
	Rendered  []string         `json:"rendered,omitempty"`
	Trace     []map[string]any `json:"trace,omitempty"`
	Gor       int              `json:"goroutines"`
	Note      string           `json:"note,omitempty"`
	LetTypes  []map[string]any `json:"let_types,omitempty"`
}

// ---------------------------------------------------------------------------------------------
// hosts

type hostState struct {
	mu       sync.Mutex
	out      strings.Builder
	triggers []map[string]any
	loads    []string
	req      *RunReq
}

// analyzer host: module text from the request, builtin imports from the repository's testing host
type anHost struct {
	homescript.TestingAnalyzerHost
	st *hostState
}

// Two host modules that offer items of the same names (a function `tag` answering the module's name, an int `num`):
// which one a module means is a matter of ITS import statement.
func hostNum(m string) int64 {
	if m == "hosta" {
		return 1
	}
	return 2
}

func (h anHost) GetBuiltinImport(moduleName string, valueName string, span herrors.Span, kind pAst.IMPORT_KIND) (analyzer.BuiltinImport, bool, bool) {
	if moduleName == "hosta" || moduleName == "hostb" {
		if kind != pAst.IMPORT_KIND_NORMAL {
			return analyzer.BuiltinImport{}, true, false
		}
		switch valueName {
		case "tag":
			return analyzer.BuiltinImport{Type: ast.NewFunctionType(ast.NewNormalFunctionTypeParamKind(make([]ast.FunctionTypeParam, 0)), span, ast.NewStringType(span), span)}, true, true
		case "num":
			return analyzer.BuiltinImport{Type: ast.NewIntType(span)}, true, true
		}
		return analyzer.BuiltinImport{}, true, false
	}
	return h.TestingAnalyzerHost.GetBuiltinImport(moduleName, valueName, span, kind)
}

// the host of the checks knows two field annotations
func (h anHost) GetKnownObjectTypeFieldAnnotations() []string { return []string{"setting", "readonly"} }

func (h anHost) ResolveCodeModule(moduleName string) (string, bool, error) {
	code, ok := h.st.req.Modules[moduleName]
	if !ok && h.st.req.EchoModule != "" {
		// a host that answers every module name with the same text (the text may import itself, by any name)
		return h.st.req.EchoModule, true, nil
	}
	return code, ok, nil
}

type vmExec struct {
	inner homescript.TestingVmExecutor
	st    *hostState
}

func (e vmExec) LoadSingleton(ident, module string) (vmValue.Value, bool, error) {
	e.st.mu.Lock()
	e.st.loads = append(e.st.loads, ident)
	e.st.mu.Unlock()
	if raw, ok := e.st.req.Singletons[ident]; ok {
		v, err := vmFromJSON(raw)
		if err != nil {
			return nil, false, err
		}
		return v, true, nil
	}
	return nil, false, nil
}
func (e vmExec) Free() error { return nil }
func (e vmExec) GetBuiltinImport(m, i string) (vmValue.Value, bool) {
	if m == "hosta" || m == "hostb" {
		switch i {
		case "tag":
			return *vmValue.NewValueBuiltinFunction(func(executor vmValue.Executor, cancelCtx *context.Context, span herrors.Span, args ...vmValue.Value) (*vmValue.Value, *vmValue.VmInterrupt) {
				return vmValue.NewValueString(m), nil
			}), true
		case "num":
			return *vmValue.NewValueInt(hostNum(m)), true
		}
		return nil, false
	}
	return e.inner.GetBuiltinImport(m, i)
}
func (e vmExec) ResolveModuleCode(m string) (string, bool, error) {
	code, ok := e.st.req.Modules[m]
	return code, ok, nil
}
func (e vmExec) WriteStringTo(s string) error {
	e.st.mu.Lock()
	e.st.out.WriteString(s)
	e.st.mu.Unlock()
	return nil
}
func (e vmExec) RegisterTrigger(cb, ev string, span herrors.Span, args []vmValue.Value) error {
	disp := []string{}
	for _, a := range args {
		d, i := a.Display()
		if i != nil {
			d = "<display failed>"
		}
		disp = append(disp, d)
	}
	e.st.mu.Lock()
	e.st.triggers = append(e.st.triggers, map[string]any{"cb": cb, "ev": ev, "args": disp, "span": spanJSON(span)})
	e.st.mu.Unlock()
	return nil
}

type treeExec struct {
	inner homescript.TestingTreeExecutor
	st    *hostState
}

func (e treeExec) GetBuiltinImport(m, i string) (treeValue.Value, bool) {
	if m == "hosta" || m == "hostb" {
		switch i {
		case "tag":
			return *treeValue.NewValueBuiltinFunction(func(executor treeValue.Executor, cancelCtx *context.Context, span herrors.Span, args ...treeValue.Value) (*treeValue.Value, *treeValue.Interrupt) {
				return treeValue.NewValueString(m), nil
			}), true
		case "num":
			return *treeValue.NewValueInt(hostNum(m)), true
		}
		return nil, false
	}
	return e.inner.GetBuiltinImport(m, i)
}
func (e treeExec) ResolveModuleCode(m string) (string, bool, error) {
	code, ok := e.st.req.Modules[m]
	return code, ok, nil
}
func (e treeExec) WriteStringTo(s string) error {
	e.st.mu.Lock()
	e.st.out.WriteString(s)
	e.st.mu.Unlock()
	return nil
}
func (e treeExec) GetUser() string { return "verif" }
func (e treeExec) LoadSingleton(ident string, typ ast.Type) (*treeValue.Value, bool, *treeValue.Interrupt) {
	e.st.mu.Lock()
	e.st.loads = append(e.st.loads, ident)
	e.st.mu.Unlock()
	if raw, ok := e.st.req.Singletons[ident]; ok {
		v, err := treeFromJSON(raw)
		if err == nil {
			return &v, true, nil
		}
	}
	return nil, false, nil
}

// ---------------------------------------------------------------------------------------------

func diagsJSON(ds []diagnostic.Diagnostic) []DiagJ {
	out := []DiagJ{}
	for _, d := range ds {
		out = append(out, DiagJ{Level: d.Level.String(), Msg: d.Message, Span: spanJSON(d.Span), File: d.Span.Filename})
	}
	return out
}

func analyze(req *RunReq, st *hostState) (map[string]ast.AnalyzedProgram, *RunRes) {
	res := &RunRes{Syntax: []map[string]any{}, Diags: []DiagJ{}, Triggers: []map[string]any{}, SingLoads: []string{}}
	src, ok := req.Modules[req.Entry]
	if !ok {
		res.Note = "entry module missing"
		return nil, res
	}
	mods, diags, syn := homescript.Analyze(
		homescript.InputProgram{ProgramText: src, Filename: req.Entry},
		homescript.TestingAnalyzerScopeAdditions(),
		anHost{st: st},
		!req.NoMain,
	)
	for _, e := range syn {
		res.Syntax = append(res.Syntax, errJSON(e))
	}
	res.Diags = diagsJSON(diags)
	res.Accepted = len(syn) == 0
	for _, d := range diags {
		if d.Level == diagnostic.DiagnosticLevelError {
			res.Accepted = false
		}
	}
	// rendering every error / diagnostic against its file's text must succeed (C08)
	for _, e := range syn {
		if text, ok := req.Modules[e.Span.Filename]; ok {
			res.Rendered = append(res.Rendered, safeRender(func() string { return e.Display(text) }))
		}
	}
	for _, d := range diags {
		if text, ok := req.Modules[d.Span.Filename]; ok {
			res.Rendered = append(res.Rendered, safeRender(func() string { return d.Display(text) }))
		}
	}
	return mods, res
}

func safeRender(f func() string) (out string) {
	defer func() {
		if r := recover(); r != nil {
			out = fmt.Sprintf("RENDER-PANIC: %v", r)
		}
	}()
	s := f()
	if len(s) > 60 {
		s = s[:60]
	}
	return "ok:" + s
}

func vmOutcome(core uint, i *vmValue.VmInterrupt) *Outcome {
	if i == nil {
		return &Outcome{Kind: "done"}
	}
	o := &Outcome{Core: core, Msg: (*i).Message()}
	switch v := (*i).(type) {
	case vmValue.VmFatalException:
		o.Kind = "fatal"
		o.Fatal = safeString(v.ErrKind)
		if v.ErrKind == vmValue.Vm_UncaughtThrowKind {
			o.Kind = "uncaught"
		}
	case vmValue.VmTerminationInterrupt:
		o.Kind = "terminated"
	case vmValue.Vm_NormalException:
		o.Kind = "exception"
	case vmValue.Vm_ExitInterrupt:
		o.Kind = "exit"
	default:
		o.Kind = "other:" + fmt.Sprintf("%T", v)
	}
	func() {
		defer func() { recover() }()
		o.Span = spanJSON((*i).GetSpan())
	}()
	return o
}

func treeOutcome(i *treeValue.Interrupt) *Outcome {
	if i == nil {
		return &Outcome{Kind: "done"}
	}
	o := &Outcome{Msg: (*i).Message()}
	switch v := (*i).(type) {
	case treeValue.RuntimeErr:
		o.Kind = "fatal"
		o.Fatal = safeString(v.ErrKind)
		if v.ErrKind == treeValue.UncaughtThrowKind {
			o.Kind = "uncaught"
		}
	default:
		switch (*i).Kind() {
		case treeValue.TerminateInterruptKind:
			o.Kind = "terminated"
		case treeValue.NormalExceptionInterruptKind:
			o.Kind = "exception"
		case treeValue.ExitInterruptKind:
			o.Kind = "exit"
		default:
			o.Kind = "other:" + (*i).Kind().String()
		}
	}
	func() {
		defer func() { recover() }()
		o.Span = spanJSON((*i).GetSpan())
	}()
	return o
}

func limitsOf(req *RunReq) hmsrt.CoreLimits {
	l := hmsrt.CoreLimits{CallStackMaxSize: 100, StackMaxSize: 500, MaxMemorySize: 100 * 1000}
	if req.Limits != nil {
		l = hmsrt.CoreLimits{CallStackMaxSize: req.Limits.Call, StackMaxSize: req.Limits.Stack, MaxMemorySize: req.Limits.Mem}
	}
	return l
}

func doRun(req *RunReq) (*RunRes, error) {
	st := &hostState{req: req}
	mods, res := analyze(req, st)
	if req.WantTypes && mods != nil {
		if m, ok := mods[req.Entry]; ok {
			res.LetTypes = letTypes(m)
		}
	}
	if !res.Accepted || req.Backend == "analyze" || mods == nil {
		return res, nil
	}
	timeout := time.Duration(req.TimeoutMs) * time.Millisecond
	if timeout == 0 {
		timeout = 10 * time.Second
	}
	ctx, cancel := context.WithTimeout(context.Background(), timeout)
	defer cancel()
	if req.Procs > 0 {
		defer runtime.GOMAXPROCS(runtime.GOMAXPROCS(req.Procs))
	}
	baseG := runtime.NumGoroutine()
	if req.Optimize {
		opt := optimizer.NewOptimizer()
		optimized, odiags := opt.Optimize(mods)
		for _, d := range odiags {
			if d.Level == diagnostic.DiagnosticLevelError {
				res.Outcome = &Outcome{Kind: "optimizer-error", Msg: d.Message}
				return res, nil
			}
		}
		mods = optimized
	}

	switch req.Backend {
	case "vm":
		comp := compiler.NewCompiler(mods, req.Entry)
		compiled, err := comp.Compile()
		if err != nil {
			res.Outcome = &Outcome{Kind: "compile-error", Msg: err.Error()}
			return res, nil
		}
		exec := vmValue.Executor(vmExec{inner: homescript.TestingVmExecutor{PrintBuf: new(string), PintBufMutex: &sync.Mutex{}}, st: st})
		tracer := startTrace(req)
		if rec != nil {
			rec.cancel = cancel
			if req.TraceInstr {
				// what the bytecode machine specification needs to know about the program
				lens := map[string]int{}
				for name, ins := range compiled.Functions {
					lens[name] = len(ins)
				}
				sigs := map[string]any{}
				if m, ok := mods[req.Entry]; ok {
					for _, fn := range m.Functions {
						np := 0
						for _, p := range fn.Parameters.List {
							if !p.IsSingletonExtractor {
								np++
							}
						}
						if mangled, ok := compiled.Mappings.Functions[fn.Ident.Ident()]; ok {
							sigs[mangled] = map[string]any{"np": np, "ret": fn.ReturnType.Kind() != ast.NullTypeKind && fn.ReturnType.Kind() != ast.NeverTypeKind}
						}
					}
				}
				l := limitsOf(req)
				rec.add(map[string]any{"e": "Prog", "c": -1, "len": lens, "sig": sigs,
					"lim": map[string]any{"call": l.CallStackMaxSize, "stack": l.StackMaxSize, "mem": l.MaxMemorySize}})
			}
		}
		vm := hmsrt.NewVM(compiled, exec, &ctx, &cancel, homescript.TestingVmScopeAdditions(), limitsOf(req))
		if rec != nil {
			rec.mu.Lock()
			rec.vm = &vm
			rec.mu.Unlock()
			if rec.gate != nil {
				r := rec
				rec.gate.offset = req.SchedOff
				rec.gate.activate(func() {
					// lock order gate -> recorder (the hook handler passes the gate before it takes the recorder's mutex)
					r.mu.Lock()
					r.cancelled = true
					r.add(map[string]any{"e": "Cancel", "c": -1})
					r.mu.Unlock()
					cancel()
				})
			}
		}
		if req.Watchers > 0 {
			vm.SpawnAsync(hmsrt.MainFn(), nil, nil, nil)
			back := make(chan int, req.Watchers)
			for k := 0; k < req.Watchers; k++ {
				go func(k int) { vm.WaitNonConsuming(); back <- len(vm.Cores.Cores) }(k)
			}
			type wres struct {
				c uint
				i *vmValue.VmInterrupt
			}
			wdone := make(chan wres, 1)
			go func() { c, i := vm.Wait(); wdone <- wres{c, i} }()
			patience := time.After(timeout + 2*time.Second)
			stuck := false
			select {
			case w := <-wdone:
				if w.i != nil {
					res.Outcome = vmOutcome(w.c, w.i)
				} else {
					res.Outcome = &Outcome{Kind: "done"}
				}
			case <-patience:
				res.Outcome = &Outcome{Kind: "wait-stuck"}
				stuck = true
			}
			returned, sawCores := 0, 0
			grace := time.After(2 * time.Second)
			for k := 0; k < req.Watchers && !stuck; k++ {
				select {
				case n := <-back:
					returned++
					sawCores += n
				case <-grace:
					stuck = true
				}
			}
			res.Residue = map[string]any{"watchers": req.Watchers, "watchers_returned": returned, "cores_seen_on_return": sawCores}
			res.Trace = tracer.stop()
			if stuck {
				exitAfterReply = true // goroutines of this run are spinning or blocked for good
			}
			st.mu.Lock()
			res.Out = st.out.String()
			st.mu.Unlock()
			return res, nil
		}
		if len(req.Invoke) == 0 {
			r := vm.SpawnSync(hmsrt.MainFn(), nil, nil)
			if r.Exception != nil {
				res.Outcome = vmOutcome(r.Exception.CoreNum, &r.Exception.Interrupt)
			} else {
				res.Outcome = &Outcome{Kind: "done"}
			}
		} else {
			res.Calls = invokeAll(&vm, mods[req.Entry], req)
			res.Outcome = &Outcome{Kind: "done"}
		}
		res.Trace = tracer.stop()
		res.Residue = map[string]any{"cores": len(vm.Cores.Cores)}
		if rec != nil {
			res.Residue["after_cancel"] = rec.afterCancel
			res.Residue["polls"] = rec.polls
			if rec.gate != nil {
				res.Residue["sched_pos"] = rec.gate.pos
				res.Residue["sched_len"] = len(rec.gate.sched)
				res.Residue["diverged"] = rec.gate.diverge
			}
		}
	case "tree":
		exec := treeValue.Executor(treeExec{inner: homescript.TestingTreeExecutor{Output: new(string)}, st: st})
		lim := req.TreeLimit
		if lim == 0 {
			lim = 20000
		}
		tracer := startTrace(req)
		if rec != nil {
			rec.cancel = cancel
		}
		i := homescript.Run(lim, mods, req.Entry, exec, homescript.TestingInterpreterScopeAdditions(), &ctx)
		res.Outcome = treeOutcome(i)
		res.Trace = tracer.stop()
		if rec != nil {
			res.Residue = map[string]any{"after_cancel": rec.afterCancel, "polls": rec.polls}
		}
	default:
		return nil, fmt.Errorf("unknown backend %q", req.Backend)
	}
	st.mu.Lock()
	res.Out = st.out.String()
	res.Triggers = append(res.Triggers, st.triggers...)
	res.SingLoads = append(res.SingLoads, st.loads...)
	st.mu.Unlock()
	// goroutines still alive shortly after the run returned
	cancel()
	for k := 0; k < 20 && runtime.NumGoroutine() > baseG; k++ {
		time.Sleep(2 * time.Millisecond)
	}
	res.Gor = runtime.NumGoroutine() - baseG
	return res, nil
}

func init() {
	ops["run"] = func(a json.RawMessage) (any, error) {
		var r RunReq
		if err := json.Unmarshal(a, &r); err != nil {
			return nil, err
		}
		return doRun(&r)
	}
}
