package main

import (
	"fmt"

	"github.com/smarthome-go/homescript/v3/homescript/analyzer/ast"
	hmsrt "github.com/smarthome-go/homescript/v3/homescript/runtime"
	vmValue "github.com/smarthome-go/homescript/v3/homescript/runtime/value"
)

// invokeAll performs the host invocations of req.Invoke one after the other on one VM.
func invokeAll(vm *hmsrt.VM, mod ast.AnalyzedProgram, req *RunReq) []map[string]any {
	out := []map[string]any{}
	for _, inv := range req.Invoke {
		rec := map[string]any{"fn": inv.Fn}
		var def *ast.AnalyzedFunctionDefinition
		for i := range mod.Functions {
			if mod.Functions[i].Ident.Ident() == inv.Fn {
				def = &mod.Functions[i]
			}
		}
		if def == nil {
			rec["error"] = "no such function"
			out = append(out, rec)
			continue
		}
		sig := hmsrt.FunctionInvocationSignature{ReturnType: def.ReturnType}
		for _, p := range def.Parameters.List {
			sig.Params = append(sig.Params, hmsrt.FunctionInvocationSignatureParam{Ident: p.Ident.Ident(), Type: p.Type})
		}
		args := []vmValue.Value{}
		bad := false
		for _, raw := range inv.Args {
			v, err := vmFromJSON(raw)
			if err != nil {
				rec["error"] = "bad argument: " + err.Error()
				bad = true
				break
			}
			args = append(args, v)
		}
		if bad {
			out = append(out, rec)
			continue
		}
		func() {
			defer func() {
				if r := recover(); r != nil {
					rec["refused"] = fmt.Sprint(r) // a host-boundary refusal by panic-with-message
				}
			}()
			r := vm.SpawnSync(hmsrt.FunctionInvocation{Function: inv.Fn, Args: args, FunctionSignature: sig}, nil, nil)
			if r.Exception != nil {
				rec["outcome"] = vmOutcome(r.Exception.CoreNum, &r.Exception.Interrupt)
			} else {
				rec["outcome"] = &Outcome{Kind: "done"}
				if r.ReturnValue != nil {
					p := projector{}
					rec["ret"] = p.vm(r.ReturnValue, 0)
				}
			}
		}()
		rec["cores"] = len(vm.Cores.Cores)
		out = append(out, rec)
	}
	return out
}
