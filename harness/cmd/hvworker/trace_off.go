package main

// trace collection; the hooks of /repo (build tag verif) feed it once they exist
type tracer struct{ on bool }

func startTrace(req *RunReq) *tracer { return traceBegin(req) }

func (t *tracer) stop() []map[string]any { return traceEnd(t) }
