package main

import (
	"encoding/json"
	"fmt"
	"sort"

	"github.com/smarthome-go/homescript/v3/homescript/analyzer/ast"
	herrors "github.com/smarthome-go/homescript/v3/homescript/errors"
	treeValue "github.com/smarthome-go/homescript/v3/homescript/interpreter/value"
	vmValue "github.com/smarthome-go/homescript/v3/homescript/runtime/value"
)

func typeString(t ast.Type) string {
	if t == nil {
		return "<nil>"
	}
	return t.String()
}

// memberTable extracts what the analyzer offers on a type.
func memberTable(t ast.Type) map[string]any {
	out := map[string]any{}
	for name, mt := range t.Fields(herrors.Span{}) {
		entry := map[string]any{"type": typeString(mt)}
		if ft, ok := mt.(ast.FunctionType); ok {
			params := []string{}
			if np, ok := ft.Params.(ast.NormalFunctionTypeParamKindIdentifier); ok {
				for _, p := range np.Params {
					params = append(params, typeString(p.Type))
				}
			} else {
				entry["varargs"] = true
			}
			entry["params"] = params
			entry["ret"] = typeString(ft.ReturnType)
			entry["fn"] = true
		}
		out[name] = entry
	}
	return out
}

func keysOf[T any](m map[string]T) []string {
	ks := make([]string, 0, len(m))
	for k := range m {
		ks = append(ks, k)
	}
	sort.Strings(ks)
	return ks
}

func init() {
	// {"t": spec type, "v": spec value of that type} -> analyzer table + runtime member sets
	ops["membertable"] = func(raw json.RawMessage) (any, error) {
		var r struct {
			T ST `json:"t"`
			V SV `json:"v"`
		}
		if err := json.Unmarshal(raw, &r); err != nil {
			return nil, err
		}
		out := map[string]any{"analyzer": memberTable(r.T.toAst())}
		jv := r.V.toJV()
		guard(out, "vm", func() any {
			v, err := vmFromJV(jv)
			if err != nil {
				return map[string]any{"machinery": err.Error()}
			}
			fs, i := v.Fields()
			if i != nil {
				return map[string]any{"interrupt": (*i).Message()}
			}
			return keysOf(fs)
		})
		guard(out, "tree", func() any {
			v, err := treeFromJV(jv)
			if err != nil {
				return map[string]any{"machinery": err.Error()}
			}
			fs, i := v.Fields()
			if i != nil {
				return map[string]any{"interrupt": (*i).Message()}
			}
			return keysOf(fs)
		})
		return out, nil
	}

	// call a member: {"v": receiver, "m": name, "args": [values], "ret": spec type or null} on both libraries
	ops["member"] = func(raw json.RawMessage) (any, error) {
		var r struct {
			V    SV     `json:"v"`
			M    string `json:"m"`
			Args []SV   `json:"args"`
			Ret  *ST    `json:"ret"`
			Idx  bool   `json:"idx"` // index the receiver with args[0] instead of calling a member
		}
		if err := json.Unmarshal(raw, &r); err != nil {
			return nil, err
		}
		out := map[string]any{}
		jv := r.V.toJV()
		guard(out, "vm", func() any {
			v, err := vmFromJV(jv)
			if err != nil {
				return map[string]any{"machinery": err.Error()}
			}
			args := []vmValue.Value{}
			for _, a := range r.Args {
				av, _ := vmFromJV(a.toJV())
				args = append(args, av)
			}
			var res *vmValue.Value
			var intr *vmValue.VmInterrupt
			if r.Idx {
				res, intr = vmValue.IndexValue(&v, &args[0], func() herrors.Span { return herrors.Span{} })
			} else {
				fs, i := v.Fields()
				if i != nil {
					return map[string]any{"interrupt": (*i).Message()}
				}
				f, ok := fs[r.M]
				if !ok {
					return map[string]any{"missing": true}
				}
				bf, ok := (*f).(vmValue.ValueBuiltinFunction)
				if !ok {
					p := projector{}
					return map[string]any{"field": jvToSV(p.vm(*f, 0))}
				}
				res, intr = bf.Callback(nil, nil, herrors.Span{}, args...)
			}
			p := projector{}
			o := map[string]any{"recv": jvToSV(p.vm(v, 0))}
			if intr != nil {
				o["interrupt"] = vmOutcome(0, intr)
				return o
			}
			if res == nil {
				o["res"] = map[string]any{"k": "null"}
				return o
			}
			p2 := projector{}
			o["res"] = jvToSV(p2.vm(*res, 0))
			if r.Ret != nil {
				_, cerr := vmValue.DeepCast(*res, r.Ret.toAst(), herrors.Span{}, false)
				o["conforms"] = cerr == nil
			}
			return o
		})
		guard(out, "tree", func() any {
			v, err := treeFromJV(jv)
			if err != nil {
				return map[string]any{"machinery": err.Error()}
			}
			args := []treeValue.Value{}
			for _, a := range r.Args {
				av, _ := treeFromJV(a.toJV())
				args = append(args, av)
			}
			var res *treeValue.Value
			var intr *treeValue.Interrupt
			if r.Idx {
				res, intr = treeValue.IndexValue(&v, &args[0], func() herrors.Span { return herrors.Span{} })
			} else {
				fs, i := v.Fields()
				if i != nil {
					return map[string]any{"interrupt": (*i).Message()}
				}
				f, ok := fs[r.M]
				if !ok {
					return map[string]any{"missing": true}
				}
				bf, ok := (*f).(treeValue.ValueBuiltinFunction)
				if !ok {
					p := projector{}
					return map[string]any{"field": jvToSV(p.tree(*f, 0))}
				}
				res, intr = bf.Callback(nil, nil, herrors.Span{}, args...)
			}
			p := projector{}
			o := map[string]any{"recv": jvToSV(p.tree(v, 0))}
			if intr != nil {
				o["interrupt"] = treeOutcome(intr)
				return o
			}
			if res == nil {
				o["res"] = map[string]any{"k": "null"}
				return o
			}
			p2 := projector{}
			o["res"] = jvToSV(p2.tree(*res, 0))
			if r.Ret != nil {
				_, cerr := treeValue.DeepCast(*res, r.Ret.toAst(), herrors.Span{}, false)
				o["conforms"] = cerr == nil
			}
			return o
		})
		return out, nil
	}
	_ = fmt.Sprint
}
