package main

import (
	"fmt"
	"reflect"

	"github.com/smarthome-go/homescript/v3/homescript/errors"
)

var spanType = reflect.TypeOf(errors.Span{})

type stringer interface{ String() string }

// dumpTree turns any AST value into a JSON-able tree: structs become {"_": TypeName, field: ...},
// spans are dropped (withSpans=false) or kept as {"s":[l,c,i],"e":[l,c,i],"f":file}.
func dumpTree(v reflect.Value, withSpans bool, depth int) any {
	if depth > 4000 {
		return "<too deep>"
	}
	if !v.IsValid() {
		return nil
	}
	switch v.Kind() {
	case reflect.Interface, reflect.Ptr:
		if v.IsNil() {
			return nil
		}
		return dumpTree(v.Elem(), withSpans, depth+1)
	case reflect.Struct:
		t := v.Type()
		if t == spanType {
			if !withSpans {
				return nil
			}
			sp := v.Interface().(errors.Span)
			return spanJSON(sp)
		}
		if t.Name() == "SpannedIdent" {
			if m := v.MethodByName("Ident"); m.IsValid() {
				out := map[string]any{"_": "Ident", "ident": m.Call(nil)[0].String()}
				if withSpans {
					if sm := v.MethodByName("Span"); sm.IsValid() {
						out["span"] = spanJSON(sm.Call(nil)[0].Interface().(errors.Span))
					}
				}
				if !withSpans {
					return out["ident"]
				}
				return out
			}
		}
		out := map[string]any{"_": t.Name()}
		for i := 0; i < t.NumField(); i++ {
			f := t.Field(i)
			if f.PkgPath != "" { // unexported
				continue
			}
			if f.Type == spanType && !withSpans {
				continue
			}
			out[f.Name] = dumpTree(v.Field(i), withSpans, depth+1)
		}
		return out
	case reflect.Slice, reflect.Array:
		out := make([]any, 0, v.Len())
		for i := 0; i < v.Len(); i++ {
			out = append(out, dumpTree(v.Index(i), withSpans, depth+1))
		}
		return out
	case reflect.Map:
		out := map[string]any{}
		for _, k := range v.MapKeys() {
			out[fmt.Sprint(k.Interface())] = dumpTree(v.MapIndex(k), withSpans, depth+1)
		}
		return out
	case reflect.String:
		return v.String()
	case reflect.Bool:
		return v.Bool()
	case reflect.Int, reflect.Int8, reflect.Int16, reflect.Int32, reflect.Int64:
		if v.Type().PkgPath() != "" && v.CanInterface() {
			if s, ok := v.Interface().(stringer); ok {
				return safeString(s)
			}
		}
		return fmt.Sprint(v.Int()) // as text: int64 does not survive JSON numbers
	case reflect.Uint, reflect.Uint8, reflect.Uint16, reflect.Uint32, reflect.Uint64:
		if v.Type().PkgPath() != "" && v.CanInterface() {
			if s, ok := v.Interface().(stringer); ok {
				return safeString(s)
			}
		}
		return v.Uint()
	case reflect.Float32, reflect.Float64:
		return fmt.Sprintf("%v", v.Float())
	case reflect.Func, reflect.Chan:
		return "<func>"
	}
	return fmt.Sprint(v.Kind())
}

func safeString(s stringer) (out string) {
	defer func() {
		if r := recover(); r != nil {
			out = fmt.Sprintf("<String() panicked: %v>", r)
		}
	}()
	return s.String()
}

func spanJSON(sp errors.Span) map[string]any {
	return map[string]any{
		"s": []uint{sp.Start.Line, sp.Start.Column, sp.Start.Index},
		"e": []uint{sp.End.Line, sp.End.Column, sp.End.Index},
		"f": sp.Filename,
	}
}

func errJSON(e errors.Error) map[string]any {
	return map[string]any{"kind": e.Kind.String(), "msg": e.Message, "span": spanJSON(e.Span)}
}
