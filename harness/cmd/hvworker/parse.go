package main

import (
	"encoding/json"
	"reflect"

	"github.com/smarthome-go/homescript/v3/homescript"
)

type ParseReq struct {
	Src   string `json:"src"`
	Spans bool   `json:"spans"`
	// "program": dump the whole program; "expr": dump the expression of the first statement
	// (or the trailing expression) of the first function's body
	What string `json:"what"`
}

func init() {
	ops["parse"] = func(a json.RawMessage) (any, error) {
		var r ParseReq
		if err := json.Unmarshal(a, &r); err != nil {
			return nil, err
		}
		prog, soft, crit := homescript.Parse(r.Src, lexFile)
		out := map[string]any{}
		errs := []any{}
		for _, e := range soft {
			errs = append(errs, errJSON(e))
		}
		out["soft"] = errs
		if crit != nil {
			out["critical"] = errJSON(*crit)
			return out, nil
		}
		switch r.What {
		case "expr":
			if len(prog.Functions) == 0 {
				out["tree"] = nil
				break
			}
			body := prog.Functions[0].Body
			if len(body.Statements) > 0 {
				out["tree"] = dumpTree(reflect.ValueOf(body.Statements[0]), r.Spans, 0)
			} else {
				out["tree"] = dumpTree(reflect.ValueOf(body.Expression), r.Spans, 0)
			}
		default:
			out["tree"] = dumpTree(reflect.ValueOf(prog), r.Spans, 0)
		}
		return out, nil
	}
}
