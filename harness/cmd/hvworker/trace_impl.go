package main

import (
	"context"
	"math/rand"
	"runtime"
	"sync"
	"time"

	"github.com/smarthome-go/homescript/v3/homescript/compiler"
	"github.com/smarthome-go/homescript/v3/homescript/interpreter"
	hmsrt "github.com/smarthome-go/homescript/v3/homescript/runtime"
	vmValue "github.com/smarthome-go/homescript/v3/homescript/runtime/value"
)

// The recorder behind the verif hooks of /repo.  Events are appended under one mutex, so their
// order in the trace is a total order consistent with every lock-protected action (the hooks are
// called while the protecting lock is still held).

type recorder struct {
	mu          sync.Mutex
	events      []map[string]any
	seq         int
	vm          *hmsrt.VM
	polls       int
	cancelAt    int
	cancel      context.CancelFunc
	jitter      *rand.Rand
	instr       bool
	instrMax    int
	afterCancel map[int64]int // instructions executed per core after the cancel was issued
	cancelled   bool
	gate        *gates
}

var rec *recorder

func (r *recorder) add(ev map[string]any) {
	r.seq++
	ev["q"] = r.seq
	r.events = append(r.events, ev)
}

func traceBegin(req *RunReq) *tracer {
	if !req.Trace && req.CancelAt == 0 && req.Sched == nil {
		hmsrt.VerifHook = nil
		hmsrt.VerifInstr = nil
		interpreter.VerifHook = nil
		rec = nil
		return &tracer{}
	}
	r := &recorder{cancelAt: req.CancelAt, instr: req.TraceInstr, instrMax: 200000, afterCancel: map[int64]int{}}
	if req.Jitter != 0 {
		r.jitter = rand.New(rand.NewSource(req.Jitter))
	}
	if req.Sched != nil {
		r.gate = newGates(req.Sched)
	}
	rec = r
	hmsrt.VerifHook = func(ev string, core int64, arg string) {
		if r.gate != nil {
			r.gate.arrive(ev, core, arg)
		}
		r.mu.Lock()
		e := map[string]any{"e": ev, "c": core}
		if arg != "" {
			e["a"] = arg
		}
		switch ev {
		case "Poll":
			r.polls++
			e["k"] = r.polls
			if r.cancelAt > 0 && r.polls == r.cancelAt && r.cancel != nil {
				r.cancelled = true
				r.add(map[string]any{"e": "Cancel", "c": -1})
				r.cancel()
			}
		case "SpawnLock", "WaitNilLock", "WaitErrLock", "SpawnAppend", "WaitNilAssign", "WaitErrCancel":
			// the write lock must really be held here: a reader must not get in
			if r.vm != nil {
				if r.vm.Cores.Lock.TryRLock() {
					r.vm.Cores.Lock.RUnlock()
					e["held"] = false
				} else {
					e["held"] = true
				}
			}
		case "WaitRLock":
			if r.vm != nil {
				if r.vm.Cores.Lock.TryLock() {
					r.vm.Cores.Lock.Unlock()
					e["held"] = false
				} else {
					e["held"] = true
				}
			}
		}
		r.add(e)
		j := r.jitter
		var d int
		if j != nil {
			d = j.Intn(40)
		}
		r.mu.Unlock()
		if j != nil {
			switch {
			case d < 8:
				runtime.Gosched()
			case d < 10:
				time.Sleep(time.Duration(d) * 20 * time.Microsecond)
			}
		}
	}
	hmsrt.VerifInstr = func(c *hmsrt.Core, i compiler.Instruction) {
		r.mu.Lock()
		if r.cancelled {
			r.afterCancel[int64(c.Corenum)]++
		}
		if r.instr && len(r.events) < r.instrMax {
			fr := c.CallStack[len(c.CallStack)-1]
			ev := map[string]any{"e": "I", "c": int64(c.Corenum), "f": fr.Function, "ip": fr.InstructionPointer,
				"op": i.Opcode().String(), "sh": len(c.Stack), "cs": len(c.CallStack), "mp": c.MemoryPointer,
				"nh": len(c.ExceptionCatchLabels)}
			switch x := i.(type) {
			case compiler.OneIntInstruction:
				ev["a"] = x.Value
			case compiler.OneStringInstruction:
				ev["s"] = x.Value
			case compiler.OneIntOneStringInstruction:
				ev["a"] = x.ValueInt
			case compiler.ValueInstruction:
				if iv, ok := x.Value.(vmValue.ValueInt); ok {
					ev["a"] = iv.Inner
				}
			}
			r.add(ev)
		}
		r.mu.Unlock()
	}
	interpreter.VerifHook = func(ev string, n int64) {
		r.mu.Lock()
		if ev == "Poll" {
			r.polls++
			if r.cancelAt > 0 && r.polls == r.cancelAt && r.cancel != nil {
				r.cancelled = true
				r.add(map[string]any{"e": "Cancel", "c": -1})
				r.cancel()
			}
			if r.cancelled {
				r.afterCancel[-2]++
			}
		}
		r.mu.Unlock()
	}
	return &tracer{on: true}
}

func traceEnd(t *tracer) []map[string]any {
	if rec == nil {
		return nil
	}
	r := rec
	if r.gate != nil {
		r.gate.finish()
	}
	r.mu.Lock()
	defer r.mu.Unlock()
	ev := r.events
	r.events = nil
	hmsrt.VerifHook = nil
	hmsrt.VerifInstr = nil
	interpreter.VerifHook = nil
	return ev
}
