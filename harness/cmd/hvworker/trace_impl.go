package main

func traceBegin(req *RunReq) *tracer { return &tracer{on: req.Trace} }

func traceEnd(t *tracer) []map[string]any { return nil }
