// hvworker runs real homescript code on behalf of the verification driver.
// Protocol: one JSON request per stdin line, one JSON response per stdout line.
package main

import (
	"bufio"
	"encoding/json"
	"fmt"
	"os"
)

type Req struct {
	Op string          `json:"op"`
	ID json.RawMessage `json:"id,omitempty"`
	A  json.RawMessage `json:"a"`
}

// set by an operation that leaves goroutines behind which cannot be stopped: the worker answers and ends
var exitAfterReply bool

var ops = map[string]func(json.RawMessage) (any, error){}

func main() {
	in := bufio.NewReaderSize(os.Stdin, 1<<20)
	out := bufio.NewWriterSize(os.Stdout, 1<<20)
	enc := json.NewEncoder(out)
	enc.SetEscapeHTML(false)
	for {
		line, err := in.ReadBytes('\n')
		if len(line) > 0 {
			var r Req
			if e := json.Unmarshal(line, &r); e != nil {
				enc.Encode(map[string]any{"machinery_error": "bad request: " + e.Error()})
			} else if f, ok := ops[r.Op]; !ok {
				enc.Encode(map[string]any{"machinery_error": "unknown op " + r.Op})
			} else {
				res, e := f(r.A)
				if e != nil {
					enc.Encode(map[string]any{"id": r.ID, "machinery_error": e.Error()})
				} else {
					enc.Encode(map[string]any{"id": r.ID, "r": res})
				}
			}
			out.Flush()
			if exitAfterReply {
				os.Exit(0)
			}
		}
		if err != nil {
			return
		}
	}
}

func fatal(f string, a ...any) { fmt.Fprintf(os.Stderr, f+"\n", a...); os.Exit(3) }
