package main

import (
	"encoding/json"

	"github.com/smarthome-go/homescript/v3/homescript/errors"
	"github.com/smarthome-go/homescript/v3/homescript/lexer"
)

var kindNames = map[lexer.TokenKind]string{
	lexer.Unknown: "Unknown", lexer.EOF: "EOF", lexer.HashTag: "HashTag", lexer.QuestionMark: "QuestionMark",
	lexer.AtSymbol: "AtSymbol", lexer.DollarSymbol: "DollarSymbol", lexer.Underscore: "Underscore",
	lexer.Semicolon: "Semicolon", lexer.Comma: "Comma", lexer.Colon: "Colon", lexer.Dot: "Dot",
	lexer.DoubleDot: "DoubleDot", lexer.Arrow: "Arrow", lexer.FatArrow: "FatArrow", lexer.TildeArrow: "TildeArrow",
	lexer.LParen: "LParen", lexer.RParen: "RParen", lexer.LCurly: "LCurly", lexer.RCurly: "RCurly",
	lexer.LBracket: "LBracket", lexer.RBracket: "RBracket", lexer.Or: "Or", lexer.And: "And",
	lexer.Equal: "Equal", lexer.NotEqual: "NotEqual", lexer.LessThan: "LessThan", lexer.LessThanEqual: "LessThanEqual",
	lexer.GreaterThan: "GreaterThan", lexer.GreaterThanEqual: "GreaterThanEqual", lexer.Not: "Not",
	lexer.Plus: "Plus", lexer.Minus: "Minus", lexer.Multiply: "Multiply", lexer.Divide: "Divide",
	lexer.Modulo: "Modulo", lexer.Power: "Power", lexer.ShiftLeft: "ShiftLeft", lexer.ShiftRight: "ShiftRight",
	lexer.BitOr: "BitOr", lexer.BitAnd: "BitAnd", lexer.BitXor: "BitXor", lexer.Assign: "Assign",
	lexer.PlusAssign: "PlusAssign", lexer.MinusAssign: "MinusAssign", lexer.MultiplyAssign: "MultiplyAssign",
	lexer.DivideAssign: "DivideAssign", lexer.PowerAssign: "PowerAssign", lexer.ModuloAssign: "ModuloAssign",
	lexer.ShiftLeftAssign: "ShiftLeftAssign", lexer.ShiftRightAssign: "ShiftRightAssign",
	lexer.BitOrAssign: "BitOrAssign", lexer.BitAndAssign: "BitAndAssign", lexer.BitXorAssign: "BitXorAssign",
	lexer.Import: "Import", lexer.As: "As", lexer.From: "From", lexer.Try: "Try", lexer.Catch: "Catch",
	lexer.In: "In", lexer.Let: "Let", lexer.Pub: "Pub", lexer.Fn: "Fn", lexer.If: "If", lexer.Else: "Else",
	lexer.Match: "Match", lexer.For: "For", lexer.While: "While", lexer.Loop: "Loop", lexer.Break: "Break",
	lexer.Continue: "Continue", lexer.Return: "Return", lexer.Type: "Type", lexer.New: "New", lexer.Spawn: "Spawn",
	lexer.Event: "Event", lexer.Impl: "Impl", lexer.With: "With", lexer.Templ: "Templ", lexer.Trigger: "Trigger",
	lexer.True: "True", lexer.False: "False", lexer.None: "None", lexer.Null: "Null", lexer.String: "String",
	lexer.Int: "Int", lexer.Float: "Float", lexer.Identifier: "Identifier",
}

type Loc struct {
	L uint `json:"l"`
	C uint `json:"c"`
	I uint `json:"i"`
}
type Tok struct {
	K string `json:"k"`
	V []int  `json:"v"`
	S Loc    `json:"s"`
	E Loc    `json:"e"`
	F string `json:"f"`
}
type LexRes struct {
	Toks   []Tok  `json:"toks"`
	Status string `json:"status"`
	Err    *struct {
		S   Loc    `json:"s"`
		E   Loc    `json:"e"`
		F   string `json:"f"`
		Msg string `json:"msg"`
	} `json:"err,omitempty"`
}

func loc(l errors.Location) Loc { return Loc{l.Line, l.Column, l.Index} }

func runes(s string) []int {
	out := []int{}
	for _, r := range s {
		out = append(out, int(r))
	}
	return out
}

func cpString(cps []int) string {
	rs := make([]rune, len(cps))
	for i, c := range cps {
		rs[i] = rune(c)
	}
	return string(rs)
}

const lexFile = "vfile"

// lexAll drives the real lexer to EOF or to the first error.
func lexAll(src string) LexRes {
	lx := lexer.NewLexer(src, lexFile)
	res := LexRes{Toks: []Tok{}, Status: "done"}
	limit := len([]rune(src)) + 2
	for n := 0; ; n++ {
		if n > limit {
			res.Status = "nontermination"
			return res
		}
		t, err := lx.NextToken()
		if err != nil {
			res.Status = "error"
			res.Err = &struct {
				S   Loc    `json:"s"`
				E   Loc    `json:"e"`
				F   string `json:"f"`
				Msg string `json:"msg"`
			}{loc(err.Span.Start), loc(err.Span.End), err.Span.Filename, err.Message}
			return res
		}
		name, ok := kindNames[t.Kind]
		if !ok {
			name = "?"
		}
		res.Toks = append(res.Toks, Tok{name, runes(t.Value), loc(t.Span.Start), loc(t.Span.End), t.Span.Filename})
		if t.Kind == lexer.EOF {
			return res
		}
	}
}

func init() {
	ops["lex"] = func(a json.RawMessage) (any, error) {
		var cps []int
		if err := json.Unmarshal(a, &cps); err != nil {
			return nil, err
		}
		return lexAll(cpString(cps)), nil
	}
}
