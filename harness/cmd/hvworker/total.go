package main

import (
	"encoding/json"
	"fmt"

	"github.com/smarthome-go/homescript/v3/homescript"
	"github.com/smarthome-go/homescript/v3/homescript/diagnostic"
)

// totality: lexing, parsing and analysis of arbitrary text, as entry module and as imported module
type totalReq struct {
	Srcs     []string `json:"srcs"`
	AsImport bool     `json:"as_import"`
	Echo     bool     `json:"echo"` // as_import: the host returns the text for every module name it is asked for
	Render   bool     `json:"render"`
}

func analyzeOne(src string, asImport bool, render bool, echo bool) map[string]any {
	req := &RunReq{Entry: "main", Modules: map[string]string{"main": src}}
	if asImport {
		req.Modules = map[string]string{"main": "import { f } from imp;\nfn main() { }\n", "imp": src}
		if echo {
			req.EchoModule = src
		}
	}
	st := &hostState{req: req}
	_, diags, syn := homescript.Analyze(
		homescript.InputProgram{ProgramText: req.Modules["main"], Filename: "main"},
		homescript.TestingAnalyzerScopeAdditions(), anHost{st: st}, true)
	out := map[string]any{"syn": len(syn), "diag": len(diags)}
	nerr := 0
	bad := []string{}
	for _, d := range diags {
		if d.Level == diagnostic.DiagnosticLevelError {
			nerr++
		}
	}
	out["err"] = nerr
	if render {
		// every position must be renderable against the text of the file it names (C08)
		pos := []map[string]any{}
		for _, e := range syn {
			text, ok := req.Modules[e.Span.Filename]
			r := "nofile"
			if ok {
				r = safeRender(func() string { return e.Display(text) })
			}
			if len(r) > 2 && r[:3] != "ok:" {
				bad = append(bad, r)
			}
			pos = append(pos, map[string]any{"what": "syntax", "span": spanJSON(e.Span), "msg": e.Message, "rendered": r[:2] == "ok"})
		}
		for _, d := range diags {
			text, ok := req.Modules[d.Span.Filename]
			r := "nofile"
			if ok {
				r = safeRender(func() string { return d.Display(text) })
			}
			if len(r) > 2 && r[:3] != "ok:" {
				bad = append(bad, r)
			}
			pos = append(pos, map[string]any{"what": "diag", "level": d.Level.String(), "span": spanJSON(d.Span), "msg": d.Message, "rendered": r[:2] == "ok"})
		}
		out["pos"] = pos
		out["bad_render"] = bad
	}
	return out
}

func init() {
	ops["total"] = func(raw json.RawMessage) (any, error) {
		var r totalReq
		if err := json.Unmarshal(raw, &r); err != nil {
			return nil, err
		}
		res := []any{}
		for _, s := range r.Srcs {
			res = append(res, analyzeOne(s, r.AsImport, r.Render, r.Echo))
		}
		return res, nil
	}
	_ = fmt.Sprint
}
