package main

import (
	"sync"
	"time"
)

// Schedule replay: the hooks double as gates.  A goroutine arriving at a gated event parks until
// the scheduler (following a schedule exported from TLC) releases that event.
type SchedStep struct {
	P int64  `json:"p"` // process: 0 host/waiter, c+1 core c, -1 canceller
	A string `json:"a"` // action (= hook event name)
}

type gates struct {
	mu        sync.Mutex
	cond      *sync.Cond
	sched     []SchedStep
	pos       int
	free      bool // schedule exhausted or abandoned: everything passes
	active    bool // gating starts once the VM's initialisation is over
	offset    int64
	onCancel  func()
	lastOffer time.Time
	done      chan struct{}
	diverge   string
	waiting   map[string]int
}

// Lock acquisitions are gated BEFORE the lock is taken (a goroutine parked at a gate must not hold a
// lock the schedule has not given it yet); everything else at the event itself.
var gatedEvents = map[string]string{
	"PreSpawnLock": "SpawnLock", "SpawnAppend": "SpawnAppend", "SpawnUnlock": "SpawnUnlock", "SpawnGo": "SpawnGo",
	"Offer": "Offer", "PreWaitRLock": "WaitRLock", "WaitSnapUnlock": "WaitSnapUnlock", "PrePoll": "WaitPoll",
	"PreWaitNilLock": "WaitNilLock", "WaitNilAssign": "WaitNilAssign",
	"WaitNilUnlock": "WaitNilUnlock", "PreWaitErrLock": "WaitErrLock", "WaitErrCancel": "WaitErrCancel",
	"WaitErrUnlock": "WaitErrUnlock", "PreDrainRecv": "WaitDrainRecv", "WaitReturnErr": "WaitReturnErr",
	"WaitReturnNil": "WaitReturnNil", "WaitSleep": "WaitSleep",
	"PreJoin": "JoinBegin", "Joined": "JoinEnd", "JoinFailed": "JoinFailed", "JoinCancelled": "JoinCancelled",
}

func newGates(s []SchedStep) *gates {
	g := &gates{sched: s, waiting: map[string]int{}, done: make(chan struct{})}
	g.cond = sync.NewCond(&g.mu)
	// a watchdog frees everything if the real goroutines cannot follow the schedule
	go func() {
		last := -1
		for {
			select {
			case <-g.done:
				return
			case <-time.After(300 * time.Millisecond):
			}
			g.mu.Lock()
			if g.free {
				g.mu.Unlock()
				return
			}
			if g.pos == last {
				g.diverge = "stuck"
				g.setFree()
				g.cond.Broadcast()
				g.mu.Unlock()
				return
			}
			last = g.pos
			g.mu.Unlock()
		}
	}()
	return g
}

// skip the steps that no goroutine performs: polls (Quantum) and the host's cancel, which is issued right here
func (g *gates) skipSilent() {
	for g.pos < len(g.sched) {
		st := g.sched[g.pos]
		if st.A == "Quantum" {
			g.pos++
			continue
		}
		if st.A == "Cancel" {
			g.pos++
			if g.onCancel != nil {
				g.onCancel()
			}
			continue
		}
		break
	}
}

// arrive parks the calling goroutine until its event is next in the schedule.
func (g *gates) arrive(ev string, core int64, arg string) {
	action, gated := gatedEvents[ev]
	if !gated {
		return
	}
	ev = action
	g.mu.Lock()
	defer g.mu.Unlock()
	if !g.active {
		return
	}
	for !g.free {
		g.skipSilent()
		if g.pos >= len(g.sched) {
			g.setFree()
			g.cond.Broadcast()
			return
		}
		st := g.sched[g.pos]
		if (st.A == ev || (ev == "WaitPoll" && (st.A == "WaitRecv" || st.A == "WaitPollEmpty"))) && g.procMatches(st.P, ev, core) {
			// A core announces its offer before it blocks in the send: give it a moment to get there
			// before anybody else moves (the waiter's non-blocking receive only succeeds on a parked sender).
			if wait := time.Until(g.lastOffer.Add(1500 * time.Microsecond)); wait > 0 {
				g.mu.Unlock()
				time.Sleep(wait)
				g.mu.Lock()
				if g.free {
					return
				}
			}
			if ev == "Offer" {
				g.lastOffer = time.Now()
			}
			g.pos++
			g.skipSilent()
			g.cond.Broadcast()
			return
		}
		g.cond.Wait()
	}
}

func (g *gates) activate(onCancel func()) {
	g.mu.Lock()
	g.active = true
	g.onCancel = onCancel
	g.mu.Unlock()
}

// which process an event belongs to: Wait* events are the waiter's (0); Offer(c) is core c's (c+1);
// Spawn* events are matched by name only (the spawner is whoever is due in the schedule).
func (g *gates) procMatches(p int64, ev string, core int64) bool {
	switch ev {
	case "Offer", "JoinBegin", "JoinEnd", "JoinFailed", "JoinCancelled": // (join events carry the thread which is joined)
		return p == core+g.offset
	case "SpawnLock", "SpawnAppend", "SpawnUnlock", "SpawnGo":
		return true
	}
	return p == 0
}

func (g *gates) finish() {
	g.mu.Lock()
	g.setFree()
	g.cond.Broadcast()
	g.mu.Unlock()
}

// must be called with g.mu held
func (g *gates) setFree() {
	if !g.free {
		g.free = true
		close(g.done)
	}
}
