package main

import (
	"encoding/json"
	"fmt"
	"regexp"
	"strconv"

	"github.com/smarthome-go/homescript/v3/homescript/analyzer/ast"
	herrors "github.com/smarthome-go/homescript/v3/homescript/errors"
	treeValue "github.com/smarthome-go/homescript/v3/homescript/interpreter/value"
	pAst "github.com/smarthome-go/homescript/v3/homescript/parser/ast"
	vmValue "github.com/smarthome-go/homescript/v3/homescript/runtime/value"
)

// values and types in the form HmsCast / HmsValue export them
type SV struct {
	K    string   `json:"k"`
	V    any      `json:"v,omitempty"`
	Es   []SV     `json:"es,omitempty"`
	Ks   []string `json:"ks,omitempty"`
	Vs   []SV     `json:"vs,omitempty"`
	Some bool     `json:"some,omitempty"`
	L    int64    `json:"l,omitempty"`
	R    int64    `json:"r,omitempty"`
	Incl bool     `json:"incl,omitempty"`
}

type ST struct {
	T  string   `json:"t"`
	E  *ST      `json:"e,omitempty"`
	Ks []string `json:"ks,omitempty"`
	Ts []ST     `json:"ts,omitempty"`
}

func (t ST) toAst() ast.Type {
	sp := herrors.Span{}
	switch t.T {
	case "null":
		return ast.NewNullType(sp)
	case "bool":
		return ast.NewBoolType(sp)
	case "int":
		return ast.NewIntType(sp)
	case "flt":
		return ast.NewFloatType(sp)
	case "str":
		return ast.NewStringType(sp)
	case "any":
		return ast.NewAnyType(sp)
	case "anyobj":
		return ast.NewAnyObjectType(sp)
	case "range":
		return ast.NewRangeType(sp)
	case "list":
		return ast.NewListType(t.E.toAst(), sp)
	case "opt":
		return ast.NewOptionType(t.E.toAst(), sp)
	case "obj":
		fs := []ast.ObjectTypeField{}
		for i, k := range t.Ks {
			fs = append(fs, ast.NewObjectTypeField(pAst.NewSpannedIdent(k, sp), t.Ts[i].toAst(), sp))
		}
		return ast.NewObjectType(fs, sp)
	}
	panic("unknown spec type " + t.T)
}

func svNum(v any) float64 {
	switch x := v.(type) {
	case float64:
		return x
	case string:
		f, _ := strconv.ParseFloat(x, 64)
		return f
	}
	return 0
}

func (s SV) toJV() JV {
	switch s.K {
	case "null":
		return JV{K: "null"}
	case "bool":
		b, _ := s.V.(bool)
		return JV{K: "bool", V: b}
	case "int":
		return JV{K: "int", V: strconv.FormatInt(int64(svNum(s.V)), 10)}
	case "flt": // written as twice the value
		return JV{K: "float", F: svNum(s.V) / 2}
	case "str":
		str, _ := s.V.(string)
		return JV{K: "str", S: &str}
	case "list":
		out := JV{K: "list", Es: []JV{}}
		for _, e := range s.Es {
			out.Es = append(out.Es, e.toJV())
		}
		return out
	case "obj", "anyobj":
		out := JV{K: s.K, Fs: map[string]JV{}}
		for i, k := range s.Ks {
			out.Fs[k] = s.Vs[i].toJV()
		}
		return out
	case "opt":
		if !s.Some {
			return JV{K: "opt"}
		}
		var inner SV
		b, _ := json.Marshal(s.V)
		json.Unmarshal(b, &inner)
		in := inner.toJV()
		return JV{K: "opt", Some: &in}
	case "range":
		l, r := s.L, s.R
		return JV{K: "range", L: &l, R: &r, Incl: s.Incl}
	}
	panic("unknown spec value " + s.K)
}

// back from the projection to the specification's form
func jvToSV(j JV) map[string]any {
	switch j.K {
	case "null":
		return map[string]any{"k": "null"}
	case "bool":
		return map[string]any{"k": "bool", "v": j.V}
	case "int":
		n, _ := strconv.ParseInt(fmt.Sprint(j.V), 10, 64)
		return map[string]any{"k": "int", "v": n}
	case "float":
		f, ok := j.F.(float64)
		if !ok {
			return map[string]any{"k": "flt", "v": fmt.Sprint(j.F)}
		}
		return map[string]any{"k": "flt", "v": f * 2}
	case "str":
		return map[string]any{"k": "str", "v": *j.S}
	case "list":
		es := []any{}
		for _, e := range j.Es {
			es = append(es, jvToSV(e))
		}
		return map[string]any{"k": "list", "es": es}
	case "obj", "anyobj":
		ks := sortedKeys(j.Fs)
		vs := []any{}
		for _, k := range ks {
			vs = append(vs, jvToSV(j.Fs[k]))
		}
		return map[string]any{"k": j.K, "ks": ks, "vs": vs}
	case "opt":
		if j.Some == nil {
			return map[string]any{"k": "opt", "some": false}
		}
		return map[string]any{"k": "opt", "some": true, "v": jvToSV(*j.Some)}
	case "range":
		return map[string]any{"k": "range", "l": *j.L, "r": *j.R, "incl": j.Incl}
	}
	return map[string]any{"k": j.K}
}

var pathRe = regexp.MustCompile("at `([^`]*)`")

func castBoth(v SV, t ST, conv bool) map[string]any {
	out := map[string]any{}
	typ := t.toAst()
	jv := v.toJV()
	func() {
		defer func() {
			if r := recover(); r != nil {
				out["vm"] = map[string]any{"panic": fmt.Sprint(r)}
			}
		}()
		val, err := vmFromJV(jv)
		if err != nil {
			out["vm"] = map[string]any{"machinery": err.Error()}
			return
		}
		res, cerr := vmValue.DeepCast(val, typ, herrors.Span{}, conv)
		if cerr != nil {
			m := cerr.Message()
			p := ""
			if g := pathRe.FindStringSubmatch(m); g != nil {
				p = g[1]
			}
			out["vm"] = map[string]any{"ok": false, "msg": m, "path": p}
			return
		}
		pr := projector{}
		out["vm"] = map[string]any{"ok": true, "v": jvToSV(pr.vm(*res, 0))}
	}()
	func() {
		defer func() {
			if r := recover(); r != nil {
				out["tree"] = map[string]any{"panic": fmt.Sprint(r)}
			}
		}()
		val, err := treeFromJV(jv)
		if err != nil {
			out["tree"] = map[string]any{"machinery": err.Error()}
			return
		}
		res, i := treeValue.DeepCast(val, typ, herrors.Span{}, conv)
		if i != nil {
			m := i.Message()
			p := ""
			if g := pathRe.FindStringSubmatch(m); g != nil {
				p = g[1]
			}
			out["tree"] = map[string]any{"ok": false, "msg": m, "path": p}
			return
		}
		pr := projector{}
		out["tree"] = map[string]any{"ok": true, "v": jvToSV(pr.tree(*res, 0))}
	}()
	return out
}

func init() {
	ops["cast"] = func(a json.RawMessage) (any, error) {
		var r struct {
			V    SV   `json:"v"`
			T    ST   `json:"t"`
			Conv bool `json:"conv"`
		}
		if err := json.Unmarshal(a, &r); err != nil {
			return nil, err
		}
		return castBoth(r.V, r.T, r.Conv), nil
	}
}
