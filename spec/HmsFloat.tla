------------------------------- MODULE HmsFloat -------------------------------
(***************************************************************************)
(* The order and the arithmetic of the float values at the edges (IEEE 754) *)
(* as far as a Homescript program can observe them: the classes            *)
(*   nan, -inf, a negative number, -0, +0, a positive number, +inf         *)
(* under the six comparison operators, the four arithmetic operators whose *)
(* result class is determined by the operand classes, and negation.        *)
(* HmsSem's floats are exact rationals ("halves") and cannot hold these    *)
(* values; this module is the oracle for them (C01: what the compiled      *)
(* program computes, C04: both backends, C02: no crash).                   *)
(* TLC enumerates every (operator, class, class) and exports the result.   *)
(***************************************************************************)
EXTENDS Integers, Sequences, TLC, Json

Classes == <<"nan", "ninf", "neg", "nzero", "pzero", "pos", "pinf">>
Cmps == <<"<", "<=", ">", ">=", "==", "!=">>

\* position on the number line (both zeros are one point); nan has none
Ord(c) == CASE c = "ninf" -> 0 [] c = "neg" -> 1 [] c = "nzero" -> 2 [] c = "pzero" -> 2 [] c = "pos" -> 3 [] c = "pinf" -> 4 [] OTHER -> -1

\* every ordered comparison with nan is false, != is the negation of == (and so true for nan)
Compare(op, a, b) ==
    IF a = "nan" \/ b = "nan" THEN op = "!="
    ELSE CASE op = "<" -> Ord(a) < Ord(b)
           [] op = "<=" -> Ord(a) <= Ord(b)
           [] op = ">" -> Ord(a) > Ord(b)
           [] op = ">=" -> Ord(a) >= Ord(b)
           [] op = "==" -> Ord(a) = Ord(b)
           [] op = "!=" -> Ord(a) # Ord(b)

\* the representatives used by the harness are -2.5 and 2.5: equal magnitudes, so sums and differences are exact
Sign(c) == CASE c \in {"ninf", "neg", "nzero"} -> -1 [] c \in {"pzero", "pos", "pinf"} -> 1 [] OTHER -> 0
IsInf(c) == c \in {"ninf", "pinf"}
IsZero(c) == c \in {"nzero", "pzero"}
Flip(c) == CASE c = "ninf" -> "pinf" [] c = "pinf" -> "ninf" [] c = "neg" -> "pos" [] c = "pos" -> "neg"
             [] c = "nzero" -> "pzero" [] c = "pzero" -> "nzero" [] OTHER -> "nan"

\* the class of a + b ("big": a finite number which is not one of the representatives: |5.0|, 6.25)
Add(a, b) ==
    IF a = "nan" \/ b = "nan" THEN "nan"
    ELSE IF IsInf(a) /\ IsInf(b) THEN (IF a = b THEN a ELSE "nan")
    ELSE IF IsInf(a) THEN a ELSE IF IsInf(b) THEN b
    ELSE IF IsZero(a) /\ IsZero(b) THEN (IF a = "nzero" /\ b = "nzero" THEN "nzero" ELSE "pzero")
    ELSE IF IsZero(a) THEN b ELSE IF IsZero(b) THEN a
    ELSE IF a = b THEN (IF a = "neg" THEN "negbig" ELSE "posbig")
    ELSE "pzero"                                  \* x + (-x) is +0 (round to nearest)
Sub(a, b) == Add(a, Flip(b))
Mul(a, b) ==
    IF a = "nan" \/ b = "nan" THEN "nan"
    ELSE IF (IsInf(a) /\ IsZero(b)) \/ (IsZero(a) /\ IsInf(b)) THEN "nan"
    ELSE LET s == Sign(a) * Sign(b) IN
         IF IsInf(a) \/ IsInf(b) THEN (IF s < 0 THEN "ninf" ELSE "pinf")
         ELSE IF IsZero(a) \/ IsZero(b) THEN (IF s < 0 THEN "nzero" ELSE "pzero")
         ELSE (IF s < 0 THEN "negbig" ELSE "posbig")
Neg(a) == Flip(a)

Cases ==
    [cmp |-> [o \in 1..Len(Cmps) |-> [i \in 1..Len(Classes) |-> [j \in 1..Len(Classes) |->
                [op |-> Cmps[o], a |-> Classes[i], b |-> Classes[j], r |-> Compare(Cmps[o], Classes[i], Classes[j])]]]],
     ari |-> [i \in 1..Len(Classes) |-> [j \in 1..Len(Classes) |->
                [a |-> Classes[i], b |-> Classes[j], add |-> Add(Classes[i], Classes[j]), sub |-> Sub(Classes[i], Classes[j]),
                 mul |-> Mul(Classes[i], Classes[j]), neg |-> Neg(Classes[i])]]]]

\* laws the table must satisfy (checked by TLC before anything is exported)
Laws ==
    /\ \A a \in DOMAIN Classes, b \in DOMAIN Classes :
        LET x == Classes[a] y == Classes[b] IN
        /\ Compare("<", x, y) = Compare(">", y, x)
        /\ Compare("<=", x, y) = Compare(">=", y, x)
        /\ Compare("!=", x, y) = ~Compare("==", x, y)
        /\ Compare("<=", x, y) = (Compare("<", x, y) \/ Compare("==", x, y))
        /\ (x # "nan" /\ y # "nan") => (Compare("<=", x, y) = ~Compare(">", x, y))      \* NOT so with nan
        /\ Add(x, y) = Add(y, x) /\ Mul(x, y) = Mul(y, x)
    /\ ~Compare("<=", "nan", "nan") /\ ~Compare(">=", "nan", "pos") /\ Compare("==", "nzero", "pzero")

VARIABLE done
Init == done = FALSE
Next == ~done /\ done' = TRUE
Spec == Init /\ [][Next]_done
LawsHold == Laws
Export == done => PrintT(<<"CASE", ToJson(Cases)>>)
=============================================================================
