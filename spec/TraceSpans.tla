------------------------------ MODULE TraceSpans ------------------------------
(***************************************************************************)
(* Reported positions (C08).  Every syntax error, diagnostic, caught-error *)
(* position and interrupt span recorded from the real code is one record:  *)
(*   [what, whole, s |-> <<line, col, idx>>, e |-> <<line, col, idx>>,     *)
(*    lens |-> lengths of the lines of the named file, textlen,            *)
(*    fileok (the span names a file the host knows), rendered (the real    *)
(*    Display call returned), hasculprit, cs/ce (index range of the        *)
(*    construct that caused it)]                                           *)
(* The predicates below are what C08 demands of each record; TLC evaluates *)
(* them on every record (one state per record), `bad` names the first one  *)
(* that fails.                                                             *)
(***************************************************************************)
EXTENDS Integers, Sequences, FiniteSets, TLC, Json, SequencesExt

Records == ndJsonDeserialize("spans.ndjson")

VARIABLES l, bad
vars == <<l, bad>>

NLines(r) == Len(r.lens)
LineLen(r, n) == r.lens[n]

\* index of the first character of line n (0-based), computed from the line lengths
RECURSIVE LineStart(_, _)
LineStart(r, n) == IF n = 1 THEN 0 ELSE LineStart(r, n - 1) + LineLen(r, n - 1) + 1

\* a location names a place in the text: an existing line, a column on it (or one behind its end:
\* end of line / end of input), and the index that belongs to that line and column
LocInFile(r, p) ==
    /\ p[1] >= 1 /\ p[1] <= NLines(r)
    /\ p[2] >= 1 /\ p[2] <= LineLen(r, p[1]) + 1
    /\ p[3] = LineStart(r, p[1]) + p[2] - 1
    /\ p[3] <= r.textlen

InFile(r) == r.whole \/ (r.fileok /\ LocInFile(r, r.s) /\ LocInFile(r, r.e))
Ordered(r) == r.whole \/ r.s[3] <= r.e[3]
\* the reported span touches the construct that caused the problem
Within(r) == r.whole \/ ~r.hasculprit \/ (r.s[3] <= r.ce /\ r.e[3] >= r.cs)
\* ... and it does not name lines the culprit is not on (the statement around it, the block after it)
OnCulpritLines(r) == r.whole \/ ~r.hasculprit \/ (r.s[1] >= r.cl[1] /\ r.e[1] <= r.cl[2])
\* what Error.Display / Diagnostic.Display need in order not to fail on this text:
\* the start line exists, the marker length is not negative, a multi-line marker fits its line
Renderable(r) ==
    \/ (r.whole /\ r.what = "diag")
    \/ /\ ~r.whole
       /\ r.s[1] >= 1 /\ r.s[1] <= NLines(r)
       /\ (r.s[1] = r.e[1] => r.e[2] + 1 >= r.s[2])
       /\ (r.s[1] # r.e[1] => r.s[2] <= LineLen(r, r.s[1]) + 1)
RenderedForReal(r) == r.what \in {"syntax", "diag"} => r.rendered

FirstBad(r) ==
    IF ~InFile(r) THEN "InFile"
    ELSE IF ~Ordered(r) THEN "Ordered"
    ELSE IF ~Within(r) THEN "Within"
    ELSE IF ~OnCulpritLines(r) THEN "OnCulpritLines"
    ELSE IF r.what \in {"syntax", "diag"} /\ ~Renderable(r) THEN "Renderable"
    ELSE IF ~RenderedForReal(r) THEN "RenderedForReal"
    ELSE "none"

Init == l = 1 /\ bad = "none"
Next == /\ l <= Len(Records)
        /\ bad' = FirstBad(Records[l])
        /\ bad' # "none" => PrintT(<<"BAD", ToJson([i |-> l, bad |-> bad'])>>)
        /\ l' = l + 1
Spec == Init /\ [][Next]_vars
AllChecked == TLCGet("stats").diameter - 1 = Len(Records)
=============================================================================
