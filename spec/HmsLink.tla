------------------------------- MODULE HmsLink -------------------------------
(***************************************************************************)
(* Modules, imports and name resolution (C15, C14).                        *)
(*                                                                         *)
(* Three modules: "main" (entry), "b", "c" ("c" may be missing).  Every    *)
(* module has a private helper `h`, a private list `hist` and a global `x` *)
(* (c may be "bare": no globals, no f, only h and pc - a module with       *)
(* nothing to initialise; b may also define a type T = int, private or pub, which main may import *)
(* and then uses as `let t: T = 5; println("t", t);`; c may define a       *)
(* global y = 77 that b and main may import - from c, or main from b, which *)
(* merely imported it: println("m.y", y) where it is visible)              *)
(* (main: 10 unless it imports an `x`; b: 20; c: 30; in b and c private    *)
(* or pub).  b and c have a pub entry `pb` / `pc`; the contested name is   *)
(* `f`: defined (private or pub) or not in each module, imported here and  *)
(* there.  Bodies:                                                         *)
(*   f  in m:  hist.push(1); println("m.f", x, hist.len()); h();           *)
(*   h  in m:  println("m.h");                                             *)
(*   pb, pc :  println("m.p", x, hist.len()); [f();] h();                  *)
(*   main   :  [f();] [pb();] [pc();] h(); [println("x", x);] [f();]       *)
(* where [..] is present iff the name is visible in that module.           *)
(*                                                                         *)
(* The specification says which import items are errors and, for accepted  *)
(* graphs, what is printed: a function runs against the globals of the     *)
(* module that DEFINES it, every module's globals are initialised exactly  *)
(* once before main, whatever order the host / compiler visit modules in   *)
(* (InitModule is enabled for any not yet initialised module).             *)
(***************************************************************************)
EXTENDS Integers, Sequences, FiniteSets, TLC, Json, SequencesExt

CONSTANTS Slice, Slices       \* the graph space is cut into Slices parts

VARIABLES g,        \* the module graph (see Graphs)
          inited,   \* modules whose globals have been initialised, in the order it happened
          hist,     \* per module: length of its `hist` list
          out, phase
vars == <<g, inited, hist, out, phase>>

Mods == {"main", "b", "c"}
Vis == {"none", "priv", "pub"}

\* g.f[m] visibility of f in m; g.x[m] visibility of x in b / c; g.hasc; g.imp[m] set of <<item, from>>
\* (the graph space itself is spelled out in Pick / PickImports below)

Exists(gr, m) == m # "c" \/ gr.hasc
\* what module m defines, with its visibility
Defined(gr, m, name) ==
    CASE name = "f" -> gr.f[m]
      [] name = "x" -> IF m = "main" THEN "priv" ELSE IF m = "c" /\ gr.cbare THEN "none" ELSE gr.x[m]
      [] name = "h" -> "priv"
      [] name = "pb" -> IF m = "b" THEN "pub" ELSE "none"
      [] name = "pc" -> IF m = "c" THEN "pub" ELSE "none"
      [] name = "T" -> IF m = "b" THEN gr.t ELSE "none"      \* a type (imported as `type T`)
      \* a global only c defines (77): b may import it, and main may ask b for it - but b does not DEFINE it, importing a
      \* name does not pass it on
      [] name = "y" -> IF m = "c" /\ ~gr.cbare THEN gr.y ELSE "none"
      [] OTHER -> "none"

\* the imports module m really has: main always imports the entry points of the modules it uses
Imports(gr, m) ==
    IF m = "main" THEN gr.imp.main \cup (IF gr.mainb THEN {<<"pb", "b">>} ELSE {}) \cup (IF gr.hasc THEN {<<"pc", "c">>} ELSE {})
    ELSE gr.imp[m]

\* modules reachable from main through imports (only those are ever looked at)
RECURSIVE Reach(_, _)
Reach(gr, S) ==
    LET nxt == S \cup { it[2] : it \in UNION { Imports(gr, m) : m \in {s \in S : Exists(gr, s)} } } IN
    IF nxt = S THEN S ELSE Reach(gr, nxt)
Reachable(gr) == Reach(gr, {"main"})

\* does m (transitively) import itself?
RECURSIVE Closure(_, _)
Closure(gr, S) ==
    LET nxt == S \cup { it[2] : it \in UNION { Imports(gr, m) : m \in {s \in S : Exists(gr, s)} } } IN
    IF nxt = S THEN S ELSE Closure(gr, nxt)
ImportsOf(gr, m) == { it[2] : it \in Imports(gr, m) }
InCycle(gr, m) == Exists(gr, m) /\ m \in Closure(gr, ImportsOf(gr, m))

\* verdict for one import item of module m
ItemError(gr, m, it) ==
    CASE ~Exists(gr, it[2]) -> "module-missing"
      [] InCycle(gr, m) /\ m \in Closure(gr, {it[2]}) -> "cycle"
      [] Defined(gr, it[2], it[1]) = "none" -> "item-missing"
      [] Defined(gr, it[2], it[1]) = "priv" -> "item-private"
      [] OTHER -> "ok"

\* An import whose name is also defined locally, or imported twice, is neither demanded to be an error nor
\* given a meaning by the property: such graphs are unspecified and no verdict is derived from them.
Clash(gr, m, it) ==
    \/ Defined(gr, m, it[1]) # "none" /\ ~(it[1] = "x" /\ m = "main")
    \/ \E o \in Imports(gr, m) : o # it /\ o[1] = it[1]
Unspecified(gr) == \E m \in {s \in Reachable(gr) : Exists(gr, s)} : \E it \in Imports(gr, m) : Clash(gr, m, it)

AllErrors(gr) ==
    UNION { { <<m, it, ItemError(gr, m, it)>> : it \in {i \in Imports(gr, m) : ItemError(gr, m, i) # "ok"} }
            : m \in {s \in Reachable(gr) : Exists(gr, s)} }
Accepted(gr) == AllErrors(gr) = {}

\* name resolution in an accepted graph: the defining module of `name` as seen from m ("" if not visible)
Resolve(gr, m, name) ==
    IF Defined(gr, m, name) # "none" /\ ~(name = "x" /\ m = "main" /\ \E it \in Imports(gr, m) : it[1] = "x") THEN m
    ELSE IF \E it \in Imports(gr, m) : it[1] = name THEN (CHOOSE it \in Imports(gr, m) : it[1] = name)[2]
    ELSE ""

XVal(m) == CASE m = "main" -> 10 [] m = "b" -> 20 [] m = "c" -> 30
\* The entry point of a library adds 1 to the library's x every time it runs: whoever imported that x sees it (an imported
\* global IS the global of its module, not a copy taken at import time).  The counters live beside the hist lengths.
XKey(m) == CASE m = "main" -> "xmain" [] m = "b" -> "xb" [] m = "c" -> "xc"
XNow(gr, hs, m) == LET dm == Resolve(gr, m, "x") IN XVal(dm) + hs[XKey(dm)]

-----------------------------------------------------------------------------
(* execution of an accepted graph: a little call machine                   *)
\* the lines printed by calling `name` as seen from module m, given hist; returns [lines, hist]
RECURSIVE CallLines(_, _, _, _, _)
CallLines(gr, m, name, hs, depth) ==
    LET d == Resolve(gr, m, name) IN
    IF d = "" \/ depth > 4 THEN [lines |-> <<>>, hist |-> hs]
    ELSE CASE name = "h" -> [lines |-> << <<d, "h">> >>, hist |-> hs]
           [] name = "f" ->
                LET hs1 == [hs EXCEPT ![d] = @ + 1]
                    own == << <<d, "f", XNow(gr, hs1, d), hs1[d]>> >>
                    r == CallLines(gr, d, "h", hs1, depth + 1) IN
                [lines |-> own \o r.lines, hist |-> r.hist]
           [] name \in {"pb", "pc"} ->
                LET hsx == IF d = "c" /\ gr.cbare THEN hs ELSE [hs EXCEPT ![XKey(d)] = @ + 1]
                    own == (IF d = "c" /\ gr.cbare THEN << <<"c", "pbare">> >> ELSE << <<d, "p", XNow(gr, hsx, d), hsx[d]>> >>)
                           \* (a bare c with a host import has an initializer that consists of the import only)
                           \o (IF d = "b" /\ Resolve(gr, "b", "y") # "" THEN << <<"b", "y", 77>> >> ELSE <<>>)
                           \o (IF gr.host[d] # "none" THEN << <<d, "tag", gr.host[d]>> >> ELSE <<>>)
                           \o (IF d = "b" /\ gr.tval THEN << <<"b", "T", 55>> >> ELSE <<>>)
                    r1 == CallLines(gr, d, "f", hsx, depth + 1)
                    \* an entry point also calls the other library's entry point if its module imports it
                    \* (so a library may only be reachable - and initialised - through another library)
                    ro == CallLines(gr, d, IF d = "b" THEN "pc" ELSE "pb", r1.hist, depth + 1)
                    r2 == CallLines(gr, d, "h", ro.hist, depth + 1) IN
                [lines |-> own \o r1.lines \o ro.lines \o r2.lines, hist |-> r2.hist]

MainLines(gr) ==
    LET h0 == [k \in Mods \cup {"xmain", "xb", "xc"} |-> IF k \in Mods THEN 1 ELSE 0]
        r1 == CallLines(gr, "main", "f", h0, 0)
        r2 == CallLines(gr, "main", "pb", r1.hist, 0)
        r3 == CallLines(gr, "main", "pc", r2.hist, 0)
        r4 == CallLines(gr, "main", "h", r3.hist, 0)
        xl == << <<"main", "x", XNow(gr, r4.hist, "main")>> >>
        r5 == CallLines(gr, "main", "f", r4.hist, 0)
        yl == (IF Resolve(gr, "main", "y") # "" THEN << <<"main", "y", 77>> >> ELSE <<>>)
              \o (IF gr.host.main # "none" THEN << <<"main", "tag", gr.host.main>> >> ELSE <<>>)
              \* types and values are named apart: importing the TYPE T from b brings no value along, main's own global T (11)
              \* and b's private global T (55) stay what they are
              \o (IF gr.tval THEN << <<"main", "T", 11>> >> ELSE <<>>)
        tl == IF <<"T", "b">> \in gr.imp.main THEN << <<"main", "t", 5>> >> ELSE <<>> IN
    r1.lines \o r2.lines \o r3.lines \o r4.lines \o xl \o yl \o r5.lines \o tl

-----------------------------------------------------------------------------
\* the graph space is enumerated component-wise (building Graphs as one set is slow) and cut by a code of the components
VisN(v) == CASE v = "none" -> 0 [] v = "priv" -> 1 [] v = "pub" -> 2
\* Each module may import the item `tag` from one of two HOST modules that both offer it (a function answering the host
\* module's name): which one a module means is decided by its own import statement. Varied in one part of the space.
Hosts == {"none", "hosta", "hostb"}
HostN(h) == CASE h = "none" -> 0 [] h = "hosta" -> 1 [] h = "hostb" -> 2
BN(x) == IF x THEN 1 ELSE 0
\* (the graph is chosen by an action, not in Init: TLC computes initial states on one thread)
NoGraph == [f |-> [main |-> "none", b |-> "none", c |-> "none"], x |-> [b |-> "priv", c |-> "priv"], t |-> "none", y |-> "none", host |-> [main |-> "none", b |-> "none", c |-> "none"], tval |-> FALSE, hasc |-> FALSE, cbare |-> FALSE, mainb |-> TRUE,
            imp |-> [main |-> {}, b |-> {}, c |-> {}]]
Init == g = NoGraph /\ inited = <<>> /\ hist = [m \in Mods |-> 0] /\ out = <<>> /\ phase = "pick"
Pick ==
    /\ phase = "pick"
    /\ \E fm \in {"none", "priv"}, fb \in Vis, fc \in Vis, xb \in {"priv", "pub"}, xc \in {"priv", "pub"}, tb \in Vis, yc \in Vis, hc \in BOOLEAN, cb \in BOOLEAN, mb \in BOOLEAN,
          hm \in Hosts, hb \in Hosts, hcc \in Hosts, tv \in BOOLEAN :
         \* (a bare c has no globals at all - nothing to initialise -, no f, and nothing but pc to import)
         /\ cb => (hc /\ fc = "none" /\ xc = "priv")
         \* (main leaves b to c only if there is a c)
         /\ ~mb => hc
         \* (y and its imports are varied in one part of the space only, see YOn)
         /\ yc # "none" => (fm = "none" /\ tb = "none" /\ xb = "priv" /\ hc /\ ~cb)
         /\ (hm # "none" \/ hb # "none" \/ hcc # "none") => (fm = "none" /\ fb = "none" /\ tb = "none" /\ xb = "priv" /\ xc = "priv" /\ yc = "none")
         /\ hcc # "none" => hc
         \* (main and b each have a VALUE named T as well: only where b has the type T)
         /\ tv => (tb # "none" /\ fm = "none" /\ xb = "priv" /\ yc = "none" /\ hm = "none" /\ hb = "none" /\ hcc = "none")
         /\ (VisN(fb) + 3 * VisN(fc) + 9 * VisN(tb) + 27 * BN(hc) + 54 * BN(xb = "pub") + 108 * BN(xc = "pub") + 216 * VisN(fm)
             + 5 * HostN(hm) + 7 * HostN(hb) + 11 * HostN(hcc) + 13 * VisN(yc)) % Slices = Slice
         /\ g' = [NoGraph EXCEPT !.host = [main |-> hm, b |-> hb, c |-> hcc], !.tval = tv, !.f = [main |-> fm, b |-> fb, c |-> fc], !.x = [b |-> xb, c |-> xc], !.t = tb, !.y = yc, !.hasc = hc, !.cbare = cb, !.mainb = mb]
    /\ phase' = "pick2" /\ UNCHANGED <<inited, hist, out>>
YOn(gr) == gr.f.main = "none" /\ gr.t = "none" /\ gr.x.b = "priv" /\ gr.hasc /\ ~gr.cbare
PickImports ==
    /\ phase = "pick2"
    /\ \E imy \in { {}, {<<"y", "b">>}, {<<"y", "c">>} }, iby \in BOOLEAN, im \in SUBSET { <<"f", "b">>, <<"x", "b">>, <<"f", "c">>, <<"x", "c">>, <<"h", "b">>, <<"T", "b">> },
          ib \in SUBSET { <<"f", "c">>, <<"pc", "c">> },
          ic \in { S \in SUBSET { <<"f", "b">>, <<"f", "main">>, <<"pb", "b">> } : ~({<<"f", "b">>, <<"f", "main">>} \subseteq S) } :
         /\ (imy # {} \/ iby) => YOn(g)
         /\ g' = [g EXCEPT !.imp = [main |-> im \cup imy, b |-> ib \cup (IF iby THEN {<<"y", "c">>} ELSE {}), c |-> ic]]
    /\ phase' = "init" /\ UNCHANGED <<inited, hist, out>>

\* the host / compiler may visit the modules in any order
InitModule(m) ==
    /\ phase = "init" /\ Accepted(g) /\ m \in Reachable(g) /\ Exists(g, m) /\ m \notin {inited[j] : j \in 1..Len(inited)}
    /\ inited' = Append(inited, m) /\ hist' = [hist EXCEPT ![m] = 1]
    /\ UNCHANGED <<g, out, phase>>

RunMain ==
    /\ phase = "init" /\ Accepted(g)
    /\ \A m \in Reachable(g) : Exists(g, m) => m \in {inited[j] : j \in 1..Len(inited)}
    /\ out' = MainLines(g) /\ phase' = "done"
    /\ UNCHANGED <<g, inited, hist>>

Reject ==
    /\ phase = "init" /\ ~Accepted(g)
    /\ phase' = "rejected" /\ UNCHANGED <<g, inited, hist, out>>

Next == Pick \/ PickImports \/ (\E m \in Mods : InitModule(m)) \/ RunMain \/ Reject
Spec == Init /\ [][Next]_vars

-----------------------------------------------------------------------------
(* properties of the design *)
OnlyPubImportable ==
    Accepted(g) => \A m \in Reachable(g) : Exists(g, m) => \A it \in Imports(g, m) : Defined(g, it[2], it[1]) = "pub"
InitExactlyOnceBeforeMain ==
    phase = "done" => /\ \A m \in Reachable(g) : Exists(g, m) => Cardinality({j \in 1..Len(inited) : inited[j] = m}) = 1
                      /\ Len(inited) = Cardinality({m \in Reachable(g) : Exists(g, m)})
\* the printed lines do not depend on the order in which the modules were visited: `out` is a function of g
OrderIndependent == phase = "done" => out = MainLines(g)
ResolvesToDefiningModule ==
    Accepted(g) => \A m \in Reachable(g) : Exists(g, m) => \A n \in {"f", "x", "h", "y"} :
        LET d == Resolve(g, m, n) IN d # "" => Defined(g, d, n) # "none"

Finished == phase \in {"done", "rejected"}
Export == Finished => PrintT(<<"CASE", ToJson([g |-> [f |-> g.f, x |-> g.x, t |-> g.t, y |-> g.y, host |-> g.host, tval |-> g.tval, cbare |-> g.cbare, mainb |-> g.mainb, hasc |-> g.hasc,
                                                      imp |-> [m \in Mods |-> SetToSeq(g.imp[m])]],
                                               accepted |-> Accepted(g), unspecified |-> Unspecified(g), errors |-> SetToSeq(AllErrors(g)),
                                               out |-> IF Accepted(g) /\ ~Unspecified(g) THEN MainLines(g) ELSE <<>>])>>)
=============================================================================
