SPECIFICATION Spec
CONSTANTS
  Mode = "exh"
  Alphabet = {32, 10, 9, 97, 102, 95, 48, 49, 56, 46, 34, 39, 92, 120, 110, 47, 42, 61, 60, 62, 33, 124, 38, 94, 45, 43, 126, 40, 167, 233}
  MaxLen = 2
  PairLo = 1
  PairHi = 1
INVARIANTS Partition Monotone SpanIsLexeme LongestMatch KeywordsAreNotIdentifiers Deterministic Export
CHECK_DEADLOCK FALSE
