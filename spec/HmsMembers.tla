------------------------------ MODULE HmsMembers ------------------------------
(***************************************************************************)
(* Builtin members and indexing (C18): what each member with a sequential  *)
(* meaning returns and what it does to its receiver, on boundary receivers *)
(* and arguments.  Values are HmsValue's trees; text is a sequence of code *)
(* points (exported as [k|->"str", cs]): length, positions, prefixes and    *)
(* distances count characters, whatever their encoded size.                *)
(*                                                                         *)
(* A case is [recv, m, args]; Eval gives                                   *)
(*   [ok |-> TRUE, res |-> value, recv |-> receiver afterwards]  or        *)
(*   [ok |-> FALSE] (an interrupt: out of range, unwrap of none, ...).     *)
(* Negative indices count from the end; IndexNorm(i, n) is the position.   *)
(***************************************************************************)
EXTENDS Integers, Sequences, FiniteSets, TLC, Json, SequencesExt

VARIABLES c, done
vars == <<c, done>>

VI(n) == [k |-> "int", v |-> n]
VB(x) == [k |-> "bool", v |-> x]
VStr(cs) == [k |-> "str", cs |-> cs]
VNull == [k |-> "null"]
VNone == [k |-> "opt", some |-> FALSE]
VSome(x) == [k |-> "opt", some |-> TRUE, v |-> x]
VList(es) == [k |-> "list", es |-> es]
VRange(l, r, incl) == [k |-> "range", l |-> l, r |-> r, incl |-> incl]
VF(h) == [k |-> "flt", v |-> h]                 \* a float, written as twice its value (halves are enough here)
VAny(ks, vs) == [k |-> "anyobj", ks |-> ks, vs |-> vs]   \* keys (texts, ascending) and their values

Ok(res, recv) == [ok |-> TRUE, res |-> res, recv |-> recv]
Interrupt == [ok |-> FALSE]

IndexNorm(i, n) == IF i < 0 THEN i + n ELSE i

\* insertion into a sequence before 1-based position p
MemInsertAt(s, p, x) == SubSeq(s, 1, p - 1) \o <<x>> \o SubSeq(s, p, Len(s))
MemRemoveAt(s, p) == SubSeq(s, 1, p - 1) \o SubSeq(s, p + 1, Len(s))

\* text is ordered by code points (= the byte order of its UTF-8 form)
RECURSIVE TextLess(_, _)
TextLess(a, b) ==
    IF a = <<>> THEN b # <<>>
    ELSE IF b = <<>> THEN FALSE
    ELSE IF a[1] # b[1] THEN a[1] < b[1] ELSE TextLess(Tail(a), Tail(b))
ElemLess(x, y) == IF x.k = "str" THEN TextLess(x.cs, y.cs) ELSE x.v < y.v

\* sorted permutation of a sequence of ints / floats / texts (insertion of each element)
RECURSIVE SortInts(_)
SortInts(s) ==
    IF s = <<>> THEN <<>>
    ELSE LET rest == SortInts(Tail(s))
             x == Head(s)
             pos == Cardinality({j \in 1..Len(rest) : ElemLess(rest[j], x)}) + 1 IN
         MemInsertAt(rest, pos, x)

\* text helpers
StartsAt(s, p, w) == p + Len(w) - 1 <= Len(s) /\ \A j \in 1..Len(w) : s[p + j - 1] = w[j]
ContainsSub(s, w) == \E p \in 1..(Len(s) + 1) : StartsAt(s, p, w)
RECURSIVE Repeat(_, _)
Repeat(s, n) == IF n <= 0 THEN <<>> ELSE s \o Repeat(s, n - 1)
RECURSIVE SplitOn(_, _, _)
\* split at every occurrence of the one-character separator
SplitOn(s, sep, acc) ==
    IF s = <<>> THEN <<acc>>
    ELSE IF Head(s) = sep THEN <<acc>> \o SplitOn(Tail(s), sep, <<>>)
    ELSE SplitOn(Tail(s), sep, Append(acc, Head(s)))
IsDigits(s) == s # <<>> /\ \A j \in 1..Len(s) : s[j] >= 48 /\ s[j] <= 57
RECURSIVE DigitsVal(_)
DigitsVal(s) == IF s = <<>> THEN 0 ELSE DigitsVal(SubSeq(s, 1, Len(s) - 1)) * 10 + (s[Len(s)] - 48)
\* an optional sign, then digits
IsIntText(s) == IsDigits(s) \/ (Len(s) > 1 /\ s[1] \in {43, 45} /\ IsDigits(Tail(s)))
IntTextVal(s) == IF s[1] = 45 THEN 0 - DigitsVal(Tail(s)) ELSE IF s[1] = 43 THEN DigitsVal(Tail(s)) ELSE DigitsVal(s)
RECURSIVE NatText(_)
NatText(n) == IF n < 10 THEN <<48 + n>> ELSE NatText(n \div 10) \o <<48 + (n % 10)>>
IntText(n) == IF n < 0 THEN <<45>> \o NatText(0 - n) ELSE NatText(n)
TrueText == <<116, 114, 117, 101>>
FalseText == <<102, 97, 108, 115, 101>>
\* how an element reads inside join: text as it is, numbers in decimal
ShowElem(e) == CASE e.k = "str" -> e.cs [] e.k = "int" -> IntText(e.v) [] e.k = "bool" -> IF e.v THEN TrueText ELSE FalseText
RECURSIVE JoinSeq(_, _)
JoinSeq(es, sep) ==
    IF es = <<>> THEN <<>>
    ELSE IF Len(es) = 1 THEN ShowElem(es[1])
    ELSE ShowElem(es[1]) \o sep \o JoinSeq(Tail(es), sep)
\* how a value reads when displayed (to_string, println): text bare, lists in brackets, options as none / Some(x)
RECURSIVE Show(_)
Show(v) ==
    CASE v.k = "str" -> v.cs
      [] v.k = "int" -> IntText(v.v)
      [] v.k = "bool" -> IF v.v THEN TrueText ELSE FalseText
      [] v.k = "null" -> <<110, 117, 108, 108>>
      [] v.k = "range" -> IntText(v.l) \o <<46, 46>> \o IntText(v.r)
      [] v.k = "opt" -> IF v.some THEN <<83, 111, 109, 101, 40>> \o Show(v.v) \o <<41>> ELSE <<110, 111, 110, 101>>
      [] v.k = "list" -> LET body == FoldLeft(LAMBDA acc, e : IF acc = <<>> THEN <<0>> \o Show(e) ELSE acc \o <<44, 32>> \o Show(e), <<>>, v.es) IN
                         <<91>> \o (IF body = <<>> THEN <<>> ELSE Tail(body)) \o <<93>>
\* (the folds mark "something was written" with a leading 0, removed afterwards, so that an empty first element still gets its separator)
\* compact JSON of ints, bools, plain text (no characters that need escaping here) and lists of them
RECURSIVE JsonText(_)
JsonText(v) ==
    CASE v.k = "str" -> <<34>> \o v.cs \o <<34>>
      [] v.k = "int" -> IntText(v.v)
      [] v.k = "bool" -> IF v.v THEN TrueText ELSE FalseText
      [] v.k = "list" -> LET body == FoldLeft(LAMBDA acc, e : IF acc = <<>> THEN <<0>> \o JsonText(e) ELSE acc \o <<44>> \o JsonText(e), <<>>, v.es) IN
                         <<91>> \o (IF body = <<>> THEN <<>> ELSE Tail(body)) \o <<93>>
\* every non-overlapping occurrence of the non-empty text a, left to right
RECURSIVE TextReplaceAll(_, _, _)
TextReplaceAll(s, a, b) ==
    IF s = <<>> THEN <<>>
    ELSE IF StartsAt(s, 1, a) THEN b \o TextReplaceAll(SubSeq(s, Len(a) + 1, Len(s)), a, b)
    ELSE <<s[1]>> \o TextReplaceAll(Tail(s), a, b)
\* simple case mapping of the letters used here (A-Z, a-z, 201 / 233)
Lower(ch) == IF (ch >= 65 /\ ch <= 90) \/ ch = 201 THEN ch + 32 ELSE ch
Upper(ch) == IF (ch >= 97 /\ ch <= 122) \/ ch = 233 THEN ch - 32 ELSE ch
\* edit distance over characters
RECURSIVE Lev(_, _)
Lev(a, b) ==
    IF a = <<>> THEN Len(b)
    ELSE IF b = <<>> THEN Len(a)
    ELSE LET x == Lev(Tail(a), b) + 1
             y == Lev(a, Tail(b)) + 1
             z == Lev(Tail(a), Tail(b)) + (IF a[1] = b[1] THEN 0 ELSE 1)
             m == IF x < y THEN x ELSE y IN
         IF m < z THEN m ELSE z

ListMember(r, m, args) ==
    LET es == r.es
        n == Len(es) IN
    CASE m = "len" -> Ok(VI(n), r)
      [] m = "push" -> Ok(VNull, VList(Append(es, args[1])))
      [] m = "push_front" -> Ok(VNull, VList(<<args[1]>> \o es))
      [] m = "pop" -> IF n = 0 THEN Ok(VNone, r) ELSE Ok(VSome(es[n]), VList(SubSeq(es, 1, n - 1)))
      [] m = "pop_front" -> IF n = 0 THEN Ok(VNone, r) ELSE Ok(VSome(es[1]), VList(Tail(es)))
      [] m = "last" -> IF n = 0 THEN Ok(VNone, r) ELSE Ok(VSome(es[n]), r)
      [] m = "contains" -> Ok(VB(\E j \in 1..n : es[j] = args[1]), r)
      [] m = "concat" -> Ok(VNull, VList(es \o args[1].es))
      [] m = "insert" -> LET p == IndexNorm(args[1].v, n) IN
                         IF p < 0 \/ p > n THEN Interrupt ELSE Ok(VNull, VList(MemInsertAt(es, p + 1, args[2])))
      [] m = "remove" -> LET p == IndexNorm(args[1].v, n) IN
                         IF p < 0 \/ p >= n THEN Interrupt ELSE Ok(VNull, VList(MemRemoveAt(es, p + 1)))
      [] m = "sort" -> Ok(VNull, VList(SortInts(es)))
      [] m = "join" -> Ok(VStr(JoinSeq(es, args[1].cs)), r)
      [] m = "to_string" -> Ok(VStr(Show(r)), r)
      [] m = "to_json" -> Ok(VStr(JsonText(r)), r)
      [] m = "index" -> LET p == IndexNorm(args[1].v, n) IN
                        IF p < 0 \/ p >= n THEN Interrupt ELSE Ok(es[p + 1], r)

OptMember(r, m, args) ==
    CASE m = "is_some" -> Ok(VB(r.some), r)
      [] m = "is_none" -> Ok(VB(~r.some), r)
      [] m = "unwrap" -> IF r.some THEN Ok(r.v, r) ELSE Interrupt
      [] m = "expect" -> IF r.some THEN Ok(r.v, r) ELSE Interrupt
      [] m = "unwrap_or" -> Ok(IF r.some THEN r.v ELSE args[1], r)
      [] m = "to_string" -> Ok(VStr(Show(r)), r)

RangeMember(r, m, args) ==
    CASE m = "start" -> Ok(VI(r.l), r)
      [] m = "end" -> Ok(VI(r.r), r)
      [] m = "rev" -> Ok(VRange(r.r, r.l, r.incl), r)
      [] m = "diff" -> Ok(VI(IF r.l > r.r THEN r.l - r.r ELSE r.r - r.l), r)
      [] m = "to_string" -> Ok(VStr(Show(r)), r)

IntMember(r, m, args) ==
    CASE m = "to_range" -> Ok(VRange(0, r.v, FALSE), r)
      [] m = "to_string" -> Ok(VStr(IntText(r.v)), r)

BoolMember(r, m, args) ==
    CASE m = "to_string" -> Ok(VStr(IF r.v THEN TrueText ELSE FalseText), r)

\* r.v is twice the float: round goes half away from zero, trunc towards zero
FloatMember(r, m, args) ==
    LET h == r.v IN
    CASE m = "is_int" -> Ok(VB(h % 2 = 0), r)
      [] m = "trunc" -> Ok(VI(IF h >= 0 THEN h \div 2 ELSE 0 - ((0 - h) \div 2)), r)
      [] m = "round" -> Ok(VI(IF h >= 0 THEN (h + 1) \div 2 ELSE 0 - ((1 - h) \div 2)), r)

\* any-objects: keys are kept ascending
AnyPos(r, key) == { j \in 1..Len(r.ks) : r.ks[j] = key }
TypeName(v) == CASE v.k = "int" -> <<105, 110, 116>> [] v.k = "str" -> <<115, 116, 114>> [] v.k = "bool" -> <<98, 111, 111, 108>>
AnyMember(r, m, args) ==
    CASE m = "keys" -> Ok(VList([j \in 1..Len(r.ks) |-> VStr(r.ks[j])]), r)
      [] m = "get" -> IF AnyPos(r, args[1].cs) = {} THEN Ok(VNone, r)
                      ELSE Ok(VSome(r.vs[CHOOSE j \in AnyPos(r, args[1].cs) : TRUE]), r)
      [] m = "get_type" -> IF AnyPos(r, args[1].cs) = {} THEN [ok |-> TRUE, undecided |-> TRUE]
                           ELSE Ok(VStr(TypeName(r.vs[CHOOSE j \in AnyPos(r, args[1].cs) : TRUE])), r)
      [] m = "set" -> IF AnyPos(r, args[1].cs) # {}
                      THEN Ok(VNull, VAny(r.ks, [r.vs EXCEPT ![CHOOSE j \in AnyPos(r, args[1].cs) : TRUE] = args[2]]))
                      ELSE LET pos == Cardinality({j \in 1..Len(r.ks) : TextLess(r.ks[j], args[1].cs)}) + 1 IN
                           Ok(VNull, VAny(MemInsertAt(r.ks, pos, args[1].cs), MemInsertAt(r.vs, pos, args[2])))

StrMember(r, m, args) ==
    LET s == r.cs
        n == Len(s) IN
    CASE m = "len" -> Ok(VI(n), r)
      [] m = "contains" -> Ok(VB(ContainsSub(s, args[1].cs)), r)
      [] m = "starts_with" -> Ok(VB(StartsAt(s, 1, args[1].cs)), r)
      [] m = "repeat" -> IF args[1].v < 0 THEN Interrupt ELSE Ok(VStr(Repeat(s, args[1].v)), r)
      [] m = "substring" -> IF args[1].v < 0 \/ args[1].v > n THEN Interrupt ELSE Ok(VStr(SubSeq(s, 1, args[1].v)), r)
      [] m = "split" -> IF Len(args[1].cs) = 1
                        THEN Ok(VList([j \in 1..Len(SplitOn(s, args[1].cs[1], <<>>)) |-> VStr(SplitOn(s, args[1].cs[1], <<>>)[j])]), r)
                        ELSE [ok |-> TRUE, undecided |-> TRUE]
      [] m = "parse_int" -> IF IsIntText(s) /\ n <= 7 THEN Ok(VI(IntTextVal(s)), r) ELSE Interrupt
      [] m = "replace" -> IF args[1].cs = <<>> THEN [ok |-> TRUE, undecided |-> TRUE]
                          ELSE Ok(VStr(TextReplaceAll(s, args[1].cs, args[2].cs)), r)
      [] m = "to_lower" -> Ok(VStr([j \in 1..n |-> Lower(s[j])]), r)
      [] m = "to_upper" -> Ok(VStr([j \in 1..n |-> Upper(s[j])]), r)
      [] m = "compare_lev" -> Ok(VI(Lev(s, args[1].cs)), r)
      [] m = "parse_bool" -> IF s = <<116,114,117,101>> THEN Ok(VB(TRUE), r) ELSE IF s = <<102,97,108,115,101>> THEN Ok(VB(FALSE), r) ELSE Interrupt
      [] m = "index" -> LET p == IndexNorm(args[1].v, n) IN
                        IF p < 0 \/ p >= n THEN Interrupt ELSE Ok(VStr(<<s[p + 1]>>), r)

Eval(x) ==
    CASE x.recv.k = "list" -> ListMember(x.recv, x.m, x.args)
      [] x.recv.k = "opt" -> OptMember(x.recv, x.m, x.args)
      [] x.recv.k = "range" -> RangeMember(x.recv, x.m, x.args)
      [] x.recv.k = "int" -> IntMember(x.recv, x.m, x.args)
      [] x.recv.k = "str" -> StrMember(x.recv, x.m, x.args)
      [] x.recv.k = "bool" -> BoolMember(x.recv, x.m, x.args)
      [] x.recv.k = "flt" -> FloatMember(x.recv, x.m, x.args)
      [] x.recv.k = "anyobj" -> AnyMember(x.recv, x.m, x.args)

-----------------------------------------------------------------------------
(* boundary receivers and arguments *)
Idx(n) == { -n - 1, -n, -1, 0, n - 1, n, n + 1 }
Txt(t) == VStr(t)
IntLists == { VList(<<>>), VList(<<VI(5)>>), VList(<<VI(5), VI(6), VI(7)>>), VList(<<VI(3), VI(1), VI(2), VI(1)>>), VList(<<VI(-4), VI(0), VI(120)>>) }
\* lists of texts: the empty text first, in the middle, alone, twice; texts to sort (prefixes, capitals, non-ASCII)
TxtLists == { VList(<<>>), VList(<<Txt(<<>>)>>), VList(<<Txt(<<>>), Txt(<<98>>)>>), VList(<<Txt(<<>>), Txt(<<>>)>>),
              VList(<<Txt(<<97>>), Txt(<<>>), Txt(<<99>>)>>), VList(<<Txt(<<98>>), Txt(<<97, 98>>), Txt(<<97>>), Txt(<<66>>), Txt(<<233>>)>>) }
Lists == IntLists \cup TxtLists
NewElem(l) == IF l \in TxtLists THEN Txt(<<122>>) ELSE VI(9)
OldElem(l) == IF l \in TxtLists THEN Txt(<<>>) ELSE VI(1)
\* texts: ASCII, a two-byte and a four-byte character at the start, in the middle, at the end; signed numbers
Strs == { Txt(<<>>), Txt(<<97>>), Txt(<<97,98,99>>), Txt(<<97,44,98>>), Txt(<<49,50>>), Txt(TrueText), Txt(<<44>>),
          Txt(<<233>>), Txt(<<97,233,98>>), Txt(<<128512,97>>), Txt(<<97,98,233>>), Txt(<<45,53>>), Txt(<<43,55>>), Txt(<<45>>),
          Txt(<<65,98,65>>), Txt(<<97,97,97>>) }
Seps == { Txt(<<>>), Txt(<<44>>), Txt(<<44, 32>>) }
Flts == { VF(0), VF(6), VF(5), VF(-5), VF(7), VF(-3), VF(-4), VF(1), VF(-1) }
Anys == { VAny(<<>>, <<>>), VAny(<< <<97>> >>, <<VI(1)>>), VAny(<< <<97>>, <<99>> >>, <<VI(1), Txt(<<120>>)>>) }
Keys == { Txt(<<97>>), Txt(<<98>>), Txt(<<99>>), Txt(<<>>) }
Opts == { VNone, VSome(VI(4)) }
Ranges == { VRange(0, 3, FALSE), VRange(3, 0, TRUE), VRange(2, 2, FALSE) }

Cases ==
    UNION { { [recv |-> l, m |-> m, args |-> <<>>] : m \in {"len", "pop", "pop_front", "last", "sort", "to_string", "to_json"} } : l \in Lists }
    \cup { [recv |-> VList(<<l, l2>>), m |-> m, args |-> <<>>] : l \in IntLists, l2 \in IntLists, m \in {"to_string", "to_json", "len"} }
    \cup UNION { { [recv |-> l, m |-> m, args |-> <<NewElem(l)>>] : m \in {"push", "push_front", "contains"} } : l \in Lists }
    \cup { [recv |-> l, m |-> "contains", args |-> <<OldElem(l)>>] : l \in Lists }
    \cup { [recv |-> l, m |-> "concat", args |-> <<l2>>] : l \in IntLists, l2 \in IntLists }
    \cup { [recv |-> l, m |-> "concat", args |-> <<l2>>] : l \in TxtLists, l2 \in TxtLists }
    \cup { [recv |-> l, m |-> "join", args |-> <<sp>>] : l \in Lists, sp \in Seps }
    \cup UNION { { [recv |-> l, m |-> "insert", args |-> <<VI(i), NewElem(l)>>] : i \in Idx(Len(l.es)) } : l \in Lists }
    \cup UNION { { [recv |-> l, m |-> "remove", args |-> <<VI(i)>>] : i \in Idx(Len(l.es)) } : l \in Lists }
    \cup UNION { { [recv |-> l, m |-> "index", args |-> <<VI(i)>>] : i \in Idx(Len(l.es)) } : l \in Lists }
    \cup UNION { { [recv |-> o, m |-> m, args |-> <<>>] : m \in {"is_some", "is_none", "unwrap", "to_string"} } : o \in Opts }
    \cup { [recv |-> o, m |-> "unwrap_or", args |-> <<VI(8)>>] : o \in Opts }
    \cup { [recv |-> o, m |-> "expect", args |-> <<Txt(<<109>>)>>] : o \in Opts }
    \cup UNION { { [recv |-> r, m |-> m, args |-> <<>>] : m \in {"start", "end", "rev", "diff", "to_string"} } : r \in Ranges }
    \cup { [recv |-> VI(n), m |-> "to_range", args |-> <<>>] : n \in {0, 3} }
    \cup { [recv |-> VI(n), m |-> "to_string", args |-> <<>>] : n \in {0, 7, -7, 10, -120, 12345, 1000000007} }
    \cup { [recv |-> VB(b), m |-> "to_string", args |-> <<>>] : b \in BOOLEAN }
    \cup { [recv |-> f, m |-> m, args |-> <<>>] : f \in Flts, m \in {"is_int", "trunc", "round"} }
    \cup { [recv |-> a, m |-> "keys", args |-> <<>>] : a \in Anys }
    \cup { [recv |-> a, m |-> m, args |-> <<key>>] : a \in Anys, key \in Keys, m \in {"get", "get_type"} }
    \cup { [recv |-> a, m |-> "set", args |-> <<key, v>>] : a \in Anys, key \in Keys, v \in {VI(8), Txt(<<121>>)} }
    \cup UNION { { [recv |-> s, m |-> m, args |-> <<>>] : m \in {"len", "parse_int", "parse_bool", "to_lower", "to_upper"} } : s \in Strs }
    \cup { [recv |-> s, m |-> m, args |-> <<s2>>] : s \in Strs, s2 \in Strs, m \in {"contains", "starts_with", "split", "compare_lev"} }
    \cup { [recv |-> s, m |-> "replace", args |-> <<s2, s3>>] : s \in Strs, s2 \in {Txt(<<>>), Txt(<<97>>), Txt(<<97, 97>>), Txt(<<233>>), Txt(<<97, 98>>)},
                                                               s3 \in {Txt(<<>>), Txt(<<97>>), Txt(<<120, 121>>)} }
    \cup UNION { { [recv |-> s, m |-> "repeat", args |-> <<VI(i)>>] : i \in {-1, 0, 1, 3} } : s \in Strs }
    \cup UNION { { [recv |-> s, m |-> "substring", args |-> <<VI(i)>>] : i \in Idx(Len(s.cs)) } : s \in Strs }
    \cup UNION { { [recv |-> s, m |-> "index", args |-> <<VI(i)>>] : i \in Idx(Len(s.cs)) } : s \in Strs }

Init == c \in Cases /\ done = FALSE
Finish == ~done /\ done' = TRUE /\ UNCHANGED c
Spec == Init /\ [][Finish]_vars

-----------------------------------------------------------------------------
(* sanity of the specification itself *)
R == Eval(c)
LenLaws ==
    (c.recv.k = "list" /\ R.ok /\ "recv" \in DOMAIN R) =>
        CASE c.m \in {"push", "push_front", "insert"} -> Len(R.recv.es) = Len(c.recv.es) + 1
          [] c.m = "remove" -> Len(R.recv.es) = Len(c.recv.es) - 1
          [] c.m \in {"pop", "pop_front"} -> Len(R.recv.es) = IF c.recv.es = <<>> THEN 0 ELSE Len(c.recv.es) - 1
          [] c.m = "sort" -> Len(R.recv.es) = Len(c.recv.es) /\ \A j \in 1..(Len(R.recv.es) - 1) : ~ElemLess(R.recv.es[j + 1], R.recv.es[j])
          [] OTHER -> TRUE

Export == done => PrintT(<<"CASE", ToJson([recv |-> c.recv, m |-> c.m, args |-> c.args, r |-> R])>>)
=============================================================================
