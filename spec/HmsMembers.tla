------------------------------ MODULE HmsMembers ------------------------------
(***************************************************************************)
(* Builtin members and indexing (C18): what each member with a sequential  *)
(* meaning returns and what it does to its receiver, on boundary receivers *)
(* and arguments.  Values are HmsValue's trees; text is a sequence of code *)
(* points (exported as [k|->"str", cs]).                                    *)
(*                                                                         *)
(* A case is [recv, m, args]; Eval gives                                   *)
(*   [ok |-> TRUE, res |-> value, recv |-> receiver afterwards]  or        *)
(*   [ok |-> FALSE] (an interrupt: out of range, unwrap of none, ...).     *)
(* Negative indices count from the end; IndexNorm(i, n) is the position.   *)
(***************************************************************************)
EXTENDS Integers, Sequences, FiniteSets, TLC, Json, SequencesExt

VARIABLES c, done
vars == <<c, done>>

VI(n) == [k |-> "int", v |-> n]
VB(x) == [k |-> "bool", v |-> x]
VStr(cs) == [k |-> "str", cs |-> cs]
VNull == [k |-> "null"]
VNone == [k |-> "opt", some |-> FALSE]
VSome(x) == [k |-> "opt", some |-> TRUE, v |-> x]
VList(es) == [k |-> "list", es |-> es]
VRange(l, r, incl) == [k |-> "range", l |-> l, r |-> r, incl |-> incl]

Ok(res, recv) == [ok |-> TRUE, res |-> res, recv |-> recv]
Interrupt == [ok |-> FALSE]

IndexNorm(i, n) == IF i < 0 THEN i + n ELSE i

\* insertion into a sequence before 1-based position p
MemInsertAt(s, p, x) == SubSeq(s, 1, p - 1) \o <<x>> \o SubSeq(s, p, Len(s))
MemRemoveAt(s, p) == SubSeq(s, 1, p - 1) \o SubSeq(s, p + 1, Len(s))

\* sorted permutation of a sequence of ints (stable insertion of each element)
RECURSIVE SortInts(_)
SortInts(s) ==
    IF s = <<>> THEN <<>>
    ELSE LET rest == SortInts(Tail(s))
             x == Head(s)
             pos == Cardinality({j \in 1..Len(rest) : rest[j].v < x.v}) + 1 IN
         MemInsertAt(rest, pos, x)

\* text helpers
StartsAt(s, p, w) == p + Len(w) - 1 <= Len(s) /\ \A j \in 1..Len(w) : s[p + j - 1] = w[j]
ContainsSub(s, w) == \E p \in 1..(Len(s) + 1) : StartsAt(s, p, w)
RECURSIVE Repeat(_, _)
Repeat(s, n) == IF n <= 0 THEN <<>> ELSE s \o Repeat(s, n - 1)
RECURSIVE SplitOn(_, _, _)
\* split at every occurrence of the one-character separator
SplitOn(s, sep, acc) ==
    IF s = <<>> THEN <<acc>>
    ELSE IF Head(s) = sep THEN <<acc>> \o SplitOn(Tail(s), sep, <<>>)
    ELSE SplitOn(Tail(s), sep, Append(acc, Head(s)))
IsDigits(s) == s # <<>> /\ \A j \in 1..Len(s) : s[j] >= 48 /\ s[j] <= 57
RECURSIVE DigitsVal(_)
DigitsVal(s) == IF s = <<>> THEN 0 ELSE DigitsVal(SubSeq(s, 1, Len(s) - 1)) * 10 + (s[Len(s)] - 48)

ListMember(r, m, args) ==
    LET es == r.es
        n == Len(es) IN
    CASE m = "len" -> Ok(VI(n), r)
      [] m = "push" -> Ok(VNull, VList(Append(es, args[1])))
      [] m = "push_front" -> Ok(VNull, VList(<<args[1]>> \o es))
      [] m = "pop" -> IF n = 0 THEN Ok(VNone, r) ELSE Ok(VSome(es[n]), VList(SubSeq(es, 1, n - 1)))
      [] m = "pop_front" -> IF n = 0 THEN Ok(VNone, r) ELSE Ok(VSome(es[1]), VList(Tail(es)))
      [] m = "last" -> IF n = 0 THEN Ok(VNone, r) ELSE Ok(VSome(es[n]), r)
      [] m = "contains" -> Ok(VB(\E j \in 1..n : es[j] = args[1]), r)
      [] m = "concat" -> Ok(VNull, VList(es \o args[1].es))
      [] m = "insert" -> LET p == IndexNorm(args[1].v, n) IN
                         IF p < 0 \/ p > n THEN Interrupt ELSE Ok(VNull, VList(MemInsertAt(es, p + 1, args[2])))
      [] m = "remove" -> LET p == IndexNorm(args[1].v, n) IN
                         IF p < 0 \/ p >= n THEN Interrupt ELSE Ok(VNull, VList(MemRemoveAt(es, p + 1)))
      [] m = "sort" -> Ok(VNull, VList(SortInts(es)))
      [] m = "index" -> LET p == IndexNorm(args[1].v, n) IN
                        IF p < 0 \/ p >= n THEN Interrupt ELSE Ok(es[p + 1], r)

OptMember(r, m, args) ==
    CASE m = "is_some" -> Ok(VB(r.some), r)
      [] m = "is_none" -> Ok(VB(~r.some), r)
      [] m = "unwrap" -> IF r.some THEN Ok(r.v, r) ELSE Interrupt
      [] m = "expect" -> IF r.some THEN Ok(r.v, r) ELSE Interrupt
      [] m = "unwrap_or" -> Ok(IF r.some THEN r.v ELSE args[1], r)

RangeMember(r, m, args) ==
    CASE m = "start" -> Ok(VI(r.l), r)
      [] m = "end" -> Ok(VI(r.r), r)
      [] m = "rev" -> Ok(VRange(r.r, r.l, r.incl), r)
      [] m = "diff" -> Ok(VI(IF r.l > r.r THEN r.l - r.r ELSE r.r - r.l), r)

IntMember(r, m, args) ==
    CASE m = "to_range" -> Ok(VRange(0, r.v, FALSE), r)

StrMember(r, m, args) ==
    LET s == r.cs
        n == Len(s) IN
    CASE m = "len" -> Ok(VI(n), r)
      [] m = "contains" -> Ok(VB(ContainsSub(s, args[1].cs)), r)
      [] m = "starts_with" -> Ok(VB(StartsAt(s, 1, args[1].cs)), r)
      [] m = "repeat" -> IF args[1].v < 0 THEN Interrupt ELSE Ok(VStr(Repeat(s, args[1].v)), r)
      [] m = "substring" -> IF args[1].v < 0 \/ args[1].v > n THEN Interrupt ELSE Ok(VStr(SubSeq(s, 1, args[1].v)), r)
      [] m = "split" -> IF Len(args[1].cs) = 1
                        THEN Ok(VList([j \in 1..Len(SplitOn(s, args[1].cs[1], <<>>)) |-> VStr(SplitOn(s, args[1].cs[1], <<>>)[j])]), r)
                        ELSE [ok |-> TRUE, undecided |-> TRUE]
      [] m = "parse_int" -> IF IsDigits(s) /\ n <= 6 THEN Ok(VI(DigitsVal(s)), r) ELSE Interrupt
      [] m = "parse_bool" -> IF s = <<116,114,117,101>> THEN Ok(VB(TRUE), r) ELSE IF s = <<102,97,108,115,101>> THEN Ok(VB(FALSE), r) ELSE Interrupt
      [] m = "index" -> LET p == IndexNorm(args[1].v, n) IN
                        IF p < 0 \/ p >= n THEN Interrupt ELSE Ok(VStr(<<s[p + 1]>>), r)

Eval(x) ==
    CASE x.recv.k = "list" -> ListMember(x.recv, x.m, x.args)
      [] x.recv.k = "opt" -> OptMember(x.recv, x.m, x.args)
      [] x.recv.k = "range" -> RangeMember(x.recv, x.m, x.args)
      [] x.recv.k = "int" -> IntMember(x.recv, x.m, x.args)
      [] x.recv.k = "str" -> StrMember(x.recv, x.m, x.args)

-----------------------------------------------------------------------------
(* boundary receivers and arguments *)
Lists == { VList(<<>>), VList(<<VI(5)>>), VList(<<VI(5), VI(6), VI(7)>>), VList(<<VI(3), VI(1), VI(2), VI(1)>>) }
Idx(n) == { -n - 1, -n, -1, 0, n - 1, n, n + 1 }
Txt(t) == VStr(t)
Strs == { Txt(<<>>), Txt(<<97>>), Txt(<<97,98,99>>), Txt(<<97,44,98>>), Txt(<<49,50>>), Txt(<<116,114,117,101>>), Txt(<<44>>) }
Opts == { VNone, VSome(VI(4)) }
Ranges == { VRange(0, 3, FALSE), VRange(3, 0, TRUE), VRange(2, 2, FALSE) }

Cases ==
    UNION { { [recv |-> l, m |-> m, args |-> <<>>] : m \in {"len", "pop", "pop_front", "last", "sort"} } : l \in Lists }
    \cup UNION { { [recv |-> l, m |-> m, args |-> <<VI(9)>>] : m \in {"push", "push_front", "contains"} } : l \in Lists }
    \cup { [recv |-> l, m |-> "contains", args |-> <<VI(1)>>] : l \in Lists }
    \cup { [recv |-> l, m |-> "concat", args |-> <<l2>>] : l \in Lists, l2 \in Lists }
    \cup UNION { { [recv |-> l, m |-> "insert", args |-> <<VI(i), VI(9)>>] : i \in Idx(Len(l.es)) } : l \in Lists }
    \cup UNION { { [recv |-> l, m |-> "remove", args |-> <<VI(i)>>] : i \in Idx(Len(l.es)) } : l \in Lists }
    \cup UNION { { [recv |-> l, m |-> "index", args |-> <<VI(i)>>] : i \in Idx(Len(l.es)) } : l \in Lists }
    \cup UNION { { [recv |-> o, m |-> m, args |-> <<>>] : m \in {"is_some", "is_none", "unwrap"} } : o \in Opts }
    \cup { [recv |-> o, m |-> "unwrap_or", args |-> <<VI(8)>>] : o \in Opts }
    \cup { [recv |-> o, m |-> "expect", args |-> <<Txt(<<109>>)>>] : o \in Opts }
    \cup UNION { { [recv |-> r, m |-> m, args |-> <<>>] : m \in {"start", "end", "rev", "diff"} } : r \in Ranges }
    \cup { [recv |-> VI(n), m |-> "to_range", args |-> <<>>] : n \in {0, 3} }
    \cup UNION { { [recv |-> s, m |-> m, args |-> <<>>] : m \in {"len", "parse_int", "parse_bool"} } : s \in Strs }
    \cup { [recv |-> s, m |-> m, args |-> <<s2>>] : s \in Strs, s2 \in Strs, m \in {"contains", "starts_with", "split"} }
    \cup UNION { { [recv |-> s, m |-> "repeat", args |-> <<VI(i)>>] : i \in {-1, 0, 1, 3} } : s \in Strs }
    \cup UNION { { [recv |-> s, m |-> "substring", args |-> <<VI(i)>>] : i \in Idx(Len(s.cs)) } : s \in Strs }
    \cup UNION { { [recv |-> s, m |-> "index", args |-> <<VI(i)>>] : i \in Idx(Len(s.cs)) } : s \in Strs }

Init == c \in Cases /\ done = FALSE
Finish == ~done /\ done' = TRUE /\ UNCHANGED c
Spec == Init /\ [][Finish]_vars

-----------------------------------------------------------------------------
(* sanity of the specification itself *)
R == Eval(c)
LenLaws ==
    (c.recv.k = "list" /\ R.ok /\ "recv" \in DOMAIN R) =>
        CASE c.m \in {"push", "push_front", "insert"} -> Len(R.recv.es) = Len(c.recv.es) + 1
          [] c.m = "remove" -> Len(R.recv.es) = Len(c.recv.es) - 1
          [] c.m \in {"pop", "pop_front"} -> Len(R.recv.es) = IF c.recv.es = <<>> THEN 0 ELSE Len(c.recv.es) - 1
          [] c.m = "sort" -> Len(R.recv.es) = Len(c.recv.es) /\ \A j \in 1..(Len(R.recv.es) - 1) : R.recv.es[j].v <= R.recv.es[j + 1].v
          [] OTHER -> TRUE

Export == done => PrintT(<<"CASE", ToJson([recv |-> c.recv, m |-> c.m, args |-> c.args, r |-> R])>>)
=============================================================================
