------------------------------- MODULE HmsInt64 -------------------------------
(***************************************************************************)
(* 64-bit two's-complement integer arithmetic of Homescript, specified on  *)
(* bit vectors (TLC's own integers are 32 bit).  A value is a sequence of  *)
(* 64 bits, least significant first.  This is a pure-function             *)
(* transcription: each operator is defined from first principles (ripple   *)
(* carry, shift-and-add, restoring division), iterated with the eagerly    *)
(* evaluated SequencesExt!FoldLeft.                                        *)
(*                                                                         *)
(* Decided here: + - * (wrapping), / % (truncating toward zero; MIN / -1   *)
(* wraps to MIN, MIN % -1 = 0; a zero divisor is a ValueError), unary -    *)
(* and ! (bitwise not), & | ^, << >> for counts 0..63 (>> arithmetic),     *)
(* the six comparisons, and ** for exponents 0..127 (wrapping product).    *)
(* Left undecided (the language defines nothing): shift counts outside     *)
(* 0..63, ** with a negative or a larger exponent.                         *)
(***************************************************************************)
EXTENDS Integers, Sequences, FiniteSets, TLC, Json, SequencesExt

VARIABLES c, done
vars == <<c, done>>

W == 64
Idx == [j \in 1..W |-> j]

Zero == [j \in 1..W |-> 0]
One == [j \in 1..W |-> IF j = 1 THEN 1 ELSE 0]
MinusOne == [j \in 1..W |-> 1]
MinInt == [j \in 1..W |-> IF j = W THEN 1 ELSE 0]
MaxInt == [j \in 1..W |-> IF j = W THEN 0 ELSE 1]

\* small constants from naturals below 2^31
FromNat(n) == [j \in 1..W |-> IF j <= 31 THEN (n \div (2 ^ (j - 1))) % 2 ELSE 0]

BNot(a) == [j \in 1..W |-> 1 - a[j]]
BAnd(a, b) == [j \in 1..W |-> IF a[j] = 1 /\ b[j] = 1 THEN 1 ELSE 0]
BOr(a, b) == [j \in 1..W |-> IF a[j] = 1 \/ b[j] = 1 THEN 1 ELSE 0]
BXor(a, b) == [j \in 1..W |-> IF a[j] # b[j] THEN 1 ELSE 0]

\* ripple-carry addition modulo 2^64
Add(a, b) ==
    FoldLeft(LAMBDA st, j : LET s == a[j] + b[j] + st.c IN [c |-> s \div 2, out |-> Append(st.out, s % 2)],
             [c |-> 0, out |-> <<>>], Idx).out

Neg(a) == Add(BNot(a), One)
Sub(a, b) == Add(a, Neg(b))

Shl(a, k) == [j \in 1..W |-> IF j - k >= 1 THEN a[j - k] ELSE 0]
ShrLogical(a, k) == [j \in 1..W |-> IF j + k <= W THEN a[j + k] ELSE 0]
ShrArith(a, k) == [j \in 1..W |-> IF j + k <= W THEN a[j + k] ELSE a[W]]

\* shift-and-add multiplication modulo 2^64
Mul(a, b) == FoldLeft(LAMBDA acc, j : IF b[j] = 1 THEN Add(acc, Shl(a, j - 1)) ELSE acc, Zero, Idx)

IsNeg(a) == a[W] = 1
IsZero(a) == \A j \in 1..W : a[j] = 0

\* unsigned comparison: the most significant differing bit decides
ULt(a, b) ==
    LET diff == {j \in 1..W : a[j] # b[j]} IN
    IF diff = {} THEN FALSE ELSE LET top == CHOOSE j \in diff : \A h \in diff : h <= j IN b[top] = 1
SLt(a, b) == IF IsNeg(a) # IsNeg(b) THEN IsNeg(a) ELSE ULt(a, b)
Abs(a) == IF IsNeg(a) THEN Neg(a) ELSE a       \* |MIN| = 2^63 as an unsigned pattern

\* restoring division on unsigned patterns: bits of the dividend from the top
UDivMod(n, d) ==
    FoldLeft(LAMBDA st, j :
                LET bit == n[W + 1 - j]
                    r1 == [h \in 1..W |-> IF h = 1 THEN bit ELSE st.r[h - 1]]      \* (r << 1) | bit
                IN IF ~ULt(r1, d) THEN [r |-> Sub(r1, d), q |-> [st.q EXCEPT ![W + 1 - j] = 1]]
                   ELSE [r |-> r1, q |-> st.q],
             [r |-> Zero, q |-> Zero], Idx)

DivTrunc(a, b) ==
    LET qr == UDivMod(Abs(a), Abs(b)) IN IF IsNeg(a) # IsNeg(b) THEN Neg(qr.q) ELSE qr.q
RemTrunc(a, b) ==
    LET qr == UDivMod(Abs(a), Abs(b)) IN IF IsNeg(a) THEN Neg(qr.r) ELSE qr.r

\* small natural value of a pattern (only used for shift counts and exponents), -1 if not small
SmallNat(a) == IF \A j \in 8..W : a[j] = 0 THEN a[1] + 2*a[2] + 4*a[3] + 8*a[4] + 16*a[5] + 32*a[6] + 64*a[7] ELSE -1

RECURSIVE PowRec(_, _)
PowRec(a, e) == IF e = 0 THEN One ELSE Mul(a, PowRec(a, e - 1))
Fits53(a) == LET m == Abs(a) IN \A j \in 54..W : m[j] = 0

Decided(v) == [k |-> "v", v |-> v]
DBool(x) == [k |-> "b", v |-> x]
Fatal == [k |-> "fatal"]
Undecided == [k |-> "undecided"]

Apply(op, a, b) ==
    CASE op = "+" -> Decided(Add(a, b))
      [] op = "-" -> Decided(Sub(a, b))
      [] op = "*" -> Decided(Mul(a, b))
      [] op = "/" -> IF IsZero(b) THEN Fatal ELSE Decided(DivTrunc(a, b))
      [] op = "%" -> IF IsZero(b) THEN Fatal ELSE Decided(RemTrunc(a, b))
      [] op = "&" -> Decided(BAnd(a, b))
      [] op = "|" -> Decided(BOr(a, b))
      [] op = "^" -> Decided(BXor(a, b))
      [] op = "<<" -> LET k == SmallNat(b) IN IF k >= 0 /\ k <= 63 THEN Decided(Shl(a, k)) ELSE Undecided
      [] op = ">>" -> LET k == SmallNat(b) IN IF k >= 0 /\ k <= 63 THEN Decided(ShrArith(a, k)) ELSE Undecided
      \* a non-negative exponent: the product of e factors, modulo 2^64 like every other product (exact where it fits);
      \* SmallNat covers exponents up to 127, beyond that and for negative exponents nothing is specified
      [] op = "**" -> LET e == SmallNat(b) IN
                      IF e < 0 THEN Undecided ELSE Decided(PowRec(a, e))
      [] op = "<" -> DBool(SLt(a, b))
      [] op = "<=" -> DBool(SLt(a, b) \/ a = b)
      [] op = ">" -> DBool(SLt(b, a))
      [] op = ">=" -> DBool(SLt(b, a) \/ a = b)
      [] op = "==" -> DBool(a = b)
      [] op = "!=" -> DBool(a # b)
      [] op = "neg" -> Decided(Neg(a))
      [] op = "not" -> Decided(BNot(a))

-----------------------------------------------------------------------------
(* boundary operands *)
Operands == { MinInt, Add(MinInt, One), Neg(FromNat(2)), MinusOne, Zero, One, FromNat(2), FromNat(3), FromNat(10), FromNat(63),
              FromNat(64), FromNat(65), FromNat(1000000007), Shl(One, 32), Sub(Shl(One, 53), One), Sub(MaxInt, One), MaxInt,
              Neg(FromNat(1000000007)), FromNat(7), FromNat(22), FromNat(40) }
BinOps == {"+", "-", "*", "/", "%", "&", "|", "^", "<<", ">>", "**", "<", "<=", ">", ">=", "==", "!="}

Init ==
    /\ done = FALSE
    /\ \/ \E op \in BinOps, a \in Operands, b \in Operands : c = [op |-> op, a |-> a, b |-> b]
       \/ \E op \in {"neg", "not"}, a \in Operands : c = [op |-> op, a |-> a, b |-> Zero]
Finish == ~done /\ done' = TRUE /\ UNCHANGED c
Spec == Init /\ [][Finish]_vars

-----------------------------------------------------------------------------
(* algebraic laws of the specification itself, checked on every enumerated case *)
R == Apply(c.op, c.a, c.b)
Laws ==
    /\ c.op = "+" => R.v = Apply("+", c.b, c.a).v /\ Sub(R.v, c.b) = c.a
    /\ c.op = "*" => R.v = Apply("*", c.b, c.a).v
    /\ (c.op = "/" /\ R.k = "v") => Add(Mul(R.v, c.b), RemTrunc(c.a, c.b)) = c.a       \* a = (a/b)*b + a%b
    /\ (c.op = "%" /\ R.k = "v" /\ ~IsZero(R.v)) => IsNeg(R.v) = IsNeg(c.a)             \* remainder has the dividend's sign
    /\ c.op = "neg" => Add(R.v, c.a) = Zero
    /\ c.op = "not" => Add(R.v, c.a) = MinusOne
    /\ c.op = "<" => (R.v <=> ~Apply(">=", c.a, c.b).v)
    /\ c.op = "^" => BXor(R.v, c.b) = c.a

Export == done => PrintT(<<"CASE", ToJson([op |-> c.op, a |-> c.a, b |-> c.b, r |-> R])>>)
=============================================================================
