------------------------------- MODULE TraceVM -------------------------------
(***************************************************************************)
(* Implementation -> specification for the bytecode machine: instruction   *)
(* traces recorded by the verif hooks (runtime/core.go, before every       *)
(* instruction) are replayed through the rules of HmsVM.  After every      *)
(* event the properties of HmsVM are evaluated on the reconstructed state; *)
(* the first violated one is kept in `viol` so that the report can name    *)
(* the property and the instruction.                                       *)
(*                                                                         *)
(* Events: Prog (lengths, signatures, limits), I (instruction, pre-state), *)
(* Catch (an exception was caught in frame f), Offer (core ends), Reset.   *)
(***************************************************************************)
EXTENDS HmsVM

Trace == ndJsonDeserialize("vm_trace.ndjson")

VARIABLES l, cores, prog
tvars == <<l, cores, prog>>

Ev == Trace[l]
NoProg == [sig |-> <<>>, lim |-> [call |-> 1000000, stack |-> 1000000, mem |-> 1000000000]]

Init == l = 1 /\ cores = <<>> /\ prog = NoProg

CoreOf(c) == LET hits == {j \in 1..Len(cores) : cores[j][1] = c} IN
             IF hits = {} THEN NoCore ELSE cores[CHOOSE j \in hits : TRUE][2]
SetCore(c, st) ==
    IF \E j \in 1..Len(cores) : cores[j][1] = c
    THEN [j \in 1..Len(cores) |-> IF cores[j][1] = c THEN <<c, st>> ELSE cores[j]]
    ELSE Append(cores, <<c, st>>)

SigOf(f) == IF f \in DOMAIN prog.sig THEN [known |-> TRUE, np |-> prog.sig[f].np, ret |-> prog.sig[f].ret]
            ELSE [known |-> FALSE, np |-> 0, ret |-> FALSE]

NewFrame(st, e, rip) ==
    LET sg == SigOf(e.f) IN
    [fn |-> e.f, act |-> st.acts + 1, base |-> e.sh, np |-> IF sg.known THEN sg.np ELSE e.sh, ret |-> sg.ret, known |-> sg.known,
     mp0 |-> e.mp, nh0 |-> e.nh, rip |-> rip]

\* does event e follow instruction p (the previous event of the same core) as p's rule says?
Follows(st, p, e) ==
    LET n == st.lastpush IN
    CASE p.op = "none" -> e.ip = 0
      [] p.op = "Jump" -> e.f = p.f /\ e.cs = p.cs /\ e.ip = p.a /\ e.sh = p.sh
      [] p.op = "JumpIfFalse" -> e.f = p.f /\ e.cs = p.cs /\ e.ip \in {p.a, p.ip + 1} /\ e.sh = p.sh - 1
      [] p.op = "Call_Imm" -> e.cs = p.cs + 1 /\ e.ip = 0 /\ e.f = p.s /\ e.sh = p.sh
      [] p.op = "Call_Val" -> \/ e.cs = p.cs + 1 /\ e.ip = 0 /\ e.sh = p.sh - 2
                              \/ e.cs = p.cs /\ e.f = p.f /\ e.ip = p.ip + 1 /\ e.sh \in {p.sh - 2 - n, p.sh - 1 - n}
      [] p.op = "Return" -> e.cs = p.cs - 1 /\ e.sh = p.sh /\ e.f = st.frames[Len(st.frames) - 1].fn /\ e.ip = Top(st.frames).rip
      [] p.op = "Throw" -> FALSE                                   \* an exception is raised: a Catch or an Offer follows
      [] OTHER -> e.f = p.f /\ e.cs = p.cs /\ e.ip = p.ip + 1 /\ e.sh \in HeightsAfter(p, n)
                  /\ e.mp = (IF p.op = "AddMempointer" THEN p.mp + p.a ELSE p.mp)
                  /\ e.nh = (IF p.op = "SetTryLabel" THEN p.nh + 1 ELSE IF p.op = "PopTryLabel" THEN p.nh - 1 ELSE p.nh)

\* the core state after the previous instruction p has executed and e is about to
Advance(st, p, e) ==
    LET frames1 == CASE p.op = "none" -> <<NewFrame(st, e, 0)>>
                     [] p.op = "Call_Imm" -> Append(st.frames, NewFrame(st, e, p.ip + 1))
                     [] p.op = "Call_Val" /\ e.cs = p.cs + 1 -> Append(st.frames, NewFrame(st, e, p.ip + 1))
                     [] p.op = "Return" -> Pop(st.frames)
                     [] OTHER -> st.frames
        handlers1 == CASE p.op = "SetTryLabel" -> Append(st.handlers, [cs |-> p.cs, sh |-> p.sh, mp |-> p.mp])
                       [] p.op = "PopTryLabel" /\ st.handlers # <<>> -> Pop(st.handlers)
                       [] OTHER -> st.handlers
        acts1 == IF Len(frames1) > Len(st.frames) THEN st.acts + 1 ELSE st.acts
    IN [st EXCEPT !.frames = frames1, !.handlers = handlers1, !.acts = acts1]

TInstr ==
    /\ l <= Len(Trace) /\ Ev.e = "I" /\ l' = l + 1
    /\ LET e == Ev
           st0 == CoreOf(e.c)
           p == st0.prev
           \* after a catch the handler's state is restored and the error object is the only new operand
           follows == IF p.op = "caught"
                      THEN e.sh = p.h.sh + 1 /\ e.mp = p.h.mp /\ e.cs = p.h.cs /\ e.nh = Len(st0.handlers)
                      ELSE Follows(st0, p, e)
           st1 == IF p.op = "caught" THEN st0 ELSE Advance(st0, p, e)
           v == IF st0.viol # "none" THEN st0.viol
                ELSE IF ~follows THEN "StepsFollow"
                ELSE IF st1.frames = <<>> \/ Len(st1.frames) # e.cs THEN "StepsFollow"
                ELSE Check(st1, e, prog.sig, prog.lim)
           fr == IF st1.frames = <<>> THEN [act |-> 0, base |-> 0] ELSE Top(st1.frames)
           seen1 == IF v = "none" /\ SeenGet(st1.seen, <<fr.act, e.ip>>) = <<>>
                    THEN Append(st1.seen, << <<fr.act, e.ip>>, <<e.sh - fr.base, e.mp, e.nh>> >>) ELSE st1.seen
       IN cores' = SetCore(e.c, [st1 EXCEPT !.prev = e, !.viol = v, !.seen = seen1,
                                            !.lastpush = IF e.op = "CopyPush" /\ "a" \in DOMAIN e THEN e.a ELSE st1.lastpush])
    /\ UNCHANGED prog

\* an exception was caught: frames above the handler's are gone, the handler's state is restored
TCatch ==
    /\ l <= Len(Trace) /\ Ev.e = "Catch" /\ l' = l + 1
    /\ LET st0 == CoreOf(Ev.c) IN
       IF st0.handlers = <<>> THEN cores' = SetCore(Ev.c, [st0 EXCEPT !.viol = IF st0.viol = "none" THEN "HandlersLive" ELSE st0.viol])
       ELSE LET h == Top(st0.handlers)
                frames1 == SubSeq(st0.frames, 1, h.cs) IN
            cores' = SetCore(Ev.c, [st0 EXCEPT !.frames = frames1, !.prev = [op |-> "caught", h |-> h],
                                               !.viol = IF st0.viol # "none" THEN st0.viol
                                                        ELSE IF frames1 = <<>> \/ Top(frames1).fn # Ev.a THEN "HandlersLive" ELSE "none"])
    /\ UNCHANGED prog

TOffer ==
    /\ l <= Len(Trace) /\ Ev.e = "Offer" /\ l' = l + 1
    /\ cores' = SetCore(Ev.c, [CoreOf(Ev.c) EXCEPT !.fin = TRUE])
    /\ UNCHANGED prog

TProg ==
    /\ l <= Len(Trace) /\ Ev.e = "Prog" /\ l' = l + 1
    /\ prog' = [sig |-> Ev.sig, lim |-> Ev.lim]
    /\ UNCHANGED cores

\* end of one execution: every core has ended in a status (EndsInStatus)
TReset ==
    /\ l <= Len(Trace) /\ Ev.e = "Reset" /\ l' = l + 1
    /\ \A j \in 1..Len(cores) : cores[j][2].fin
    /\ cores' = <<>> /\ prog' = NoProg

Next == TInstr \/ TCatch \/ TOffer \/ TProg \/ TReset
TraceSpec == Init /\ [][Next]_tvars

NoViolation == \A j \in 1..Len(cores) : cores[j][2].viol = "none"
TraceAccepted == TLCGet("stats").diameter - 1 = Len(Trace)
=============================================================================
