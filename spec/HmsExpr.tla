------------------------------- MODULE HmsExpr -------------------------------
(***************************************************************************)
(* The expression grammar of Homescript as an operator-precedence machine. *)
(*                                                                         *)
(* The binding table is the one the property (C07) states:                 *)
(*   assignment < || < && < | < ^ < & < equality < comparison < shift      *)
(*   < additive < multiplicative < as < power   (power right-associative,   *)
(*   every other binary operator left-associative); prefix operators bind  *)
(*   tighter than all of these and looser than call, index and member.     *)
(*                                                                         *)
(* The machine is a shunting-yard parser (operator stack + operand stack), *)
(* deliberately a different algorithm from the implementation's            *)
(* precedence-climbing recursion.  Input is a sequence of items:           *)
(*   [t |-> "opnd", x]   operand (identifier / literal / type name)        *)
(*   [t |-> "pre",  o]   prefix operator  - ! ?                            *)
(*   [t |-> "bin",  o]   infix operator, assignment operator or `as`       *)
(*   [t |-> "call"] [t |-> "idx", x] [t |-> "mem", x]   postfix forms      *)
(* Trees are tuples: <<"x",name>> <<"pre",o,e>> <<"bin",o,l,r>>            *)
(*   <<"asg",o,l,r>> <<"cast",e,ty>> <<"call",e>> <<"idx",e,x>>            *)
(*   <<"mem",e,x>>.                                                        *)
(***************************************************************************)
EXTENDS Integers, Sequences, FiniteSets, TLC, Json, SequencesExt

CONSTANTS Family,        \* "pairs" | "triples" | "deco" | "single"
          TripleOps      \* operators used by the "triples" family

VARIABLES cid, input, i, ops, outs, status,
          badlhs   \* an assignment with a left-hand side that is not a place was built

vars == <<cid, input, i, ops, outs, status, badlhs>>

-----------------------------------------------------------------------------
(* The operator table of the property, as levels (higher binds tighter).   *)
ExprAssignOps == {"=", "+=", "-=", "*=", "/=", "%=", "**=", "<<=", ">>=", "|=", "&=", "^="}
ExprLevel(o) ==
    CASE o \in ExprAssignOps          -> 1
      [] o = "||"                     -> 2
      [] o = "&&"                     -> 3
      [] o = "|"                      -> 4
      [] o = "^"                      -> 5
      [] o = "&"                      -> 6
      [] o \in {"==", "!="}           -> 7
      [] o \in {"<", ">", "<=", ">="} -> 8
      [] o \in {"<<", ">>"}           -> 9
      [] o \in {"+", "-"}             -> 10
      [] o \in {"*", "/", "%"}        -> 11
      [] o = "as"                     -> 12
      [] o = "**"                     -> 13
ExprRightAssoc(o) == o = "**"
ExprInfixOps == {"||", "&&", "|", "^", "&", "==", "!=", "<", ">", "<=", ">=", "<<", ">>",
                 "+", "-", "*", "/", "%", "**"}
ExprAllBin == ExprInfixOps \cup ExprAssignOps \cup {"as"}
ExprPrefixOps == {"-", "!", "?"}
\* one representative per level, plus a second member where a level has several
ExprLevelReps == {"=", "||", "&&", "|", "^", "&", "==", "<", "<<", "+", "*", "as", "**"}

\* An operator `top` on the stack is reduced before `inc` is shifted iff it binds at least
\* as tightly (strictly tighter when `inc` is right-associative).  A prefix operator on the
\* stack is always reduced before any binary operator is shifted.
ExprReduceBefore(top, inc) ==
    IF top.t = "pre" THEN TRUE
    ELSE \/ ExprLevel(top.o) > ExprLevel(inc)
         \/ ExprLevel(top.o) = ExprLevel(inc) /\ ~ExprRightAssoc(inc)

ExprIsPlace(t) == t[1] \in {"x", "idx", "mem", "cast"}

-----------------------------------------------------------------------------
(* Input families *)
Opnd(k) == [t |-> "opnd", x |-> k]
Bin(o)  == [t |-> "bin", o |-> o]
Pre(o)  == [t |-> "pre", o |-> o]

\* decorations of one operand: prefix items before it, postfix items behind it
ExprPostfix == { <<>>, <<[t |-> "call"]>>, <<[t |-> "idx", x |-> 9]>>, <<[t |-> "mem", x |-> 8]>>,
                 <<[t |-> "mem", x |-> 8], [t |-> "call"]>>, <<[t |-> "call"], [t |-> "idx", x |-> 9]>>,
                 <<[t |-> "idx", x |-> 9], [t |-> "mem", x |-> 8]>>, <<[t |-> "call"], [t |-> "call"]>> }
ExprPrefix  == { <<>>, <<Pre("-")>>, <<Pre("!")>>, <<Pre("?")>>, <<Pre("-"), Pre("-")>>, <<Pre("!"), Pre("-")>>,
                 <<Pre("-"), Pre("?")>> }
ExprDeco == {<<p, q>> : p \in ExprPrefix, q \in ExprPostfix}
Decorated(k, d) == d[1] \o <<Opnd(k)>> \o d[2]
Plain == <<<<>>, <<>>>>

\* operand k of a chain is a type name when it follows `as`
ChainOK(os, ds) ==
    \A k \in 1..Len(os) : os[k] = "as" => ds[k+1] = Plain

Chain(os, ds) ==   \* os: n operators, ds: n+1 decorations
    LET F[k \in 0..Len(os)] ==
            IF k = 0 THEN Decorated(0, ds[1])
            ELSE F[k-1] \o <<Bin(os[k])>> \o Decorated(k, ds[k+1])
    IN F[Len(os)]

\* The families are enumerated by quantifiers (not as one big set: TLC would have to
\* normalise a set of ~10^5 heterogeneous sequences, which takes minutes).
InitInput ==
    \/ /\ Family = "pairs"
       /\ \E n \in 1..2 : \E os \in [1..n -> ExprAllBin] :
             input = Chain(os, [k \in 1..(n+1) |-> Plain])
    \/ /\ Family = "triples"
       /\ \E os \in [1..3 -> TripleOps] : input = Chain(os, [k \in 1..4 |-> Plain])
    \/ /\ Family = "deco"
       \* one operator with both operands decorated; two operators with one decorated operand
       /\ \/ \E o \in ExprLevelReps, d1 \in ExprDeco, d2 \in ExprDeco :
                /\ (o = "as" => d2 = Plain)
                /\ input = Chain(<<o>>, <<d1, d2>>)
          \/ \E os \in [1..2 -> ExprLevelReps], w \in 1..3, d \in ExprDeco :
                /\ ((w > 1 /\ os[w-1] = "as") => d = Plain)
                /\ input = Chain(os, [k \in 1..3 |-> IF k = w THEN d ELSE Plain])
    \/ /\ Family = "single"
       /\ \E d \in ExprDeco : input = Decorated(0, d)

Init ==
    /\ InitInput
    /\ cid = input
    /\ i = 1 /\ ops = <<>> /\ outs = <<>> /\ status = "run" /\ badlhs = FALSE

-----------------------------------------------------------------------------
Running == status = "run"
Cur == input[i]
Top(s) == s[Len(s)]
Pop(s) == SubSeq(s, 1, Len(s) - 1)

ShiftOperand ==
    /\ Running /\ i <= Len(input) /\ Cur.t = "opnd"
    /\ outs' = Append(outs, <<"x", Cur.x>>)
    /\ i' = i + 1
    /\ UNCHANGED <<cid, input, ops, status, badlhs>>

ShiftPrefix ==
    /\ Running /\ i <= Len(input) /\ Cur.t = "pre"
    /\ ops' = Append(ops, Cur)
    /\ i' = i + 1
    /\ UNCHANGED <<cid, input, outs, status, badlhs>>

\* call, index and member apply to the operand that was just completed, before any
\* pending prefix or binary operator gets it.
ApplyPostfix ==
    /\ Running /\ i <= Len(input) /\ Cur.t \in {"call", "idx", "mem"}
    /\ LET e == Top(outs)
           n == CASE Cur.t = "call" -> <<"call", e>>
                  [] Cur.t = "idx"  -> <<"idx", e, Cur.x>>
                  [] Cur.t = "mem"  -> <<"mem", e, Cur.x>> IN
       outs' = Append(Pop(outs), n)
    /\ i' = i + 1
    /\ UNCHANGED <<cid, input, ops, status, badlhs>>

MustReduce ==
    /\ ops # <<>>
    /\ IF i > Len(input) THEN TRUE
       ELSE IF Cur.t = "bin" THEN ExprReduceBefore(Top(ops), Cur.o) ELSE FALSE

Reduce ==
    /\ Running /\ MustReduce
    /\ LET op == Top(ops) IN
       IF op.t = "pre" THEN
            /\ outs' = Append(Pop(outs), <<"pre", op.o, Top(outs)>>)
            /\ badlhs' = badlhs
       ELSE LET r == Top(outs)
                l == Top(Pop(outs))
                rest == Pop(Pop(outs)) IN
            IF op.o \in ExprAssignOps THEN
                /\ outs' = Append(rest, <<"asg", op.o, l, r>>)
                /\ badlhs' = (badlhs \/ ~ExprIsPlace(l))      \* RejectLhs
            ELSE
                /\ outs' = Append(rest, <<"bin", op.o, l, r>>)
                /\ badlhs' = badlhs
    /\ ops' = Pop(ops)
    /\ UNCHANGED <<cid, input, i, status>>

\* `as` takes a type, not an expression, on its right: once everything that binds tighter
\* on its left has been reduced, the cast node is complete.
ApplyCast ==
    /\ Running /\ i <= Len(input) /\ Cur.t = "bin" /\ Cur.o = "as" /\ ~MustReduce
    /\ outs' = Append(Pop(outs), <<"cast", Top(outs), input[i+1].x>>)
    /\ i' = i + 2
    /\ UNCHANGED <<cid, input, ops, status, badlhs>>

ShiftBinary ==
    /\ Running /\ i <= Len(input) /\ Cur.t = "bin" /\ Cur.o # "as" /\ ~MustReduce
    /\ ops' = Append(ops, Cur)
    /\ i' = i + 1
    /\ UNCHANGED <<cid, input, outs, status, badlhs>>

Finish ==
    /\ Running /\ i > Len(input) /\ ops = <<>>
    /\ status' = "done"
    /\ UNCHANGED <<cid, input, i, ops, outs, badlhs>>

Next == ShiftOperand \/ ShiftPrefix \/ ApplyPostfix \/ Reduce \/ ShiftBinary \/ ApplyCast \/ Finish
Spec == Init /\ [][Next]_vars

-----------------------------------------------------------------------------
(* Design properties *)

RECURSIVE ExprYield(_)
\* in-order traversal of a tree = the item sequence it was built from
ExprYield(t) ==
    CASE t[1] = "x"    -> <<Opnd(t[2])>>
      [] t[1] = "pre"  -> <<Pre(t[2])>> \o ExprYield(t[3])
      [] t[1] = "bin"  -> ExprYield(t[3]) \o <<Bin(t[2])>> \o ExprYield(t[4])
      [] t[1] = "asg"  -> ExprYield(t[3]) \o <<Bin(t[2])>> \o ExprYield(t[4])
      [] t[1] = "cast" -> ExprYield(t[2]) \o <<Bin("as"), Opnd(t[3])>>
      [] t[1] = "call" -> ExprYield(t[2]) \o <<[t |-> "call"]>>
      [] t[1] = "idx"  -> ExprYield(t[2]) \o <<[t |-> "idx", x |-> t[3]]>>
      [] t[1] = "mem"  -> ExprYield(t[2]) \o <<[t |-> "mem", x |-> t[3]]>>

YieldPreserved == status = "done" => ExprYield(outs[1]) = input

ExprOpOf(t) == IF t[1] \in {"bin", "asg"} THEN t[2] ELSE IF t[1] = "cast" THEN "as" ELSE "none"
ExprLeft(t)  == IF t[1] = "cast" THEN t[2] ELSE t[3]

RECURSIVE ExprWellShaped(_)
\* no binary node has a child that binds looser; equal levels lean left, right for the power operator;
\* a prefix node's operand is never a binary node; postfix bases are never prefix/binary nodes.
ExprWellShaped(t) ==
    CASE t[1] = "x" -> TRUE
      [] t[1] = "pre" -> ExprOpOf(t[3]) = "none" /\ ExprWellShaped(t[3])
      [] t[1] \in {"call", "idx", "mem"} -> t[2][1] \in {"x", "call", "idx", "mem"} /\ ExprWellShaped(t[2])
      [] OTHER ->
          LET o == ExprOpOf(t)
              l == ExprLeft(t)
              \* a cast is closed on its right (a type follows), so as a LEFT child it is as
              \* good as an atom: x as T ** y  is  (x as T) ** y
              lo == IF l[1] = "cast" /\ t[1] # "cast" THEN "none" ELSE ExprOpOf(l) IN
          /\ ExprWellShaped(l)
          /\ lo # "none" => \/ ExprLevel(lo) > ExprLevel(o)
                            \/ ExprLevel(lo) = ExprLevel(o) /\ ~ExprRightAssoc(o)
          /\ t[1] # "cast" =>
                LET r == t[4]
                    ro == ExprOpOf(r) IN
                /\ ExprWellShaped(r)
                /\ ro # "none" => \/ ExprLevel(ro) > ExprLevel(o)
                                  \/ ExprLevel(ro) = ExprLevel(o) /\ ExprRightAssoc(o)

NoLooserChild == status = "done" => ExprWellShaped(outs[1])

StacksConsistent == Running => Len(outs) <= Len(ops) + 1

Terminal == status = "done"
Export == Terminal => PrintT(<<"CASE", ToJson([input |-> input, tree |-> outs[1], badlhs |-> badlhs])>>)
=============================================================================
