------------------------------- MODULE HmsLex -------------------------------
(***************************************************************************)
(* The lexical grammar of Homescript (grammar.ebnf, "Tokens" section, plus *)
(* the token-kind names of lexer/token.go) as a state machine.             *)
(*                                                                         *)
(* Source text is a sequence of code points (naturals).  One action per    *)
(* token family; every action consumes one maximal lexeme (or one run of   *)
(* layout) starting at `pos`.  Positions are computed from `src` by the    *)
(* independent operators LineOf / ColOf, not by a running counter, so the  *)
(* spec does not share the implementation's way of tracking locations.     *)
(*                                                                         *)
(* Deliberate deviations from grammar.ebnf, named here:                    *)
(*   - \' and \" are accepted escape characters (the grammar omits them,   *)
(*     but without them a string could not contain its own quote).         *)
(*   - a line comment may be ended by end of input instead of LF.          *)
(*   - an unterminated block comment is either an error at the comment's   *)
(*     start or swallows the rest of the input (flag `lenient`): the       *)
(*     grammar does not define it; what may never happen is that part of   *)
(*     it comes back as tokens.                                            *)
(*   - `_` alone is the Underscore token, `on`/`off` are True/False.       *)
(***************************************************************************)
EXTENDS Integers, Sequences, FiniteSets, TLC, Json, SequencesExt

CONSTANTS
    Mode,       \* "exh" | "pairs" | "file"
    Alphabet,   \* set of code points (Mode = "exh")
    MaxLen,     \* maximal input length (Mode = "exh")
    PairLo, PairHi   \* slice of the first lexeme index (Mode = "pairs")

VARIABLES
    cid,     \* case id: keeps terminal states of different inputs apart
    src,     \* the input
    pos,     \* 1-based index of the next unread code point
    toks,    \* tokens produced so far
    segs,    \* every consumed segment [from, to, what] ("ws","lc","bc","tok")
    status,  \* "run" | "done" | "error"
    err,     \* [i |-> 0-based index where the offending construct starts, what]
    lenient  \* TRUE after an unterminated block comment

vars == <<cid, src, pos, toks, segs, status, err, lenient>>

-----------------------------------------------------------------------------
(* Character classes *)
LexIsDigit(c)  == c >= 48 /\ c <= 57
LexIsOct(c)    == c >= 48 /\ c <= 55
LexIsHex(c)    == LexIsDigit(c) \/ (c >= 65 /\ c <= 70) \/ (c >= 97 /\ c <= 102)
LexIsLetter(c) == (c >= 65 /\ c <= 90) \/ (c >= 97 /\ c <= 122) \/ c = 95
LexIsAlnum(c)  == LexIsLetter(c) \/ LexIsDigit(c)
LexIsDigU(c)   == LexIsDigit(c) \/ c = 95
LexIsWs(c)     == c \in {32, 10, 9, 13}

LexHexVal(c) == IF LexIsDigit(c) THEN c - 48 ELSE IF c >= 97 THEN c - 87 ELSE c - 55

At(s, p) == IF p >= 1 /\ p <= Len(s) THEN s[p] ELSE -1

\* Text helper: "abc" cannot be indexed in TLA+, so lexemes are code-point tuples.
\* The tables below are written with this tiny ASCII map to stay readable.
LexAscii == [ch \in {"#","?","@","$","_",";",",",":",".","-",">","=","~","(",")","{","}",
                     "[","]","|","&","!","<","+","*","/","%","^"} |->
    CASE ch = "#" -> 35 [] ch = "?" -> 63 [] ch = "@" -> 64 [] ch = "$" -> 36 [] ch = "_" -> 95
      [] ch = ";" -> 59 [] ch = "," -> 44 [] ch = ":" -> 58 [] ch = "." -> 46 [] ch = "-" -> 45
      [] ch = ">" -> 62 [] ch = "=" -> 61 [] ch = "~" -> 126 [] ch = "(" -> 40 [] ch = ")" -> 41
      [] ch = "{" -> 123 [] ch = "}" -> 125 [] ch = "[" -> 91 [] ch = "]" -> 93 [] ch = "|" -> 124
      [] ch = "&" -> 38 [] ch = "!" -> 33 [] ch = "<" -> 60 [] ch = "+" -> 43 [] ch = "*" -> 42
      [] ch = "/" -> 47 [] ch = "%" -> 37 [] ch = "^" -> 94]
A1(a)       == <<LexAscii[a]>>
A2(a, b)    == <<LexAscii[a], LexAscii[b]>>
A3(a, b, c) == <<LexAscii[a], LexAscii[b], LexAscii[c]>>

\* The operator / punctuation table: lexeme |-> token kind (names of lexer/token.go).
LexOps == {
    <<A1("#"), "HashTag">>, <<A1("?"), "QuestionMark">>, <<A1("@"), "AtSymbol">>,
    <<A1("$"), "DollarSymbol">>, <<A1(";"), "Semicolon">>, <<A1(","), "Comma">>,
    <<A1(":"), "Colon">>, <<A1("."), "Dot">>, <<A2(".", "."), "DoubleDot">>,
    <<A2("-", ">"), "Arrow">>, <<A2("=", ">"), "FatArrow">>, <<A2("~", ">"), "TildeArrow">>,
    <<A1("("), "LParen">>, <<A1(")"), "RParen">>, <<A1("{"), "LCurly">>, <<A1("}"), "RCurly">>,
    <<A1("["), "LBracket">>, <<A1("]"), "RBracket">>,
    <<A2("|", "|"), "Or">>, <<A2("&", "&"), "And">>, <<A2("=", "="), "Equal">>,
    <<A2("!", "="), "NotEqual">>, <<A1("<"), "LessThan">>, <<A2("<", "="), "LessThanEqual">>,
    <<A1(">"), "GreaterThan">>, <<A2(">", "="), "GreaterThanEqual">>, <<A1("!"), "Not">>,
    <<A1("+"), "Plus">>, <<A1("-"), "Minus">>, <<A1("*"), "Multiply">>, <<A1("/"), "Divide">>,
    <<A1("%"), "Modulo">>, <<A2("*", "*"), "Power">>, <<A2("<", "<"), "ShiftLeft">>,
    <<A2(">", ">"), "ShiftRight">>, <<A1("|"), "BitOr">>, <<A1("&"), "BitAnd">>,
    <<A1("^"), "BitXor">>,
    <<A1("="), "Assign">>, <<A2("+", "="), "PlusAssign">>, <<A2("-", "="), "MinusAssign">>,
    <<A2("*", "="), "MultiplyAssign">>, <<A2("/", "="), "DivideAssign">>,
    <<A3("*", "*", "="), "PowerAssign">>, <<A2("%", "="), "ModuloAssign">>,
    <<A3("<", "<", "="), "ShiftLeftAssign">>, <<A3(">", ">", "="), "ShiftRightAssign">>,
    <<A2("|", "="), "BitOrAssign">>, <<A2("&", "="), "BitAndAssign">>,
    <<A2("^", "="), "BitXorAssign">> }

\* Keywords, spelled as code points:  word |-> kind
LexKw(w) ==
    CASE w = <<116,114,117,101>> -> "True"        [] w = <<111,110>> -> "True"
      [] w = <<102,97,108,115,101>> -> "False"    [] w = <<111,102,102>> -> "False"
      [] w = <<110,117,108,108>> -> "Null"        [] w = <<110,111,110,101>> -> "None"
      [] w = <<112,117,98>> -> "Pub"              [] w = <<102,110>> -> "Fn"
      [] w = <<105,102>> -> "If"                  [] w = <<101,108,115,101>> -> "Else"
      [] w = <<109,97,116,99,104>> -> "Match"     [] w = <<102,111,114>> -> "For"
      [] w = <<119,104,105,108,101>> -> "While"   [] w = <<108,111,111,112>> -> "Loop"
      [] w = <<98,114,101,97,107>> -> "Break"     [] w = <<99,111,110,116,105,110,117,101>> -> "Continue"
      [] w = <<114,101,116,117,114,110>> -> "Return" [] w = <<105,109,112,111,114,116>> -> "Import"
      [] w = <<97,115>> -> "As"                   [] w = <<102,114,111,109>> -> "From"
      [] w = <<108,101,116>> -> "Let"             [] w = <<105,110>> -> "In"
      [] w = <<116,121,112,101>> -> "Type"        [] w = <<116,114,121>> -> "Try"
      [] w = <<99,97,116,99,104>> -> "Catch"      [] w = <<110,101,119>> -> "New"
      [] w = <<115,112,97,119,110>> -> "Spawn"    [] w = <<101,118,101,110,116>> -> "Event"
      [] w = <<105,109,112,108>> -> "Impl"        [] w = <<119,105,116,104>> -> "With"
      [] w = <<116,101,109,112,108>> -> "Templ"   [] w = <<116,114,105,103,103,101,114>> -> "Trigger"
      [] w = <<95>> -> "Underscore"
      [] OTHER -> "Identifier"

-----------------------------------------------------------------------------
(* Positions, computed from the text alone.  p is a 1-based index into s;  *)
(* p = Len(s)+1 is the end-of-input position.                              *)
LexNewlinesBefore(s, p) == Cardinality({k \in 1..(p-1) : s[k] = 10})
LexLastNlBefore(s, p) ==
    LET nls == {k \in 1..(p-1) : s[k] = 10} IN
    IF nls = {} THEN 0 ELSE CHOOSE k \in nls : \A j \in nls : j <= k
LineOf(s, p) == 1 + LexNewlinesBefore(s, p)
ColOf(s, p)  == p - LexLastNlBefore(s, p)
LocOf(s, p)  == [l |-> LineOf(s, p), c |-> ColOf(s, p), i |-> p - 1]

\* End (inclusive) of the maximal run of characters satisfying P, starting at p; p-1 if empty.
\* (TLC enumerates the interval in ascending order; the cheap boundary test comes first.)
RunEnd(s, p, P(_)) ==
    CHOOSE q \in (p-1)..Len(s) :
        /\ (q = Len(s) \/ ~P(s[q+1]))
        /\ \A k \in p..q : P(s[k])

StartsWith(s, p, w) == p + Len(w) - 1 <= Len(s) /\ \A k \in 1..Len(w) : s[p+k-1] = w[k]

MkTok(s, kind, val, from, to) ==
    [k |-> kind, v |-> val, s |-> LocOf(s, from), e |-> LocOf(s, to)]

-----------------------------------------------------------------------------
(* String literals: a left fold over the characters behind the opening     *)
(* quote, driving a small automaton.  FoldLeft is evaluated eagerly.       *)
(*  m: "n" normal | "e" just read a backslash | "d" reading digits         *)
(*     | "x" finished (closing quote seen) | "bad" invalid escape          *)
StrStep(q, a, ce) ==
    LET c == ce[1] IN
    IF a.m = "x" \/ a.m = "bad" THEN a
    ELSE IF a.m = "n" THEN
        IF c = q THEN [a EXCEPT !.m = "x", !.end = ce[2]]
        ELSE IF c = 92 THEN [a EXCEPT !.m = "e", !.esc = ce[2]]
        ELSE [a EXCEPT !.val = Append(a.val, c)]
    ELSE IF a.m = "e" THEN
        CASE c = 92  -> [a EXCEPT !.m = "n", !.val = Append(a.val, 92)]
          [] c = 39  -> [a EXCEPT !.m = "n", !.val = Append(a.val, 39)]
          [] c = 34  -> [a EXCEPT !.m = "n", !.val = Append(a.val, 34)]
          [] c = 98  -> [a EXCEPT !.m = "n", !.val = Append(a.val, 8)]
          [] c = 110 -> [a EXCEPT !.m = "n", !.val = Append(a.val, 10)]
          [] c = 114 -> [a EXCEPT !.m = "n", !.val = Append(a.val, 13)]
          [] c = 116 -> [a EXCEPT !.m = "n", !.val = Append(a.val, 9)]
          [] c = 120 -> [a EXCEPT !.m = "d", !.need = 2, !.radix = 16, !.code = 0]
          [] c = 117 -> [a EXCEPT !.m = "d", !.need = 4, !.radix = 16, !.code = 0]
          [] c = 85  -> [a EXCEPT !.m = "d", !.need = 8, !.radix = 16, !.code = 0]
          [] OTHER   -> IF LexIsOct(c)
                        THEN [a EXCEPT !.m = "d", !.need = 2, !.radix = 8, !.code = c - 48]
                        ELSE [a EXCEPT !.m = "bad"]
    ELSE \* "d"
        IF (a.radix = 16 /\ LexIsHex(c)) \/ (a.radix = 8 /\ LexIsOct(c)) THEN
            LET code == IF a.code > 16777215 THEN a.code   \* saturate: > 0x10FFFF is undefined anyway
                        ELSE a.code * a.radix + LexHexVal(c) IN
            IF a.need = 1 THEN [a EXCEPT !.m = "n", !.val = Append(a.val, code), !.need = 0]
            ELSE [a EXCEPT !.need = a.need - 1, !.code = code]
        ELSE [a EXCEPT !.m = "bad"]

\* result: [m, val, end (1-based index of the closing quote), esc (index of the last backslash)]
StrScan(s, p) ==
    LET q == s[p]
        rest == [k \in 1..(Len(s) - p) |-> <<s[p+k], p+k>>]
        init == [m |-> "n", val |-> <<>>, end |-> 0, esc |-> 0, need |-> 0, radix |-> 0, code |-> 0]
    IN FoldLeft(LAMBDA a, ce : StrStep(q, a, ce), init, rest)

-----------------------------------------------------------------------------
(* The token families.  Each operator says whether it applies at (s,p)    *)
(* and what it yields.                                                     *)

\* Numbers:  DIGIT {DIGIT|'_'} [ 'f' | '.' DIGIT {DIGIT|'_'} ]
NumTok(s, p) ==
    LET ie == RunEnd(s, p, LexIsDigU)
        hasFrac == At(s, ie+1) = 46 /\ LexIsDigit(At(s, ie+2))
        hasF == ~hasFrac /\ At(s, ie+1) = 102
        fe == IF hasFrac THEN RunEnd(s, ie+2, LexIsDigU) ELSE IF hasF THEN ie + 1 ELSE ie
        digits == SelectSeq(SubSeq(s, p, IF hasFrac THEN fe ELSE ie), LAMBDA c : c # 95)
    IN [tok |-> MkTok(s, IF hasFrac \/ hasF THEN "Float" ELSE "Int", digits, p, fe), next |-> fe + 1]

NameTok(s, p) ==
    LET e == RunEnd(s, p, LexIsAlnum)
        w == SubSeq(s, p, e)
    IN [tok |-> MkTok(s, LexKw(w), w, p, e), next |-> e + 1]

\* Longest operator of the table that is a prefix of the text at p.
OpMatches(s, p) == {o \in LexOps : StartsWith(s, p, o[1])}
OpTok(s, p) ==
    LET ms == OpMatches(s, p)
        o == CHOOSE x \in ms : \A y \in ms : Len(y[1]) <= Len(x[1])
    IN [tok |-> MkTok(s, o[2], o[1], p, p + Len(o[1]) - 1), next |-> p + Len(o[1])]

IsLineComment(s, p)  == At(s, p) = 47 /\ At(s, p+1) = 47
IsBlockComment(s, p) == At(s, p) = 47 /\ At(s, p+1) = 42

-----------------------------------------------------------------------------
(* Inputs *)

\* A catalogue of lexemes for the adjacency family ("pairs"): every operator and
\* punctuation sign, every keyword, identifier / number / string / escape shapes,
\* and unterminated forms.
LexCatWords == {
    <<116,114,117,101>>, <<111,110>>, <<102,97,108,115,101>>, <<111,102,102>>, <<110,117,108,108>>,
    <<110,111,110,101>>, <<112,117,98>>, <<102,110>>, <<105,102>>, <<101,108,115,101>>,
    <<109,97,116,99,104>>, <<102,111,114>>, <<119,104,105,108,101>>, <<108,111,111,112>>,
    <<98,114,101,97,107>>, <<99,111,110,116,105,110,117,101>>, <<114,101,116,117,114,110>>,
    <<105,109,112,111,114,116>>, <<97,115>>, <<102,114,111,109>>, <<108,101,116>>, <<105,110>>,
    <<116,121,112,101>>, <<116,114,121>>, <<99,97,116,99,104>>, <<110,101,119>>,
    <<115,112,97,119,110>>, <<101,118,101,110,116>>, <<105,109,112,108>>, <<119,105,116,104>>,
    <<116,101,109,112,108>>, <<116,114,105,103,103,101,114>>, <<95>>,
    \* identifier shapes: a  f  x1  _a  a_  fn1  iff  f1f  Ab  e5
    <<97>>, <<102>>, <<120,49>>, <<95,97>>, <<97,95>>, <<102,110,49>>, <<105,102,102>>, <<102,49,102>>,
    <<65,98>>, <<101,53>> }
LexCatNumbers == {
    <<49>>, <<49,48>>, <<49,95,48>>, <<49,95,95,48>>, <<49,95>>, <<49,48,95,48,48>>, <<49,46,53>>,
    <<49,46,53,95,48>>, <<49,102>>, <<49,48,102>>, <<49,46>>, <<48,55>>, <<49,46,53,102>>, <<49,95,102>>,
    <<57,50,50,51,51,55,50,48,51,54,56,53,52,55,55,53,56,48,56>> }
LexCatStrings == {
    <<34,34>>, <<39,39>>, <<34,97,34>>, <<39,97,39>>, <<34,39,34>>, <<39,34,39>>,
    <<34,92,92,34>>, <<34,92,34,34>>, <<39,92,39,39>>, <<34,92,98,34>>, <<34,92,110,34>>,
    <<34,92,114,34>>, <<34,92,116,34>>, <<34,92,49,48,49,34>>, <<34,92,48,48,48,34>>,
    <<34,92,120,52,49,34>>, <<34,92,120,101,57,34>>, <<34,92,117,48,48,101,57,34>>,
    <<34,92,117,50,48,97,99,34>>, <<34,92,85,48,48,48,49,70,54,48,48,34>>,
    <<34,233,34>>, <<34,128512,34>>, <<34,10,34>>, <<34,47,47,34>>, <<34,47,42,34>>,
    \* malformed: unterminated, unfinished / invalid escapes
    <<34>>, <<34,97>>, <<34,92>>, <<34,92,34>>, <<34,92,113,34>>, <<34,92,120,52,34>>,
    <<34,92,120,103,48,34>>, <<34,92,117,48,48,101,34>>, <<34,92,49,56,48,34>>, <<34,92,49,48,34>> }
LexCatOther == { <<47,42,99,42,47>>, <<47,47,99,10>>, <<47,42>>, <<47,42,97>>, <<47,42,42>>, <<47,42,47>>,
                 <<47,47>>, <<126>>, <<167>>, <<0>>, <<92>>, <<96>>, <<9>>, <<13>>, <<13,10>> }
LexCatalogueSet == {o[1] : o \in LexOps} \cup LexCatWords \cup LexCatNumbers \cup LexCatStrings \cup LexCatOther
LexCatalogue == SetToSeq(LexCatalogueSet)
LexSeparators == << <<>>, <<32>>, <<10>>, <<9>>, <<47,42,99,42,47>>, <<47,47,99,10>> >>

LexStrings(n) == UNION {[1..k -> Alphabet] : k \in 0..n}

-----------------------------------------------------------------------------
Init ==
    /\ pos = 1 /\ toks = <<>> /\ segs = <<>> /\ status = "run"
    /\ err = [i |-> -1, what |-> ""] /\ lenient = FALSE
    /\ \/ /\ Mode = "exh"
          /\ src \in LexStrings(MaxLen)
          /\ cid = src
       \/ /\ Mode = "pairs"
          /\ \E a \in { i \in PairLo..PairHi : i <= Len(LexCatalogue) }, b \in 1..Len(LexCatalogue), sp \in 1..Len(LexSeparators) :
                /\ src = LexCatalogue[a] \o LexSeparators[sp] \o LexCatalogue[b]
                /\ cid = <<a, sp, b>>

Running == status = "run"
Seg(from, to, what) == [from |-> from, to |-> to, what |-> what]
Emit(r) ==
    /\ toks' = Append(toks, r.tok)
    /\ segs' = Append(segs, Seg(pos, r.next - 1, "tok"))
    /\ pos' = r.next
    /\ UNCHANGED <<cid, src, status, err, lenient>>
Fail(what, at) ==
    /\ status' = "error" /\ err' = [i |-> at - 1, what |-> what]
    /\ UNCHANGED <<cid, src, pos, toks, segs, lenient>>

SkipWhitespace ==
    /\ Running /\ LexIsWs(At(src, pos))
    /\ LET e == RunEnd(src, pos, LexIsWs) IN
        /\ pos' = e + 1 /\ segs' = Append(segs, Seg(pos, e, "ws"))
    /\ UNCHANGED <<cid, src, toks, status, err, lenient>>

SkipLineComment ==
    /\ Running /\ IsLineComment(src, pos)
    /\ LET e == RunEnd(src, pos, LAMBDA c : c # 10)      \* last character before the LF / end
           stop == IF e < Len(src) THEN e + 1 ELSE e IN   \* the LF belongs to the comment
        /\ pos' = stop + 1 /\ segs' = Append(segs, Seg(pos, stop, "lc"))
    /\ UNCHANGED <<cid, src, toks, status, err, lenient>>

SkipBlockComment ==
    /\ Running /\ IsBlockComment(src, pos)
    /\ LET closers == {q \in (pos+2)..(Len(src)-1) : src[q] = 42 /\ src[q+1] = 47} IN
       IF closers # {} THEN
            LET q == CHOOSE x \in closers : \A y \in closers : x <= y IN
            /\ pos' = q + 2 /\ segs' = Append(segs, Seg(pos, q + 1, "bc"))
            /\ UNCHANGED <<lenient, err>>
       ELSE \* unterminated: rest of input is swallowed, or an error at `pos` (either is accepted)
            /\ pos' = Len(src) + 1 /\ segs' = Append(segs, Seg(pos, Len(src), "bc"))
            /\ lenient' = TRUE /\ err' = [i |-> pos - 1, what |-> "unterminated comment"]
    /\ UNCHANGED <<cid, src, toks, status>>

LexName ==
    /\ Running /\ LexIsLetter(At(src, pos))
    /\ Emit(NameTok(src, pos))

LexNumber ==
    /\ Running /\ LexIsDigit(At(src, pos))
    /\ Emit(NumTok(src, pos))

LexString ==
    /\ Running /\ At(src, pos) \in {34, 39}
    /\ LET r == StrScan(src, pos) IN
       IF r.m = "x" THEN Emit([tok |-> MkTok(src, "String", r.val, pos, r.end), next |-> r.end + 1])
       ELSE Fail(IF r.m = "bad" \/ r.m = "d" \/ r.m = "e" THEN "escape" ELSE "unterminated string", pos)

LexOperator ==
    /\ Running /\ ~IsLineComment(src, pos) /\ ~IsBlockComment(src, pos)
    /\ OpMatches(src, pos) # {}
    /\ Emit(OpTok(src, pos))

LexError ==
    /\ Running /\ pos <= Len(src)
    /\ LET c == src[pos] IN
        ~(LexIsWs(c) \/ LexIsLetter(c) \/ LexIsDigit(c) \/ c \in {34, 39, 126} \/ OpMatches(src, pos) # {})
    /\ Fail("illegal character", pos)

\* `~` only exists as the first character of `~>`; the error may name the `~` or the character
\* that should have been `>`.
LexIncomplete ==
    /\ Running /\ At(src, pos) = 126 /\ At(src, pos + 1) # 62
    /\ Fail("incomplete operator", pos)

LexEOF ==
    /\ Running /\ pos = Len(src) + 1
    /\ toks' = Append(toks, MkTok(src, "EOF", <<69,79,70>>, pos, pos))
    /\ status' = "done"
    /\ UNCHANGED <<cid, src, pos, segs, err, lenient>>

Next == SkipWhitespace \/ SkipLineComment \/ SkipBlockComment \/ LexName \/ LexNumber
        \/ LexString \/ LexOperator \/ LexError \/ LexIncomplete \/ LexEOF

Spec == Init /\ [][Next]_vars

-----------------------------------------------------------------------------
(* Properties of the design (checked by TLC in every state) *)

\* The consumed segments tile the prefix 1..pos-1: every character belongs to exactly one
\* token, white-space run or comment.
Partition ==
    /\ \A k \in 1..Len(segs) : segs[k].from <= segs[k].to
    /\ \A k \in 1..(Len(segs)-1) : segs[k+1].from = segs[k].to + 1
    /\ segs # <<>> => segs[1].from = 1 /\ segs[Len(segs)].to = pos - 1
    /\ segs = <<>> => pos = 1

\* Token spans are strictly increasing and start <= end.
Monotone ==
    /\ \A k \in 1..Len(toks) : toks[k].s.i <= toks[k].e.i
    /\ \A k \in 1..(Len(toks)-1) : toks[k].e.i < toks[k+1].s.i \/ toks[k+1].k = "EOF"

\* For operators, keywords and identifiers the text between start and end index is the value.
SpanIsLexeme ==
    \A k \in 1..Len(toks) :
        toks[k].k \notin {"String", "Int", "Float", "EOF"} =>
            SubSeq(src, toks[k].s.i + 1, toks[k].e.i + 1) = toks[k].v

\* An operator token is never followed directly by characters that would have made a longer operator.
LongestMatch ==
    \A k \in 1..Len(toks) :
        LET t == toks[k] IN
        (\E o \in LexOps : o[2] = t.k) =>
            ~\E o \in LexOps : Len(o[1]) > Len(t.v) /\ StartsWith(src, t.s.i + 1, o[1])

KeywordsAreNotIdentifiers ==
    \A k \in 1..Len(toks) : toks[k].k = "Identifier" => LexKw(toks[k].v) = "Identifier"

\* Exactly one family applies in every running state (the grammar is unambiguous and total).
Deterministic ==
    Running => Cardinality({a \in 1..10 :
        CASE a = 1 -> ENABLED SkipWhitespace [] a = 2 -> ENABLED SkipLineComment
          [] a = 3 -> ENABLED SkipBlockComment [] a = 4 -> ENABLED LexName
          [] a = 5 -> ENABLED LexNumber [] a = 6 -> ENABLED LexString
          [] a = 7 -> ENABLED LexOperator [] a = 8 -> ENABLED LexError
          [] a = 9 -> ENABLED LexEOF [] a = 10 -> ENABLED LexIncomplete}) = 1

\* Export of the terminal states as replay cases.
Case == [id |-> cid, src |-> src, toks |-> toks, status |-> status, err |-> err, lenient |-> lenient]
Export == status # "run" => PrintT(<<"CASE", ToJson(Case)>>)
=============================================================================
