------------------------------- MODULE HmsCast -------------------------------
(***************************************************************************)
(* The boundary between dynamic and static typing (C12): `expr as T`,      *)
(* `let x: T = <any>`, parsed JSON, host arguments and return values.      *)
(*                                                                         *)
(* Values   [k|->"null"] [k|->"bool",v] [k|->"int",v] [k|->"flt",v]        *)
(*          [k|->"str",v] [k|->"list",es] [k|->"obj",ks,vs]                *)
(*          [k|->"anyobj",ks,vs] [k|->"opt",some,v]                        *)
(* Types    [t|->"null"|"bool"|"int"|"flt"|"str"|"any"|"anyobj"]           *)
(*          [t|->"list",e] [t|->"opt",e] [t|->"obj",ks,ts]                 *)
(*                                                                         *)
(* Cast(v, T, conv) is the specified result:                               *)
(*   [ok |-> TRUE, v |-> admitted value]  or  [ok |-> FALSE, path |-> p]   *)
(* conv = TRUE  (`as`): bool / int / float convert among each other        *)
(* conv = FALSE (annotated let, host boundary): no scalar conversion       *)
(* In both modes an object is admitted as any-object and a T as ?T         *)
(* (so null is admitted as ?null only; reading JSON null as none is the    *)
(* JSON layer's business, not the cast's).                                 *)
(***************************************************************************)
EXTENDS Integers, Sequences, FiniteSets, TLC, Json, SequencesExt

CONSTANTS Depth,       \* 1 | 2: nesting depth of the enumerated values and types
          Slice, Slices \* the pair space is cut into Slices parts (by value index) to bound one TLC run

VARIABLES val, typ, conv, done
vars == <<val, typ, conv, done>>

-----------------------------------------------------------------------------
(* value and type universes *)
Atoms == { [k |-> "null"], [k |-> "bool", v |-> TRUE], [k |-> "int", v |-> 0], [k |-> "int", v |-> 1],
           [k |-> "flt", v |-> 3], [k |-> "str", v |-> "s"], [k |-> "opt", some |-> FALSE] }
\* a float is written as twice its value (3 = 1.5, 4 = 2.0) to stay within integers

FieldSets == { <<>>, <<"a">>, <<"b">>, <<"a", "b">> }

ListsOver(S, n) == UNION { { [k |-> "list", es |-> es] : es \in [1..m -> S] } : m \in 0..n }
ObjsOver(S, kind) == UNION { { [k |-> kind, ks |-> ks, vs |-> vs] : vs \in [1..Len(ks) -> S] } : ks \in FieldSets }
OptsOver(S) == { [k |-> "opt", some |-> TRUE, v |-> x] : x \in S }

V0 == Atoms
V1 == V0 \cup ListsOver(V0, 2) \cup ObjsOver(V0, "obj") \cup ObjsOver(V0, "anyobj") \cup OptsOver(V0)
\* depth 2: one more level, containers of at most one element / one field to keep the space small
V2 == V1 \cup { [k |-> "list", es |-> <<x>>] : x \in V1 \ V0 }
         \cup { [k |-> "obj", ks |-> <<"a">>, vs |-> <<x>>] : x \in V1 \ V0 }
         \cup { [k |-> "anyobj", ks |-> <<"a">>, vs |-> <<x>>] : x \in V1 \ V0 }
         \cup OptsOver(V1 \ V0)
         \cup { [k |-> "list", es |-> <<x, [k |-> "int", v |-> 1]>>] : x \in {y \in V1 : y.k = "int"} }
         \cup { [k |-> "list", es |-> <<[k |-> "list", es |-> <<[k |-> "int", v |-> 0]>>], x>>] : x \in ListsOver(V0, 1) }

T0 == { [t |-> "null"], [t |-> "bool"], [t |-> "int"], [t |-> "flt"], [t |-> "str"], [t |-> "any"], [t |-> "anyobj"] }
ObjTypesOver(S) == UNION { { [t |-> "obj", ks |-> ks, ts |-> ts] : ts \in [1..Len(ks) -> S] } : ks \in FieldSets }
\* (object types also with optional fields: a field that may be none is still a field that must be there)
T1 == T0 \cup { [t |-> "list", e |-> x] : x \in T0 } \cup { [t |-> "opt", e |-> x] : x \in T0 }
         \cup ObjTypesOver(T0 \cup { [t |-> "opt", e |-> [t |-> "int"]], [t |-> "opt", e |-> [t |-> "str"]] })
T2 == T1 \cup { [t |-> "list", e |-> x] : x \in T1 \ T0 } \cup { [t |-> "opt", e |-> x] : x \in T1 \ T0 }
         \cup { [t |-> "obj", ks |-> <<"a">>, ts |-> <<x>>] : x \in T1 \ T0 }

Vals == IF Depth = 1 THEN V1 ELSE V2
Typs == IF Depth = 1 THEN T1 ELSE T2
ValSeq == SetToSeq(Vals)

-----------------------------------------------------------------------------
(* the specification of the boundary *)
FieldIdx(ks, key) == CHOOSE j \in 1..Len(ks) : ks[j] = key
HasField(ks, key) == \E j \in 1..Len(ks) : ks[j] = key
Ok(v) == [ok |-> TRUE, v |-> v]
Err(p) == [ok |-> FALSE, path |-> p]

RECURSIVE Conforms(_, _)
\* v has type T, as it stands (deeply)
Conforms(v, T) ==
    CASE T.t = "any" -> TRUE
      [] T.t = "null" -> v.k = "null"
      [] T.t = "bool" -> v.k = "bool"
      [] T.t = "int" -> v.k = "int"
      [] T.t = "flt" -> v.k = "flt"
      [] T.t = "str" -> v.k = "str"
      [] T.t = "anyobj" -> v.k = "anyobj"
      [] T.t = "list" -> v.k = "list" /\ \A j \in 1..Len(v.es) : Conforms(v.es[j], T.e)
      [] T.t = "opt" -> v.k = "opt" /\ (v.some => Conforms(v.v, T.e))
      [] T.t = "obj" -> /\ v.k = "obj"
                        /\ {v.ks[j] : j \in 1..Len(v.ks)} = {T.ks[j] : j \in 1..Len(T.ks)}
                        /\ \A j \in 1..Len(T.ks) : Conforms(v.vs[FieldIdx(v.ks, T.ks[j])], T.ts[j])

ScalarConv(v, T) ==      \* bool / int / float among each other (only with conv)
    CASE v.k = "bool" /\ T.t = "int" -> [k |-> "int", v |-> IF v.v THEN 1 ELSE 0]
      [] v.k = "bool" /\ T.t = "flt" -> [k |-> "flt", v |-> IF v.v THEN 2 ELSE 0]
      [] v.k = "int" /\ T.t = "bool" -> [k |-> "bool", v |-> v.v # 0]
      [] v.k = "int" /\ T.t = "flt" -> [k |-> "flt", v |-> 2 * v.v]
      [] v.k = "flt" /\ T.t = "bool" -> [k |-> "bool", v |-> v.v # 0]
      [] v.k = "flt" /\ T.t = "int" -> [k |-> "int", v |-> v.v \div 2]       \* truncation (non-negative values here)
IsScalarConv(v, T) == v.k \in {"bool", "int", "flt"} /\ T.t \in {"bool", "int", "flt"} /\ v.k # T.t

\* first failing position of a sequence of sub-results, 0 if none
FirstBad(rs) == IF \A j \in 1..Len(rs) : rs[j].ok THEN 0 ELSE CHOOSE j \in 1..Len(rs) : ~rs[j].ok /\ \A h \in 1..(j-1) : rs[h].ok

RECURSIVE Cast(_, _, _, _)
Cast(v, T, cv, path) ==
    CASE T.t = "any" -> Ok(v)
      [] T.t = "opt" ->
            IF v.k = "opt" THEN
                IF ~v.some THEN Ok(v)
                ELSE LET r == Cast(v.v, T.e, cv, Append(path, "?")) IN
                     IF r.ok THEN Ok([k |-> "opt", some |-> TRUE, v |-> r.v]) ELSE r
            ELSE \* a T into an option of T: the value itself must be admitted as T
                 LET r == Cast(v, T.e, cv, path) IN
                 IF r.ok THEN Ok([k |-> "opt", some |-> TRUE, v |-> r.v]) ELSE r
      [] T.t = "list" ->
            IF v.k # "list" THEN Err(path)
            ELSE LET rs == [j \in 1..Len(v.es) |-> Cast(v.es[j], T.e, cv, Append(path, ToString(j - 1)))]
                     b == FirstBad(rs) IN
                 IF b = 0 THEN Ok([k |-> "list", es |-> [j \in 1..Len(rs) |-> rs[j].v]]) ELSE rs[b]
      [] T.t = "obj" ->
            IF v.k # "obj" THEN Err(path)
            ELSE IF {v.ks[j] : j \in 1..Len(v.ks)} # {T.ks[j] : j \in 1..Len(T.ks)} THEN Err(path)   \* missing / extra field
            ELSE LET rs == [j \in 1..Len(v.ks) |-> Cast(v.vs[j], T.ts[FieldIdx(T.ks, v.ks[j])], cv, Append(path, v.ks[j]))]
                     b == FirstBad(rs) IN
                 IF b = 0 THEN Ok([k |-> "obj", ks |-> v.ks, vs |-> [j \in 1..Len(rs) |-> rs[j].v]])
                 ELSE [ok |-> FALSE, path |-> rs[b].path, anyfield |-> TRUE]      \* objects are unordered: any failing field may be named
      [] T.t = "anyobj" ->
            IF v.k = "anyobj" THEN Ok(v)
            ELSE IF v.k = "obj" THEN Ok([k |-> "anyobj", ks |-> v.ks, vs |-> v.vs])     \* object to any-object
            ELSE Err(path)
      [] OTHER ->      \* null, bool, int, flt, str
            IF Conforms(v, T) THEN Ok(v)
            ELSE IF cv /\ IsScalarConv(v, T) THEN Ok(ScalarConv(v, T))
            ELSE Err(path)

Result == Cast(val, typ, conv, <<>>)

RECURSIVE BadPaths(_, _, _, _)
\* every position at which the value fails to be admitted (a refusal may name any of them)
BadPaths(v, T, cv, path) ==
    CASE T.t = "any" -> {}
      [] T.t = "opt" ->
            IF v.k = "opt" THEN IF v.some THEN BadPaths(v.v, T.e, cv, Append(path, "?")) ELSE {}
            ELSE BadPaths(v, T.e, cv, path)
      [] T.t = "list" ->
            IF v.k # "list" THEN {path}
            ELSE UNION { BadPaths(v.es[j], T.e, cv, Append(path, ToString(j - 1))) : j \in 1..Len(v.es) }
      [] T.t = "obj" ->
            IF v.k # "obj" THEN {path}
            ELSE (IF {v.ks[j] : j \in 1..Len(v.ks)} # {T.ks[j] : j \in 1..Len(T.ks)} THEN {path} ELSE {})
                 \cup UNION { IF HasField(T.ks, v.ks[j])
                              THEN BadPaths(v.vs[j], T.ts[FieldIdx(T.ks, v.ks[j])], cv, Append(path, v.ks[j]))
                              ELSE {} : j \in 1..Len(v.ks) }
      [] T.t = "anyobj" -> IF v.k \in {"anyobj", "obj"} THEN {} ELSE {path}
      [] OTHER -> IF Conforms(v, T) \/ (cv /\ IsScalarConv(v, T)) THEN {} ELSE {path}

\* the two formulations agree: a value is refused iff some position is bad, and the named one is among them
PathsAgree == (~Result.ok) <=> (BadPaths(val, typ, conv, <<>>) # {})
NamedIsBad == ~Result.ok => Result.path \in BadPaths(val, typ, conv, <<>>)

-----------------------------------------------------------------------------
Init ==
    /\ done = FALSE
    /\ \E j \in 1..Len(ValSeq) : j % Slices = Slice /\ val = ValSeq[j]
    /\ typ \in Typs
    /\ conv \in BOOLEAN

Finish == ~done /\ done' = TRUE /\ UNCHANGED <<val, typ, conv>>
Spec == Init /\ [][Finish]_vars

-----------------------------------------------------------------------------
(* Theorems about the specification itself, checked on every enumerated pair *)

\* an admitted value deeply conforms to the target type
AdmittedConforms == Result.ok => Conforms(Result.v, typ)

\* a value that already has the type is admitted unchanged
ConformingUnchanged == Conforms(val, typ) => Result.ok /\ Result.v = val

\* without conversions nothing but object->any-object, T->?T (and null->none) changes a value
StrictAdmitsOnlyByShape ==
    (~conv /\ Result.ok /\ typ.t \in {"null", "bool", "int", "flt", "str"}) => Result.v = val

RECURSIVE PathValid(_, _)
\* a refusal names a real position of the value
PathValid(v, p) ==
    IF p = <<>> THEN TRUE
    ELSE LET h == Head(p) IN
         CASE v.k = "list" -> \E q \in 1..Len(v.es) : ToString(q - 1) = h /\ PathValid(v.es[q], Tail(p))
           [] v.k \in {"obj", "anyobj"} -> HasField(v.ks, h) /\ PathValid(v.vs[FieldIdx(v.ks, h)], Tail(p))
           [] v.k = "opt" -> h = "?" /\ v.some /\ PathValid(v.v, Tail(p))
           [] OTHER -> FALSE
RefusalNamesPosition == ~Result.ok => PathValid(val, Result.path)

Export == done => PrintT(<<"CASE", ToJson([v |-> val, t |-> typ, conv |-> conv, r |-> Result, bad |-> SetToSeq(BadPaths(val, typ, conv, <<>>))])>>)
=============================================================================
