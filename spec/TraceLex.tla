------------------------------- MODULE TraceLex -------------------------------
(***************************************************************************)
(* Implementation -> specification for the lexer: token streams recorded   *)
(* from the real lexer on real files (examples/*.hms, tests/*.hms, the     *)
(* harness' rendered programs) are checked to be behaviours of HmsLex.     *)
(* One record per file: [src, toks, status].  After every step the tokens  *)
(* produced by the specification must be a prefix of the recorded ones,    *)
(* and a finished run must have consumed all of them.                      *)
(***************************************************************************)
EXTENDS HmsLex

Recorded == ndJsonDeserialize("lex_trace.ndjson")

TraceInit ==
    /\ pos = 1 /\ toks = <<>> /\ segs = <<>> /\ status = "run"
    /\ err = [i |-> -1, what |-> ""] /\ lenient = FALSE
    /\ cid \in 1..Len(Recorded)
    /\ src = Recorded[cid].src

TraceSpec == TraceInit /\ [][Next]_vars

RecTok(t) == [k |-> t.k, v |-> t.v, s |-> t.s, e |-> t.e]

\* index of the first token on which specification and recording disagree, 0 if none so far
FirstDiff ==
    LET rec == Recorded[cid].toks
        bad == {k \in 1..Len(toks) : k > Len(rec) \/ RecTok(rec[k]) # toks[k]} IN
    IF bad = {} THEN 0 ELSE CHOOSE k \in bad : \A j \in bad : k <= j

Accepted ==
    /\ FirstDiff = 0
    /\ status = "done" => Len(toks) = Len(Recorded[cid].toks) /\ Recorded[cid].status = "done"
    /\ status = "error" => Recorded[cid].status = "error" \/ lenient

\* Mismatches are reported, not raised, so that one TLC run validates every recorded file.
TraceCheck ==
    /\ ~Accepted => PrintT(<<"MISMATCH", ToJson([cid |-> cid, at |-> FirstDiff, status |-> status,
                                               spec |-> IF FirstDiff > 0 THEN toks[FirstDiff] ELSE [k |-> "-"]])>>)
    /\ (status # "run" /\ Accepted) => PrintT(<<"ACCEPTED", ToJson([cid |-> cid, n |-> Len(toks)])>>)
=============================================================================
