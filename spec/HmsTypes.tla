------------------------------- MODULE HmsTypes -------------------------------
(***************************************************************************)
(* The static rules of Homescript (C03), as a type checker over the same   *)
(* program encoding HmsSem executes.  For a program the module computes    *)
(*   "ok"      no rule is broken (the analyzer must report no error), with *)
(*             the type of every probed expression,                        *)
(*   a class   the first broken rule in evaluation order (the analyzer     *)
(*             must report at least one error),                            *)
(*   "unspec"  the program uses a corner the rules do not settle           *)
(*             (no verdict is derived).                                    *)
(*                                                                         *)
(* Types   int float bool str null range any anyobj never,                 *)
(*         list(t) opt(t) obj(fs) fn(ps, r), named(n) (an undeclared name) *)
(* Classes OperandMismatch ArgMismatch Arity ReturnMismatch AssignMismatch *)
(*         CondNotBool BranchMismatch IterNotIterable UnknownIdent         *)
(*         UnknownType UnknownMember NotCallable NotIndexable              *)
(*         BreakOutsideLoop ReturnOutside DuplicateDef NonConstGlobal      *)
(*         ImplicitAny MainShape LoopBody BadCast BadOperator              *)
(*         ImplMismatch TriggerShape                                       *)
(*                                                                         *)
(* The tables (operators per type, builtin members, builtin functions) are *)
(* frozen here: an analyzer that admits more, rejects more or stops        *)
(* checking a position disagrees with them.                                *)
(***************************************************************************)
EXTENDS Integers, Sequences, FiniteSets, TLC, Json, SequencesExt

VARIABLES pi, done
vars == <<pi, done>>

Programs == ndJsonDeserialize("programs.ndjson")

NIL == [k |-> "nil"]
T(k) == [k |-> k]
TInt == T("int")  TFloat == T("float")  TBool == T("bool")  TStr == T("str")  TNull == T("null")
TRange == T("range")  TAny == T("any")  TAnyObj == T("anyobj")  TNever == T("never")
TList(t) == [k |-> "list", t |-> t]
TOpt(t) == [k |-> "opt", t |-> t]
TObj(fs) == [k |-> "obj", fs |-> fs]
TFn(ps, r) == [k |-> "fn", ps |-> ps, r |-> r]
PR(n, t) == [n |-> n, t |-> t]
\* builtin functions with a variable number of arguments: `min` leading typed ones, anything afterwards
TVarFn(lead, r) == [k |-> "fn", va |-> TRUE, lead |-> lead, r |-> r]
IsVar(t) == "va" \in DOMAIN t

ErrObj == TObj(<<PR("message", TStr), PR("line", TInt), PR("column", TInt), PR("filename", TStr)>>)

Range1(s) == {s[j] : j \in 1..Len(s)}

-----------------------------------------------------------------------------
(* well-formedness of a written type *)
RECURSIVE TypeError(_)
TypeError(t) ==
    CASE t.k = "named" -> "UnknownType"
      [] t.k \in {"list", "opt"} -> TypeError(t.t)
      [] t.k = "obj" -> IF \E a, b \in 1..Len(t.fs) : a # b /\ t.fs[a].n = t.fs[b].n THEN "DuplicateDef"
                        ELSE LET bad == {j \in 1..Len(t.fs) : TypeError(t.fs[j].t) # "ok"} IN
                             IF bad = {} THEN "ok" ELSE TypeError(t.fs[CHOOSE j \in bad : TRUE].t)
      [] t.k = "fn" -> IF \E a, b \in 1..Len(t.ps) : a # b /\ t.ps[a].n = t.ps[b].n THEN "DuplicateDef"
                       ELSE LET bad == {j \in 1..Len(t.ps) : TypeError(t.ps[j].t) # "ok"} IN
                            IF bad # {} THEN TypeError(t.ps[CHOOSE j \in bad : TRUE].t) ELSE TypeError(t.r)
      [] OTHER -> "ok"

RECURSIVE ContainsFn(_)
ContainsFn(t) ==
    CASE t.k = "fn" -> TRUE
      [] t.k \in {"list", "opt"} -> ContainsFn(t.t)
      [] t.k = "obj" -> \E j \in 1..Len(t.fs) : ContainsFn(t.fs[j].t)
      [] OTHER -> FALSE

RECURSIVE ContainsAny(_)
ContainsAny(t) ==
    CASE t.k = "any" -> TRUE
      [] t.k \in {"list", "opt"} -> ContainsAny(t.t)
      [] t.k = "obj" -> \E j \in 1..Len(t.fs) : ContainsAny(t.fs[j].t)
      [] t.k = "fn" -> IF IsVar(t) THEN FALSE ELSE (\E j \in 1..Len(t.ps) : ContainsAny(t.ps[j].t)) \/ ContainsAny(t.r)
      [] OTHER -> FALSE

(* structural compatibility: `got` may be used where `exp` is expected.   *)
(* `any` on either side and `never` as the offered type fit everything;   *)
(* fnok: function types may take part (they cannot be checked at runtime) *)
RECURSIVE Compat(_, _, _)
Compat(got, exp, fnok) ==
    IF exp.k \in {"any", "never"} THEN TRUE
    ELSE IF got.k \in {"any", "never"} THEN TRUE
    ELSE IF got.k = "fn" /\ ~fnok THEN FALSE
    ELSE IF got.k # exp.k THEN FALSE
    ELSE CASE got.k = "list" -> Compat(got.t, exp.t, fnok)
           [] got.k = "opt" -> Compat(got.t, exp.t, TRUE)
           [] got.k = "obj" ->
                /\ {got.fs[j].n : j \in 1..Len(got.fs)} = {exp.fs[j].n : j \in 1..Len(exp.fs)}
                /\ \A j \in 1..Len(exp.fs) : \E h \in 1..Len(got.fs) :
                        got.fs[h].n = exp.fs[j].n /\ Compat(got.fs[h].t, exp.fs[j].t, fnok)
           [] got.k = "fn" ->
                IF IsVar(got) \/ IsVar(exp) THEN got = exp
                ELSE /\ Compat(got.r, exp.r, fnok)
                     /\ Len(got.ps) = Len(exp.ps)
                     \* (arguments are passed by position: same name and compatible type at the same place)
                     /\ \A j \in 1..Len(exp.ps) : got.ps[j].n = exp.ps[j].n /\ Compat(got.ps[j].t, exp.ps[j].t, fnok)
           [] OTHER -> TRUE

\* two function types of the same shape: parameters are compared by position, their names do not matter
CompatShape(got, exp) ==
    /\ got.k = "fn" /\ exp.k = "fn" /\ ~IsVar(got) /\ ~IsVar(exp)
    /\ Compat(got.r, exp.r, TRUE)
    /\ Len(got.ps) = Len(exp.ps)
    /\ \A j \in 1..Len(exp.ps) : Compat(got.ps[j].t, exp.ps[j].t, TRUE) /\ Compat(exp.ps[j].t, got.ps[j].t, TRUE)

-----------------------------------------------------------------------------
(* frozen tables *)
IntArith == {"+", "-", "*", "/", "%", "**", "<<", ">>", "|", "&", "^"}
Compare == {"==", "!=", "<", ">", "<=", ">="}
\* result type of `l op r` for operands of (compatible) type t, or NIL if the operator is not defined on t
BinResult(op, t) ==
    CASE t.k = "int" -> IF op \in IntArith THEN TInt ELSE IF op \in Compare THEN TBool ELSE NIL
      [] t.k = "float" -> IF op \in {"+", "-", "*", "/", "**"} THEN TFloat ELSE IF op \in Compare THEN TBool ELSE NIL
      [] t.k = "bool" -> IF op \in {"|", "&", "^", "||", "&&", "==", "!="} THEN TBool ELSE NIL
      [] t.k = "str" -> IF op = "+" THEN TStr ELSE IF op \in {"==", "!="} THEN TBool ELSE NIL
      [] OTHER -> IF op \in {"==", "!="} THEN TBool ELSE NIL
\* compound assignment `pl op= e` on a place of type t
AsgAllowed(op, t) ==
    CASE op = "=" -> TRUE
      [] t.k = "int" -> op \in {"+=", "-=", "*=", "/=", "%=", "**=", "<<=", ">>=", "|=", "&=", "^="}
      [] t.k = "float" -> op \in {"+=", "-=", "*=", "/=", "**="}
      [] t.k = "bool" -> op \in {"|=", "&=", "^="}
      [] t.k = "str" -> op = "+="
      [] OTHER -> FALSE

F0(r) == TFn(<<>>, r)
F1(n, t, r) == TFn(<<PR(n, t)>>, r)
F2(n1, t1, n2, t2, r) == TFn(<<PR(n1, t1), PR(n2, t2)>>, r)
\* the members of a value of type t (NIL: no such member)
Member(t, m) ==
    CASE t.k = "int" -> (CASE m = "to_range" -> F0(TRange) [] m = "to_string" -> F0(TStr) [] OTHER -> NIL)
      [] t.k = "float" -> (CASE m = "is_int" -> F0(TBool) [] m \in {"round", "trunc"} -> F0(TInt) [] m = "to_string" -> F0(TStr) [] OTHER -> NIL)
      [] t.k = "bool" -> (CASE m = "to_string" -> F0(TStr) [] OTHER -> NIL)
      [] t.k = "str" ->
            (CASE m = "compare_lev" -> F1("other", TStr, TInt)
               [] m \in {"contains", "starts_with"} -> F1("substring", TStr, TBool)
               [] m = "len" -> F0(TInt) [] m = "parse_bool" -> F0(TBool) [] m = "parse_float" -> F0(TFloat)
               [] m = "parse_int" -> F0(TInt) [] m = "parse_json" -> F0(TAny)
               [] m = "repeat" -> F1("count", TInt, TStr) [] m = "replace" -> F2("old", TStr, "new", TStr, TStr)
               [] m = "split" -> F1("separator", TStr, TList(TStr)) [] m = "substring" -> F1("upper", TInt, TStr)
               [] m \in {"to_lower", "to_upper"} -> F0(TStr) [] OTHER -> NIL)
      [] t.k = "range" ->
            (CASE m = "diff" -> F0(TInt) [] m \in {"start", "end"} -> TInt [] m = "rev" -> F0(TRange) [] m = "to_string" -> F0(TStr) [] OTHER -> NIL)
      [] t.k = "list" ->
            (CASE m = "concat" -> F1("other", t, TNull) [] m = "contains" -> F1("element", t.t, TBool)
               [] m = "insert" -> F2("index", TInt, "element", t.t, TNull) [] m = "join" -> F1("sep", TStr, TStr)
               [] m \in {"last", "pop", "pop_front"} -> F0(TOpt(t.t)) [] m = "len" -> F0(TInt)
               [] m \in {"push", "push_front"} -> F1("element", t.t, TNull) [] m = "remove" -> F1("index", TInt, TNull)
               [] m = "sort" -> IF t.t.k \in {"int", "float", "str"} THEN F0(TNull) ELSE NIL
               [] m \in {"to_json", "to_json_indent", "to_string"} -> F0(TStr) [] OTHER -> NIL)
      [] t.k = "opt" ->
            (CASE m = "expect" -> F1("message", TStr, t.t) [] m \in {"is_none", "is_some"} -> F0(TBool)
               [] m = "to_string" -> F0(TStr) [] m = "unwrap" -> F0(t.t) [] m = "unwrap_or" -> F1("fallback", t.t, t.t) [] OTHER -> NIL)
      [] t.k = "anyobj" ->
            (CASE m = "get" -> F1("key", TStr, TOpt(TAny)) [] m = "get_type" -> F1("key", TStr, TStr) [] m = "keys" -> F0(TList(TStr))
               [] m = "set" -> F2("key", TStr, "value", TNever, TNull)
               [] m \in {"to_json", "to_json_indent", "to_string"} -> F0(TStr) [] OTHER -> NIL)
      [] t.k = "obj" ->
            LET hit == {j \in 1..Len(t.fs) : t.fs[j].n = m} IN
            IF hit # {} THEN t.fs[CHOOSE j \in hit : TRUE].t
            ELSE (CASE m = "keys" -> F0(TList(TStr)) [] m \in {"to_json", "to_json_indent"} -> F0(TStr) [] OTHER -> NIL)
      [] OTHER -> NIL
ObjBuiltinNames == {"keys", "to_json", "to_json_indent"}

\* functions every module sees (the host of the test bench)
Builtin(name) ==
    CASE name \in {"println", "print", "debug"} -> TVarFn(<<>>, TNull)
      [] name = "fmt" -> TVarFn(<<TStr>>, TStr)
      [] name = "throw" -> TFn(<<PR("error", TNever)>>, TNever)
      [] name = "log" -> F2("base", TFloat, "value", TFloat, TFloat)
      [] OTHER -> NIL

\* what the host of the test bench offers for `import trigger .. from triggers;` and `import templ .. from templates;`
HostTrigger(name) ==
    CASE name = "minute" -> [args |-> TFn(<<PR("minutes", TInt)>>, TNull), cb |-> TFn(<<PR("elapsed", TInt)>>, TNull)]
      [] OTHER -> NIL
HostTemplate(name) ==
    CASE name = "FooFeature" ->
            [methods |-> [dim |-> TFn(<<PR("percent", TInt)>>, TBool), set_temp |-> TFn(<<PR("celsius", TFloat)>>, TNull)],
             caps |-> [light |-> [req |-> {"dim"}, conflicts |-> {"temperature"}],
                       temperature |-> [req |-> {"set_temp"}, conflicts |-> {"light"}]]]
      [] OTHER -> NIL

-----------------------------------------------------------------------------
(* results.  c: "ok" | class; t: type; nv: an expression of type never was *)
(* met (outside nested loops); bk: a break of the enclosing loop was met;  *)
(* env: bindings after a statement; pr: recorded types <<"let", x, type>>             *)
Res(c, t, nv, bk, env, pr) == [c |-> c, t |-> t, nv |-> nv, bk |-> bk, env |-> env, pr |-> pr]
Fail(c) == Res(c, TNull, FALSE, FALSE, <<>>, <<>>)
Good(t, nv, bk, pr) == Res("ok", t, nv \/ t.k = "never", bk, <<>>, pr)      \* an expression: a diverging one counts for nv
Plain(t, nv, bk, pr) == Res("ok", t, nv, bk, <<>>, pr)                       \* a block as part of a larger construct

\* env: sequence of [n, t]; the last binding of a name wins (shadowing)
Lookup(env, x) == LET hit == {j \in 1..Len(env) : env[j].n = x} IN
                  IF hit = {} THEN NIL ELSE env[CHOOSE j \in hit : \A h \in hit : h <= j].t
Bind(env, x, t) == Append(env, [n |-> x, t |-> t])

\* Type definitions (`type N = T;`) live in the same scopes as variables, under names of their own: the innermost
\* definition of a name is the one that is meant (a definition in a function or block hides an outer one).
TypeKey(n) == "type " \o n
RECURSIVE ResolveT(_, _)
ResolveT(env, t) ==
    CASE t.k = "named" -> LET d == Lookup(env, TypeKey(t.n)) IN IF d = NIL THEN t ELSE d
      [] t.k \in {"list", "opt"} -> [t EXCEPT !.t = ResolveT(env, t.t)]
      [] t.k = "obj" -> [t EXCEPT !.fs = [j \in 1..Len(t.fs) |-> [t.fs[j] EXCEPT !.t = ResolveT(env, t.fs[j].t)]]]
      [] t.k = "fn" -> IF IsVar(t) THEN t
                       ELSE [t EXCEPT !.ps = [j \in 1..Len(t.ps) |-> [t.ps[j] EXCEPT !.t = ResolveT(env, t.ps[j].t)]], !.r = ResolveT(env, t.r)]
      [] OTHER -> t

\* what a name denotes: variable first, then function of the module, then builtin
Denote(env, ctx, x) ==
    LET v == Lookup(env, x) IN
    IF v # NIL THEN v
    ELSE IF x \in DOMAIN ctx.fns THEN ctx.fns[x]
    ELSE Builtin(x)

RECURSIVE TypeOfRaw(_, _, _), TypeOf(_, _, _), CheckArgs(_, _, _, _, _, _), CheckList(_, _, _, _, _), CheckBlock(_, _, _, _),
          CheckStmts(_, _, _, _), CheckStmt(_, _, _), CheckArms(_, _, _, _, _, _), CheckObj(_, _, _, _, _), CheckLits(_, _, _, _, _)

\* an expression in a position where a value whose type mentions `any` must not appear unannotated
TypeOf(env, ctx, e) ==
    LET r == TLCEval(TypeOfRaw(env, ctx, e)) IN
    IF r.c = "ok" /\ ContainsAny(r.t) /\ r.t.k \notin {"fn", "opt"} THEN Fail("ImplicitAny") ELSE r

\* the arguments of a call against the parameters; j: next argument
CheckArgs(env, ctx, fn, args, j, acc) ==
    IF j > Len(args) THEN acc
    ELSE LET a == TypeOf(env, ctx, args[j]) IN
         IF a.c # "ok" THEN a
         ELSE IF a.t.k = "null" THEN Fail("ArgMismatch")                         \* a null-typed expression is no argument
         ELSE IF ctx.spawn /\ ContainsFn(a.t) THEN Fail("ArgMismatch")          \* closures do not cross threads, inside containers neither
         ELSE LET want == IF IsVar(fn) THEN (IF j <= Len(fn.lead) THEN fn.lead[j] ELSE TNever) ELSE fn.ps[j].t IN
              IF ~Compat(a.t, want, TRUE) THEN Fail("ArgMismatch")
              ELSE CheckArgs(env, ctx, fn, args, j + 1, [acc EXCEPT !.nv = @ \/ a.nv, !.pr = @ \o a.pr])

CallWith(env, ctx, ft, args, spawn) ==
    IF ft.k # "fn" THEN Fail("NotCallable")
    ELSE IF IsVar(ft) /\ Len(args) < Len(ft.lead) THEN Fail("Arity")
    ELSE IF ~IsVar(ft) /\ Len(args) # Len(ft.ps) THEN Fail("Arity")
    ELSE LET r == CheckArgs(env, [ctx EXCEPT !.spawn = spawn], ft, args, 1, Good(TNull, FALSE, FALSE, <<>>)) IN
         IF r.c # "ok" THEN r
         ELSE Good(IF spawn THEN TObj(<<PR("join", F0(ft.r))>>) ELSE ft.r, r.nv, FALSE, r.pr)

\* list literal elements: the first element fixes the type
CheckList(env, ctx, es, j, acc) ==
    IF j > Len(es) THEN acc
    ELSE LET a == TypeOf(env, ctx, es[j]) IN
         IF a.c # "ok" THEN a
         ELSE IF acc.t.k = "any" THEN CheckList(env, ctx, es, j + 1, [acc EXCEPT !.t = a.t, !.nv = @ \/ a.nv, !.pr = @ \o a.pr])
         \* (comparing the elements is no cast: function values are elements like any other)
         ELSE IF ~Compat(a.t, acc.t, TRUE) THEN Fail("OperandMismatch")
         ELSE CheckList(env, ctx, es, j + 1, [acc EXCEPT !.nv = @ \/ a.nv, !.pr = @ \o a.pr])

CheckObj(env, ctx, fs, j, acc) ==
    IF j > Len(fs) THEN acc
    ELSE IF fs[j].key \in ObjBuiltinNames \/ \E h \in 1..(j - 1) : fs[h].key = fs[j].key THEN Fail("DuplicateDef")
    ELSE LET a == TypeOf(env, ctx, fs[j].e) IN
         IF a.c # "ok" THEN a
         ELSE CheckObj(env, ctx, fs, j + 1, [acc EXCEPT !.t = TObj(Append(@.fs, PR(fs[j].key, a.t))), !.nv = @ \/ a.nv, !.pr = @ \o a.pr])

\* the literals of one match arm against the control type
CheckLits(env, ctx, lits, ct, j) ==
    IF j > Len(lits) THEN Good(TNull, FALSE, FALSE, <<>>)
    ELSE LET a == TypeOf(env, ctx, lits[j]) IN
         IF a.c # "ok" THEN a
         ELSE IF ~Compat(a.t, ct, TRUE) THEN Fail("OperandMismatch")
         ELSE CheckLits(env, ctx, lits, ct, j + 1)

\* arms <<[lits, e]>> then the default; rt: result type so far ("never" = none yet)
CheckArms(env, ctx, arms, ct, j, acc) ==
    IF j > Len(arms) THEN acc
    ELSE LET a == TypeOf(env, ctx, arms[j].e) IN
         IF a.c # "ok" THEN a
         ELSE IF acc.t.k # "never" /\ ~Compat(a.t, acc.t, TRUE) THEN Fail("BranchMismatch")
         ELSE LET l == CheckLits(env, ctx, arms[j].lits, ct, 1) IN
              IF l.c # "ok" THEN l
              ELSE CheckArms(env, ctx, arms, ct, j + 1,
                             [acc EXCEPT !.t = IF acc.t.k = "never" THEN a.t ELSE @, !.nv = @ \/ a.nv, !.bk = @ \/ a.bk, !.pr = @ \o a.pr])

\* a block: statements in a scope of their own (unless the caller already made one), then the value
CheckBlock(env, ctx, b, scoped) ==
    LET s == TLCEval(CheckStmts(env, ctx, b.ss, 1)) IN
    IF s.c # "ok" THEN s
    ELSE IF b.e = NIL THEN Plain(IF s.t.k = "never" THEN TNever ELSE TNull, s.nv, s.bk, s.pr)
    ELSE LET v == TypeOf(s.env, ctx, b.e) IN
         IF v.c # "ok" THEN v
         ELSE Plain(IF s.t.k = "never" THEN TNever ELSE v.t, s.nv \/ v.nv, s.bk \/ v.bk, s.pr \o v.pr)

\* statements from j on; the result type is never if one of them diverges
CheckStmts(env, ctx, ss, j) ==
    IF j > Len(ss) THEN Res("ok", TNull, FALSE, FALSE, env, <<>>)
    ELSE LET a == TLCEval(CheckStmt(env, ctx, ss[j])) IN
         IF a.c # "ok" THEN a
         ELSE LET rest == CheckStmts(a.env, ctx, ss, j + 1) IN
              IF rest.c # "ok" THEN rest
              ELSE Res("ok", IF a.t.k = "never" \/ rest.t.k = "never" THEN TNever ELSE TNull, a.nv \/ rest.nv, a.bk \/ rest.bk, rest.env, a.pr \o rest.pr)

LoopBodyOk(t) == t.k \in {"null", "never"}

CheckStmt(env, ctx, s) ==
    CASE s.k = "let" ->
            LET r == TLCEval(TypeOfRaw(env, ctx, s.e)) IN
            IF r.c # "ok" THEN r
            ELSE IF s.t = NIL THEN
                    IF ContainsAny(r.t) THEN Fail("ImplicitAny")
                    ELSE Res("ok", TNull, r.nv, r.bk, Bind(env, s.x, r.t), r.pr \o << <<"let", s.x, r.t>> >>)
            ELSE LET st == ResolveT(env, s.t) IN
                 IF TypeError(st) # "ok" THEN Fail(TypeError(st))
                 ELSE IF ~Compat(r.t, st, ~ContainsAny(r.t)) THEN Fail("AssignMismatch")
                 ELSE Res("ok", TNull, r.nv, r.bk, Bind(env, s.x, st), r.pr \o << <<"let", s.x, st>> >>)
      [] s.k = "typedef" ->
            LET dt == ResolveT(env, s.t) IN
            IF TypeError(dt) # "ok" THEN Fail(TypeError(dt))
            ELSE Res("ok", TNull, FALSE, FALSE, Bind(env, TypeKey(s.n), dt), <<>>)
      [] s.k = "expr" ->
            LET r == TypeOf(env, ctx, s.e) IN
            IF r.c # "ok" THEN r ELSE Res("ok", IF r.t.k = "never" THEN TNever ELSE TNull, r.nv, r.bk, env, r.pr)
      [] s.k = "ret" ->
            IF ctx.ret = NIL THEN Fail("ReturnOutside")
            ELSE IF s.e = NIL THEN (IF Compat(TNull, ctx.ret, TRUE) THEN Res("ok", TNever, FALSE, FALSE, env, <<>>) ELSE Fail("ReturnMismatch"))
            ELSE LET r == TypeOf(env, ctx, s.e) IN
                 IF r.c # "ok" THEN r
                 ELSE IF ~Compat(r.t, ctx.ret, TRUE) THEN Fail("ReturnMismatch")
                 ELSE Res("ok", TNever, r.nv, r.bk, env, r.pr)
      [] s.k = "break" -> IF ctx.loop = 0 THEN Fail("BreakOutsideLoop") ELSE Res("ok", TNever, FALSE, TRUE, env, <<>>)
      [] s.k = "continue" -> IF ctx.loop = 0 THEN Fail("BreakOutsideLoop") ELSE Res("ok", TNever, FALSE, FALSE, env, <<>>)
      [] s.k = "loop" ->
            LET b == CheckBlock(env, [ctx EXCEPT !.loop = @ + 1], s.b, FALSE) IN
            IF b.c # "ok" THEN b
            ELSE IF ~LoopBodyOk(b.t) THEN Fail("LoopBody")
            \* only a break of its own ends a loop: return and throw leave the function / raise, nothing after the loop is
            \* reached through them
            ELSE Res("ok", IF b.bk THEN TNull ELSE TNever, FALSE, FALSE, env, b.pr)
      [] s.k = "while" ->
            LET c == TypeOf(env, ctx, s.c) IN
            IF c.c # "ok" THEN c
            ELSE IF ~Compat(c.t, TBool, TRUE) THEN Fail("CondNotBool")
            ELSE LET b == CheckBlock(env, [ctx EXCEPT !.loop = @ + 1], s.b, FALSE) IN
                 IF b.c # "ok" THEN b
                 ELSE IF ~LoopBodyOk(b.t) THEN Fail("LoopBody")
                 ELSE Res("ok", TNull, c.nv, FALSE, env, c.pr \o b.pr)
      [] s.k = "for" ->
            LET it == TypeOf(env, ctx, s.e) IN
            IF it.c # "ok" THEN it
            ELSE IF it.t.k \notin {"range", "str", "list", "never"} THEN Fail("IterNotIterable")
            ELSE LET xt == CASE it.t.k = "range" -> TInt [] it.t.k = "str" -> TStr [] it.t.k = "list" -> it.t.t [] OTHER -> TNever
                     b == CheckBlock(Bind(env, s.x, xt), [ctx EXCEPT !.loop = @ + 1], s.b, TRUE) IN
                 IF b.c # "ok" THEN b
                 ELSE IF ~LoopBodyOk(b.t) THEN Fail("LoopBody")
                 ELSE Res("ok", TNull, it.nv, FALSE, env, it.pr \o b.pr)
      [] s.k = "trigger" ->
            LET tr == IF s.ev \in ctx.triggers THEN HostTrigger(s.ev) ELSE NIL IN
            IF tr = NIL THEN Fail("UnknownIdent")                                   \* the trigger is not imported
            ELSE IF s.cb \notin DOMAIN ctx.fns THEN Fail("UnknownIdent")            \* no such callback function
            ELSE IF s.cb = ctx.self THEN Fail("TriggerShape")                       \* a function must not trigger itself
            ELSE IF ~ctx.events[s.cb] THEN Fail("TriggerShape")                     \* the callback needs the `event` modifier
            ELSE IF ~CompatShape(ctx.fns[s.cb], tr.cb) THEN Fail("TriggerShape")    \* ... and the signature the trigger calls it with
            ELSE LET r == CallWith(env, ctx, tr.args, s.args, FALSE) IN
                 IF r.c # "ok" THEN r ELSE Res("ok", TNull, r.nv, FALSE, env, r.pr)
      [] OTHER -> Fail("unspec")

TypeOfRaw(env, ctx, e) ==
    CASE e.k = "int" -> Good(TInt, FALSE, FALSE, <<>>)
      [] e.k = "flt" -> Good(TFloat, FALSE, FALSE, <<>>)
      [] e.k = "bool" -> Good(TBool, FALSE, FALSE, <<>>)
      [] e.k = "str" -> Good(TStr, FALSE, FALSE, <<>>)
      [] e.k = "null" -> Good(TNull, FALSE, FALSE, <<>>)
      [] e.k = "none" -> Good(TOpt(TAny), FALSE, FALSE, <<>>)
      [] e.k = "var" ->
            LET t == Denote(env, ctx, e.x) IN
            IF t = NIL THEN Fail("UnknownIdent") ELSE Good(t, FALSE, FALSE, <<>>)
      [] e.k = "un" ->
            LET a == TypeOf(env, ctx, e.e) IN
            IF a.c # "ok" THEN a
            ELSE IF a.t.k = "never" THEN Good(TNever, a.nv, a.bk, a.pr)
            ELSE IF e.op = "-" THEN (IF a.t.k \in {"int", "float"} THEN Good(a.t, a.nv, a.bk, a.pr) ELSE Fail("OperandMismatch"))
            ELSE IF e.op = "!" THEN (IF a.t.k \in {"int", "bool"} THEN Good(a.t, a.nv, a.bk, a.pr) ELSE Fail("OperandMismatch"))
            ELSE Good(TOpt(a.t), a.nv, a.bk, a.pr)
      [] e.k = "bin" ->
            LET a == TypeOf(env, ctx, e.l) IN
            IF a.c # "ok" THEN a
            ELSE LET b == TypeOf(env, ctx, e.r) IN
                 IF b.c # "ok" THEN b
                 ELSE IF a.t.k = "never" THEN Good(TNever, TRUE, a.bk \/ b.bk, a.pr \o b.pr)
                 ELSE IF ~Compat(b.t, a.t, TRUE) THEN Fail("OperandMismatch")
                 ELSE LET rt == BinResult(e.op, a.t) IN
                      IF rt = NIL THEN Fail("BadOperator")
                      ELSE Good(rt, a.nv \/ b.nv, a.bk \/ b.bk, a.pr \o b.pr)
      [] e.k = "asg" ->
            LET a == TypeOf(env, ctx, e.pl) IN
            IF a.c # "ok" THEN a
            \* a function of the module is no variable: nothing can be assigned to its name
            ELSE IF e.pl.k = "var" /\ Lookup(env, e.pl.x) = NIL /\ e.pl.x \in DOMAIN ctx.fns THEN Fail("AssignMismatch")
            ELSE LET b == TypeOf(env, ctx, e.e) IN
                 IF b.c # "ok" THEN b
                 \* (as for an annotated let: a function value may be assigned unless a value of type any would have to be cast to it)
                 ELSE IF ~Compat(b.t, a.t, ~ContainsAny(b.t)) THEN Fail("AssignMismatch")
                 ELSE IF a.t.k # "never" /\ ~AsgAllowed(e.op, a.t) THEN Fail("BadOperator")
                 ELSE Good(IF a.t.k = "never" \/ b.t.k = "never" THEN TNever ELSE TNull, a.nv \/ b.nv, a.bk \/ b.bk, a.pr \o b.pr)
      [] e.k \in {"call", "spawn"} ->
            LET ft == Denote(env, ctx, e.f) IN
            IF ft = NIL THEN Fail("UnknownIdent")
            \* a thread starts in a function definition of the program: not in a function value, a builtin or a host function
            ELSE IF e.k = "spawn" /\ (Lookup(env, e.f) # NIL \/ e.f \notin DOMAIN ctx.fns) THEN Fail("NotSpawnable")
            \* and what it returns reaches the thread which joins it
            ELSE IF e.k = "spawn" /\ ft.k = "fn" /\ ContainsFn(ft.r) THEN Fail("ArgMismatch")
            ELSE LET r == CallWith(env, ctx, ft, e.args, e.k = "spawn") IN
                 r
      [] e.k = "callv" ->
            LET f == TypeOf(env, ctx, e.e) IN
            IF f.c # "ok" THEN f
            ELSE IF f.t.k = "never" THEN Good(TNever, TRUE, f.bk, f.pr)
            ELSE LET r == CallWith(env, ctx, f.t, e.args, FALSE) IN
                 IF r.c # "ok" THEN r ELSE Good(r.t, r.nv \/ f.nv, f.bk, f.pr \o r.pr)
      [] e.k = "list" ->
            LET r == CheckList(env, ctx, e.es, 1, Good(TAny, FALSE, FALSE, <<>>)) IN
            IF r.c # "ok" THEN r ELSE Good(TList(r.t), r.nv, r.bk, r.pr)
      [] e.k = "obj" -> CheckObj(env, ctx, e.fs, 1, Good(TObj(<<>>), FALSE, FALSE, <<>>))
      [] e.k = "range" ->
            LET a == TypeOf(env, ctx, e.l) IN
            IF a.c # "ok" THEN a
            ELSE LET b == TypeOf(env, ctx, e.r) IN
                 IF b.c # "ok" THEN b
                 ELSE IF ~Compat(a.t, TInt, FALSE) \/ ~Compat(b.t, TInt, FALSE) THEN Fail("OperandMismatch")
                 ELSE Good(TRange, a.nv \/ b.nv, FALSE, a.pr \o b.pr)
      [] e.k = "idx" ->
            LET a == TypeOf(env, ctx, e.e) IN
            IF a.c # "ok" THEN a
            ELSE LET b == TypeOf(env, ctx, e.i) IN
                 IF b.c # "ok" THEN b
                 ELSE CASE a.t.k = "never" -> Good(TNever, TRUE, FALSE, a.pr \o b.pr)
                        [] a.t.k = "list" -> IF b.t.k # "int" THEN Fail("OperandMismatch") ELSE Good(a.t.t, a.nv \/ b.nv, FALSE, a.pr \o b.pr)
                        [] a.t.k = "str" -> IF b.t.k # "int" THEN Fail("OperandMismatch") ELSE Good(TStr, a.nv \/ b.nv, FALSE, a.pr \o b.pr)
                        [] a.t.k = "anyobj" -> IF b.t.k # "str" THEN Fail("OperandMismatch") ELSE Good(TAny, a.nv \/ b.nv, FALSE, a.pr \o b.pr)
                        [] a.t.k = "obj" ->
                              IF b.t.k # "str" THEN Fail("OperandMismatch")
                              ELSE IF e.i.k # "str" THEN Good(TAny, a.nv \/ b.nv, FALSE, a.pr \o b.pr)
                              ELSE Fail("unspec")      \* a literal key: the field's type (keys are code points here: not modelled)
                        [] OTHER -> Fail("NotIndexable")
      [] e.k \in {"mem", "mcall"} ->
            LET a == TLCEval(TypeOfRaw(env, ctx, e.e)) IN
            IF a.c # "ok" THEN a
            ELSE IF a.t.k = "never" THEN Good(TNever, TRUE, FALSE, a.pr)
            ELSE IF a.t.k = "any" THEN Fail("ImplicitAny")
            ELSE LET mt == Member(a.t, e.m) IN
                 IF mt = NIL THEN Fail("UnknownMember")
                 ELSE IF e.k = "mem" THEN Good(mt, a.nv, FALSE, a.pr)
                 ELSE LET r == CallWith(env, ctx, mt, e.args, FALSE) IN
                      IF r.c # "ok" THEN r ELSE Good(r.t, a.nv \/ r.nv, FALSE, a.pr \o r.pr)
      [] e.k = "cast" ->
            LET a == TLCEval(TypeOfRaw(env, ctx, e.e)) IN
            IF a.c # "ok" THEN a
            ELSE LET ct == ResolveT(env, e.t) IN
                 IF TypeError(ct) # "ok" THEN Fail(TypeError(ct))
                 ELSE IF a.t.k \in {"bool", "int", "float"} /\ ct.k \in {"bool", "int", "float"} THEN Good(ct, a.nv, FALSE, a.pr)
                 ELSE IF a.t.k = "obj" /\ ct.k = "anyobj" THEN Good(ct, a.nv, FALSE, a.pr)
                 ELSE IF ~Compat(a.t, ct, FALSE) \/ ct.k = "fn" THEN Fail("BadCast")
                 ELSE Good(ct, a.nv, FALSE, a.pr)
      [] e.k = "block" -> LET b == CheckBlock(env, ctx, e, FALSE) IN IF b.c # "ok" THEN b ELSE Good(b.t, b.nv, b.bk, b.pr)
      [] e.k = "if" ->
            LET c == TypeOf(env, ctx, e.c) IN
            IF c.c # "ok" THEN c
            ELSE IF ~Compat(c.t, TBool, TRUE) THEN Fail("CondNotBool")
            ELSE LET th == CheckBlock(env, ctx, e.th, FALSE) IN
                 IF th.c # "ok" THEN th
                 ELSE IF e.el = NIL THEN
                        IF ~Compat(th.t, TNull, TRUE) THEN Fail("BranchMismatch")
                        ELSE Good(TNull, c.nv \/ th.nv, th.bk, c.pr \o th.pr)
                 ELSE LET el == CheckBlock(env, ctx, e.el, FALSE) IN
                      IF el.c # "ok" THEN el
                      ELSE IF ~Compat(el.t, th.t, TRUE) THEN Fail("BranchMismatch")
                      ELSE Good(IF th.t.k = "never" THEN el.t ELSE IF el.t.k = "never" THEN th.t ELSE el.t,
                                c.nv \/ th.nv \/ el.nv, th.bk \/ el.bk, c.pr \o th.pr \o el.pr)
      [] e.k = "match" ->
            LET c == TypeOf(env, ctx, e.e) IN
            IF c.c # "ok" THEN c
            ELSE LET arms == IF e.dflt = NIL THEN e.arms ELSE Append(e.arms, [lits |-> <<>>, e |-> e.dflt])
                     r == CheckArms(env, ctx, arms, c.t, 1, Good(TNever, FALSE, FALSE, <<>>)) IN
                 IF r.c # "ok" THEN r
                 ELSE IF e.dflt = NIL /\ ~Compat(TNull, r.t, TRUE) THEN Fail("BranchMismatch")       \* a value is expected: default arm missing
                 \* (without a default arm the match is left when no literal matches: it is null even if every arm diverges)
                 ELSE Good(IF Len(arms) = 0 \/ (e.dflt = NIL /\ r.t.k = "never") THEN TNull ELSE r.t,
                           IF e.dflt = NIL THEN c.nv ELSE c.nv \/ r.nv, r.bk, c.pr \o r.pr)
      [] e.k = "try" ->
            LET b == CheckBlock(env, ctx, e.b, FALSE) IN
            IF b.c # "ok" THEN b
            ELSE LET h == CheckBlock(Bind(env, e.x, ErrObj), ctx, e.c, TRUE) IN
                 IF h.c # "ok" THEN h
                 ELSE IF ~Compat(h.t, b.t, TRUE) THEN Fail("BranchMismatch")
                 ELSE Good(IF b.t.k = "never" THEN h.t ELSE b.t, b.nv \/ h.nv, b.bk \/ h.bk, b.pr \o h.pr)
      [] e.k = "fnlit" ->
            IF \E a, b \in 1..Len(e.ps) : a # b /\ e.ps[a] = e.ps[b] THEN Fail("DuplicateDef")
            ELSE LET ft == TFn([j \in 1..Len(e.ps) |-> PR(e.ps[j], e.pts[j])], e.ret) IN
                 IF TypeError(ft) # "ok" THEN Fail(TypeError(ft))
                 ELSE LET env1 == env \o [j \in 1..Len(e.ps) |-> [n |-> e.ps[j], t |-> e.pts[j]]]
                          \* a function literal is a function of its own: return refers to it, no loop surrounds its body
                          b == CheckBlock(env1, [ctx EXCEPT !.ret = e.ret, !.loop = 0, !.self = ""], e.body, TRUE) IN
                      IF b.c # "ok" THEN b
                      ELSE IF ~Compat(b.t, e.ret, TRUE) THEN Fail("ReturnMismatch")
                      ELSE Good(ft, b.nv, FALSE, b.pr)
      [] OTHER -> Fail("unspec")

-----------------------------------------------------------------------------
(* a whole program *)
RECURSIVE IsConst(_)
IsConst(e) ==
    CASE e.k \in {"int", "flt", "bool", "str", "null", "none"} -> TRUE
      [] e.k = "list" -> \A j \in 1..Len(e.es) : IsConst(e.es[j])
      [] e.k = "obj" -> \A j \in 1..Len(e.fs) : IsConst(e.fs[j].e)
      [] e.k = "range" -> IsConst(e.l) /\ IsConst(e.r)
      [] e.k = "un" -> IsConst(e.e)
      [] e.k = "bin" -> IsConst(e.l) /\ IsConst(e.r)
      [] e.k = "cast" -> IsConst(e.e)
      [] e.k = "block" -> e.ss = <<>> /\ e.e # NIL /\ IsConst(e.e)      \* a block that is nothing but a constant value
      [] e.k = "idx" -> IsConst(e.e) /\ IsConst(e.i)
      [] e.k = "mem" -> IsConst(e.e)
      [] OTHER -> FALSE

\* the type callers see: singleton parameters are bound by the callee, not passed
FnType(f) == TFn([j \in 1..Len(f.ps) |-> PR(f.ps[j], f.pts[j])], f.ret)
\* ... with the names of the module's type definitions replaced by what they stand for
ModuleTypes(p) == [j \in 1..Len(p.types) |-> [n |-> TypeKey(p.types[j].n), t |-> p.types[j].t]]
FnTypeIn(p, f) == ResolveT(ModuleTypes(p), FnType(f))
SingType(p, name) == LET hit == {j \in 1..Len(p.sings) : p.sings[j].n = name} IN
                     IF hit = {} THEN NIL ELSE p.sings[CHOOSE j \in hit : TRUE].t

RECURSIVE CheckGlobals(_, _, _, _), CheckFns(_, _, _, _, _)
CheckGlobals(p, ctx, j, acc) ==
    IF j > Len(p.globals) THEN acc
    ELSE LET g == p.globals[j] IN
         IF ~IsConst(g.e) THEN Fail("NonConstGlobal")
         ELSE IF \E h \in 1..(j - 1) : p.globals[h].x = g.x THEN Fail("DuplicateDef")
         ELSE IF g.x \in DOMAIN p.fns THEN Fail("DuplicateDef")            \* a global named like a function of the module
         ELSE LET r == CheckStmt(acc.env, ctx, [k |-> "let", x |-> g.x, e |-> g.e, t |-> g.t]) IN
              IF r.c # "ok" THEN r
              ELSE CheckGlobals(p, ctx, j + 1, [acc EXCEPT !.env = r.env, !.pr = @ \o r.pr])

CheckFns(p, ctx, names, env, acc) ==
    IF names = <<>> THEN acc
    ELSE LET f == p.fns[Head(names)] IN
         IF \E a, b \in 1..Len(f.ps) : a # b /\ f.ps[a] = f.ps[b] THEN Fail("DuplicateDef")
         ELSE IF TypeError(FnTypeIn(p, f)) # "ok" THEN Fail(TypeError(FnTypeIn(p, f)))
         ELSE IF \E j \in 1..Len(f.sps) : SingType(p, f.sps[j][2]) = NIL THEN Fail("UnknownType")     \* extraction of an undeclared singleton
         ELSE IF \E a, b \in 1..Len(f.sps) : a # b /\ f.sps[a][2] = f.sps[b][2] THEN Fail("DuplicateDef")
         ELSE LET env1 == env \o [j \in 1..Len(f.sps) |-> [n |-> f.sps[j][1], t |-> SingType(p, f.sps[j][2])]]
                             \o [j \in 1..Len(f.ps) |-> [n |-> f.ps[j], t |-> FnTypeIn(p, f).ps[j].t]]
                  b == CheckBlock(env1, [ctx EXCEPT !.ret = FnTypeIn(p, f).r, !.self = Head(names)], f.body, TRUE) IN
              IF b.c # "ok" THEN b
              ELSE IF ~Compat(b.t, FnTypeIn(p, f).r, TRUE) THEN Fail("ReturnMismatch")
              ELSE CheckFns(p, ctx, Tail(names), env, [acc EXCEPT !.pr = @ \o b.pr])

(* impl blocks: `impl T [with { caps }] for $S { methods }`.  The capabilities select the methods the template requires; *)
(* exactly those must be implemented, with the template's parameter names and types, its return type, no modifier, and  *)
(* each must extract the singleton it is implemented for.                                                                *)
ImplError(p, im) ==
    LET tp == IF im.templ \in Range1(p.imports.templ) THEN HostTemplate(im.templ) ELSE NIL IN
    IF SingType(p, im.sing) = NIL THEN "ImplMismatch"
    ELSE IF tp = NIL THEN "ImplMismatch"
    ELSE IF \E c \in Range1(im.caps) : c \notin DOMAIN tp.caps THEN "ImplMismatch"
    ELSE IF \E c, d \in Range1(im.caps) : d \in tp.caps[c].conflicts THEN "ImplMismatch"
    ELSE LET req == UNION { tp.caps[c].req : c \in Range1(im.caps) }
             have == Range1(im.methods) IN
         IF req # have THEN "ImplMismatch"                                          \* a method is missing or not part of the template
         ELSE IF \E m \in have :
                    LET f == p.fns[m] IN
                    \/ ~CompatShape(FnType(f), tp.methods[m])
                    \/ \E j \in 1..Len(f.ps) : f.ps[j] # tp.methods[m].ps[j].n        \* parameter names are part of the template
                    \/ f.event
                    \/ ~\E j \in 1..Len(f.sps) : f.sps[j][2] = im.sing
              THEN "ImplMismatch"
         ELSE "ok"

\* ints, floats, bools, texts, null, ranges start as 0 / false / "" / null / 0..0, lists empty, options none, any-objects
\* empty, objects field by field; there is no default function and no default `any`
RECURSIVE HasDefault(_)
HasDefault(t) ==
    CASE t.k \in {"fn", "any", "never"} -> FALSE
      [] t.k = "obj" -> \A j \in 1..Len(t.fs) : HasDefault(t.fs[j].t)
      [] OTHER -> TRUE

CheckProgram(p) ==
    LET names == SetToSeq(DOMAIN p.fns)
        ctx0 == [fns |-> [n \in DOMAIN p.fns |-> FnTypeIn(p, p.fns[n])], events |-> [n \in DOMAIN p.fns |-> p.fns[n].event],
                 triggers |-> Range1(p.imports.trig), self |-> "", ret |-> NIL, loop |-> 0, spawn |-> FALSE]
        \* singletons are values of the root scope, named like their declaration
        senv == ModuleTypes(p) \o [j \in 1..Len(p.sings) |-> [n |-> p.sings[j].n, t |-> p.sings[j].t]]
        badimpl == {j \in 1..Len(p.impls) : ImplError(p, p.impls[j]) # "ok"} IN
    IF p.dups # <<>> THEN Fail("DuplicateDef")                                   \* a function name defined twice
    ELSE IF p.needmain /\ "main" \notin DOMAIN p.fns THEN Fail("MainShape")
    ELSE IF "main" \in DOMAIN p.fns /\ (p.fns["main"].ps # <<>> \/ p.fns["main"].ret.k # "null") THEN Fail("MainShape")
    ELSE IF \E t \in Range1(p.imports.trig) : HostTrigger(t) = NIL THEN Fail("UnknownIdent")
    ELSE IF \E t \in Range1(p.imports.templ) : HostTemplate(t) = NIL THEN Fail("UnknownIdent")
    ELSE IF \E a, b \in 1..Len(p.sings) : a # b /\ p.sings[a].n = p.sings[b].n THEN Fail("DuplicateDef")
    ELSE IF \E j \in 1..Len(p.sings) : TypeError(p.sings[j].t) # "ok" THEN Fail("UnknownType")
    \* a singleton the host does not provide starts as the default value of its type: the type must have one
    ELSE IF \E j \in 1..Len(p.sings) : ~HasDefault(p.sings[j].t) THEN Fail("NoDefaultValue")
    ELSE IF badimpl # {} THEN Fail("ImplMismatch")
    ELSE LET g == CheckGlobals(p, ctx0, 1, Res("ok", TNull, FALSE, FALSE, senv, <<>>)) IN
         IF g.c # "ok" THEN g
         ELSE LET f == CheckFns(p, ctx0, names, g.env, Res("ok", TNull, FALSE, FALSE, <<>>, <<>>)) IN
              IF f.c # "ok" THEN f ELSE [f EXCEPT !.pr = g.pr \o @]

-----------------------------------------------------------------------------
Init == pi \in 1..Len(Programs) /\ done = FALSE
Finish == ~done /\ done' = TRUE /\ UNCHANGED pi
Spec == Init /\ [][Finish]_vars

Verdict == CheckProgram(Programs[pi])
\* the rules are functions: a verdict is a class, and probes are only reported for accepted programs
VerdictWellFormed == done => LET v == Verdict IN v.c = "ok" \/ v.pr = <<>>
Export == done => LET v == Verdict IN PrintT(<<"CASE", ToJson([id |-> Programs[pi].id, c |-> v.c, pr |-> v.pr])>>)
=============================================================================
