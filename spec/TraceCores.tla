------------------------------ MODULE TraceCores ------------------------------
(***************************************************************************)
(* Implementation -> specification for the core protocol: event traces     *)
(* recorded by the verif hooks of runtime/vm.go and runtime/core.go are    *)
(* checked to be behaviours of HmsCores (Variant = "fixed"), with every    *)
(* invariant of HmsCores evaluated after every event.                      *)
(*                                                                         *)
(* One trace line per specification action (see DESIGN.md appendix B).     *)
(* Lines {"e":"Reset"} separate executions so that one TLC run validates   *)
(* many of them.  What is not logged (who the spawner of a Spawn* event    *)
(* is) is inferred by TLC.  Two grain mismatches are resolved explicitly:  *)
(*  - a core logs Offer before it blocks in the send, so a poll of that    *)
(*    core may still come back empty (TraceWaitPollEmpty has no condition  *)
(*    on the core's state);                                                *)
(*  - polls of the context (Quantum) are not part of the trace.            *)
(***************************************************************************)
EXTENDS HmsCores

Trace == ndJsonDeserialize("cores_trace.ndjson")

VARIABLE l
tvars == <<vars, l>>

Ev == Trace[l]
IsEvent(e) == l <= Len(Trace) /\ Ev.e = e /\ l' = l + 1
Core(n) == n + 1          \* core numbers start at 0 in the code, at 1 in the specification
Held == "held" \in DOMAIN Ev => Ev.held

TraceInit == Init /\ l = 1

TSpawnLock   == IsEvent("SpawnLock") /\ Held /\ \E s \in Spawners : SpawnLock(s)
TSpawnAppend == IsEvent("SpawnAppend") /\ Held /\ \E s \in Spawners : SpawnAppend(s) /\ sp'[s].new = Core(Ev.c)
TSpawnUnlock == IsEvent("SpawnUnlock") /\ \E s \in Spawners : SpawnUnlock(s)
TSpawnGo     == IsEvent("SpawnGo") /\ \E s \in Spawners : SpawnGo(s) /\ sp[s].new = Core(Ev.c)
TOffer       == IsEvent("Offer") /\ CoreOffer(Core(Ev.c)) /\ res'[Core(Ev.c)] = Ev.a
TCancel      == IsEvent("Cancel") /\ IF cancelled THEN UNCHANGED vars ELSE HostCancel

\* joins: the hook knows the thread which is joined (Ev.c), not the core which joins it: TLC infers that one
TJoinBegin     == IsEvent("PreJoin") /\ \E c \in Cores : JoinBegin(c, Core(Ev.c))
TJoined        == IsEvent("Joined") /\ \E c \in Cores : jn[c].d = Core(Ev.c) /\ JoinEnd(c)
TJoinFailed    == IsEvent("JoinFailed") /\ \E c \in Cores : jn[c].d = Core(Ev.c) /\ JoinFailed(c)
TJoinCancelled == IsEvent("JoinCancelled") /\ \E c \in Cores : jn[c].d = Core(Ev.c) /\ JoinCancelled(c)
\* a core which comes out of a join with the termination interrupt offers it (the only thing it may do)
TJoinOffer     == IsEvent("Offer") /\ Ev.a = "term" /\ JoinOffer(Core(Ev.c))

\* WaitNonConsuming: the event is logged inside the read lock, which is released right afterwards (no event can be
\* logged after the release and still be in order): one look = RLock, read, RUnlock
TWatchLook ==
    /\ IsEvent("WatchRLock")
    /\ wt.pc \in {"look", "ret"} /\ ~rw.w /\ Len(list) = Ev.c
    /\ wt' = [pc |-> IF Len(list) = 0 THEN "ret" ELSE "look", seen |-> Len(list), n |-> 0,
              z |-> wt.z + (IF Len(list) = 0 THEN 1 ELSE 0)]
    /\ UNCHANGED <<list, rw, cst, res, work, cancelled, spawned, fatals, w, sp, calls, ret, hist, par, jn, joins>>
\* (the watchers are not told apart in the trace: a return needs a look which saw the empty list and is not used up)
TWatchReturn ==
    /\ IsEvent("WatchReturn") /\ wt.z > 0 /\ wt' = [wt EXCEPT !.z = wt.z - 1]
    /\ UNCHANGED <<list, rw, cst, res, work, cancelled, spawned, fatals, w, sp, calls, ret, hist, par, jn, joins>>

TWaitRLock      == IsEvent("WaitRLock") /\ Held /\ WaitRLock /\ Len(list) = Ev.c
TWaitSnapUnlock == IsEvent("WaitSnapUnlock") /\ WaitSnapUnlock
TWaitRecv       == IsEvent("WaitRecv") /\ WaitPoll /\ w'.got = Core(Ev.c) /\ w'.goti = Ev.a /\ cst[Core(Ev.c)] = "offer"
TWaitPollEmpty  == \* the non-blocking receive found nothing (the core may have announced its offer already)
    /\ IsEvent("WaitPollEmpty")
    /\ w.pc = IterPc /\ w.i <= Len(w.snap) /\ w.snap[w.i] = Core(Ev.c)
    /\ w' = [w EXCEPT !.i = w.i + 1]
    /\ H(0, "WaitPollEmpty")
    /\ UNCHANGED <<list, rw, cst, res, work, cancelled, spawned, fatals, sp, calls, ret>> /\ UNCHANGED ext
TWaitNilLock    == IsEvent("WaitNilLock") /\ Held /\ WaitNilLock /\ w.got = Core(Ev.c)
TWaitNilAssign  == IsEvent("WaitNilAssign") /\ Held /\ WaitNilAssign
TWaitNilUnlock  == IsEvent("WaitNilUnlock") /\ WaitNilUnlock
TWaitErrLock    == IsEvent("WaitErrLock") /\ Held /\ WaitErrLock /\ w.got = Core(Ev.c)
TWaitErrCancel  == IsEvent("WaitErrCancel") /\ Held /\ WaitErrCancel
TWaitErrUnlock  == IsEvent("WaitErrUnlock") /\ WaitErrUnlock
TWaitDrainRecv  == IsEvent("WaitDrainRecv") /\ WaitDrainRecv /\ w'.got = Core(Ev.c)
TWaitReturnErr  == IsEvent("WaitReturnErr") /\ WaitReturnErr /\ ret'.c = Core(Ev.c) /\ ret'.i = Ev.a
TWaitReturnNil  == IsEvent("WaitReturnNil") /\ WaitReturnNil
TWaitSleep      == IsEvent("WaitSleep") /\ WaitPassEnd

\* end of one execution: nothing may be left behind (no core still offering, no lock held)
TReset ==
    /\ IsEvent("Reset")
    /\ \A c \in Cores : cst[c] \in {"unborn", "done"}
    /\ rw.r = 0 /\ ~rw.w /\ list = <<>> /\ w.pc = "idle"
    /\ \A c \in Cores : jn[c].st = "none"
    /\ wt.z = 0 /\ (wt.pc = "ret" \/ wt.seen = -1)      \* the watchers have returned
    /\ list' = <<>> /\ rw' = [r |-> 0, w |-> FALSE]
    /\ cst' = [c \in Cores |-> "unborn"] /\ res' = [c \in Cores |-> "nil"]
    /\ work' = [c \in Cores |-> InitWork]
    /\ cancelled' = FALSE /\ spawned' = 0 /\ fatals' = 0
    /\ w' = WIdle
    /\ sp' = [s \in Spawners |-> [st |-> "idle", new |-> 0]]
    /\ calls' = 0 /\ ret' = [k |-> "none"] /\ hist' = <<>>
    /\ par' = [c \in Cores |-> 0] /\ jn' = [c \in Cores |-> NoJoin] /\ joins' = 0
    /\ wt' = [pc |-> "look", seen |-> -1, n |-> 0, z |-> 0]

TraceNext == TSpawnLock \/ TSpawnAppend \/ TSpawnUnlock \/ TSpawnGo \/ TOffer \/ TCancel \/ TWaitRLock
             \/ TWaitSnapUnlock \/ TWaitRecv \/ TWaitPollEmpty \/ TWaitNilLock \/ TWaitNilAssign \/ TWaitNilUnlock
             \/ TWaitErrLock \/ TWaitErrCancel \/ TWaitErrUnlock \/ TWaitDrainRecv \/ TWaitReturnErr
             \/ TWaitReturnNil \/ TWaitSleep \/ TReset
             \/ TJoinBegin \/ TJoined \/ TJoinFailed \/ TJoinCancelled \/ TJoinOffer \/ TWatchLook \/ TWatchReturn

TraceSpec == TraceInit /\ [][TraceNext]_tvars

\* one state per consumed line plus the initial state
TraceAccepted == TLCGet("stats").diameter - 1 = Len(Trace)
Progress == TRUE
=============================================================================
