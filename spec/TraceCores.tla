------------------------------ MODULE TraceCores ------------------------------
(***************************************************************************)
(* Implementation -> specification for the core protocol: event traces     *)
(* recorded by the verif hooks of runtime/vm.go and runtime/core.go are    *)
(* checked to be behaviours of HmsCores (Variant = "fixed"), with every    *)
(* invariant of HmsCores evaluated after every event.                      *)
(*                                                                         *)
(* One trace line per specification action (see DESIGN.md appendix B).     *)
(* Lines {"e":"Reset"} separate executions so that one TLC run validates   *)
(* many of them.  What is not logged (who the spawner of a Spawn* event    *)
(* is) is inferred by TLC.  Two grain mismatches are resolved explicitly:  *)
(*  - a core logs Offer before it blocks in the send, so a poll of that    *)
(*    core may still come back empty (TraceWaitPollEmpty has no condition  *)
(*    on the core's state);                                                *)
(*  - polls of the context (Quantum) are not part of the trace.            *)
(***************************************************************************)
EXTENDS HmsCores

Trace == ndJsonDeserialize("cores_trace.ndjson")

VARIABLE l
tvars == <<vars, l>>

Ev == Trace[l]
IsEvent(e) == l <= Len(Trace) /\ Ev.e = e /\ l' = l + 1
Core(n) == n + 1          \* core numbers start at 0 in the code, at 1 in the specification
Held == "held" \in DOMAIN Ev => Ev.held

TraceInit == Init /\ l = 1

TSpawnLock   == IsEvent("SpawnLock") /\ Held /\ \E s \in Spawners : SpawnLock(s)
TSpawnAppend == IsEvent("SpawnAppend") /\ Held /\ \E s \in Spawners : SpawnAppend(s) /\ sp'[s].new = Core(Ev.c)
TSpawnUnlock == IsEvent("SpawnUnlock") /\ \E s \in Spawners : SpawnUnlock(s)
TSpawnGo     == IsEvent("SpawnGo") /\ \E s \in Spawners : SpawnGo(s) /\ sp[s].new = Core(Ev.c)
TOffer       == IsEvent("Offer") /\ CoreOffer(Core(Ev.c)) /\ res'[Core(Ev.c)] = Ev.a
TCancel      == IsEvent("Cancel") /\ IF cancelled THEN UNCHANGED vars ELSE HostCancel

TWaitRLock      == IsEvent("WaitRLock") /\ Held /\ WaitRLock /\ Len(list) = Ev.c
TWaitSnapUnlock == IsEvent("WaitSnapUnlock") /\ WaitSnapUnlock
TWaitRecv       == IsEvent("WaitRecv") /\ WaitPoll /\ w'.got = Core(Ev.c) /\ w'.goti = Ev.a /\ cst[Core(Ev.c)] = "offer"
TWaitPollEmpty  == \* the non-blocking receive found nothing (the core may have announced its offer already)
    /\ IsEvent("WaitPollEmpty")
    /\ w.pc = IterPc /\ w.i <= Len(w.snap) /\ w.snap[w.i] = Core(Ev.c)
    /\ w' = [w EXCEPT !.i = w.i + 1]
    /\ H(0, "WaitPollEmpty")
    /\ UNCHANGED <<list, rw, cst, res, work, cancelled, spawned, fatals, sp, calls, ret>>
TWaitNilLock    == IsEvent("WaitNilLock") /\ Held /\ WaitNilLock /\ w.got = Core(Ev.c)
TWaitNilAssign  == IsEvent("WaitNilAssign") /\ Held /\ WaitNilAssign
TWaitNilUnlock  == IsEvent("WaitNilUnlock") /\ WaitNilUnlock
TWaitErrLock    == IsEvent("WaitErrLock") /\ Held /\ WaitErrLock /\ w.got = Core(Ev.c)
TWaitErrCancel  == IsEvent("WaitErrCancel") /\ Held /\ WaitErrCancel
TWaitErrUnlock  == IsEvent("WaitErrUnlock") /\ WaitErrUnlock
TWaitDrainRecv  == IsEvent("WaitDrainRecv") /\ WaitDrainRecv /\ w'.got = Core(Ev.c)
TWaitReturnErr  == IsEvent("WaitReturnErr") /\ WaitReturnErr /\ ret'.c = Core(Ev.c) /\ ret'.i = Ev.a
TWaitReturnNil  == IsEvent("WaitReturnNil") /\ WaitReturnNil
TWaitSleep      == IsEvent("WaitSleep") /\ WaitPassEnd

\* end of one execution: nothing may be left behind (no core still offering, no lock held)
TReset ==
    /\ IsEvent("Reset")
    /\ \A c \in Cores : cst[c] \in {"unborn", "done"}
    /\ rw.r = 0 /\ ~rw.w /\ list = <<>> /\ w.pc = "idle"
    /\ list' = <<>> /\ rw' = [r |-> 0, w |-> FALSE]
    /\ cst' = [c \in Cores |-> "unborn"] /\ res' = [c \in Cores |-> "nil"]
    /\ work' = [c \in Cores |-> InitWork]
    /\ cancelled' = FALSE /\ spawned' = 0 /\ fatals' = 0
    /\ w' = WIdle
    /\ sp' = [s \in Spawners |-> [st |-> "idle", new |-> 0]]
    /\ calls' = 0 /\ ret' = [k |-> "none"] /\ hist' = <<>>

TraceNext == TSpawnLock \/ TSpawnAppend \/ TSpawnUnlock \/ TSpawnGo \/ TOffer \/ TCancel \/ TWaitRLock
             \/ TWaitSnapUnlock \/ TWaitRecv \/ TWaitPollEmpty \/ TWaitNilLock \/ TWaitNilAssign \/ TWaitNilUnlock
             \/ TWaitErrLock \/ TWaitErrCancel \/ TWaitErrUnlock \/ TWaitDrainRecv \/ TWaitReturnErr
             \/ TWaitReturnNil \/ TWaitSleep \/ TReset

TraceSpec == TraceInit /\ [][TraceNext]_tvars

\* one state per consumed line plus the initial state
TraceAccepted == TLCGet("stats").diameter - 1 = Len(Trace)
Progress == TRUE
=============================================================================
