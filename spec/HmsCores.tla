------------------------------- MODULE HmsCores -------------------------------
(***************************************************************************)
(* Cores, spawn, Wait and cancellation of the Homescript VM                *)
(* (runtime/vm.go: spawnCore, spawnCoreInternal, Wait; runtime/core.go:    *)
(* Run).  One action per critical section / channel operation of the code. *)
(*                                                                         *)
(* Processes                                                               *)
(*   host      calls SpawnSync (spawn a root core, then Wait) up to        *)
(*             MaxCalls times, one after the other                         *)
(*   waiter    the host goroutine inside Wait                              *)
(*   core c    a goroutine running a compiled function; it may spawn       *)
(*             further cores, finishes with nil / a fatal interrupt, or    *)
(*             with a termination interrupt once it polls a cancelled      *)
(*             context (every <= 50 instructions; one step here)           *)
(*   canceller the host cancelling the context at any moment               *)
(*   joiner    a core inside `h.join()` (vm.go threadHandle): it waits     *)
(*             until the thread has executed its last instruction (its     *)
(*             `finished` channel is closed right before the hand-off of   *)
(*             the result) or until the context is cancelled               *)
(*   watcher   a host goroutine inside WaitNonConsuming: it looks at the   *)
(*             length of the core list until it sees an empty one          *)
(*                                                                         *)
(* Shared state                                                            *)
(*   list      the core list (VM.Cores.Cores)                              *)
(*   rw        its sync.RWMutex: number of read holders, writer            *)
(*   cst[c]    "unborn" | "listed" (appended, goroutine not started) |     *)
(*             "run" | "offer" (blocked in the unbuffered send of its      *)
(*             result) | "done"                                            *)
(*   res[c]    the interrupt a core offers / offered: "nil","fatal","term" *)
(*   cancelled the context                                                 *)
(*                                                                         *)
(* Variant = "orig" is the protocol as found in the repository snapshot,   *)
(* Variant = "fixed" the repaired one (see DESIGN.md, findings).  TLC      *)
(* refutes WaitOnlyAfterAllDone, LocksReleasedOnReturn and NoCoreStranded  *)
(* for "orig" and proves them (for the bounded configuration) for "fixed". *)
(***************************************************************************)
EXTENDS Integers, Sequences, FiniteSets, TLC, Json, SequencesExt

CONSTANTS Variant,      \* "orig" | "fixed"
          MaxCores,     \* cores 1..MaxCores may ever be created
          MaxSpawns,    \* how many cores a running core may spawn in total (over all cores)
          MaxFatal,     \* how many cores may end with a fatal interrupt
          MaxCalls,     \* SpawnSync calls the host issues one after the other
          AllowCancel,  \* the canceller exists
          InitWork,     \* quanta a core runs before it may finish normally (0 when validating traces)
          StrictCancel, \* schedule export only: a core that could have seen the cancellation does nothing but offer
                        \* "term" (the real core polls at quantum boundaries, so it may still do a little more;
                        \* FALSE = the permissive model used for checking and trace validation)
          RecordHist,   \* keep the schedule in `hist` (only for schedule export by simulation)
          MaxJoins,     \* how many joins are begun in total
          JoinParentOnly, \* only the spawner of a thread joins it (a handle contains a function and so cannot be passed
                        \* to another thread; it can only get there through a global: FALSE when validating traces)
          Watch         \* "none" | "orig" | "fixed": WaitNonConsuming as found / as repaired

VARIABLES list, rw, cst, res, work, cancelled, spawned, fatals,
          w,        \* the waiter's local state (a record, see WInit)
          sp,       \* spawn in progress per spawner: [who |-> 0 (host) | c, st |-> "idle"|"locked"|"appended"|"unlocked", new |-> id]
          calls,    \* SpawnSync calls started so far
          ret,      \* what the last Wait returned: [k |-> "none"] | [k |-> "nil"] | [k |-> "err", c, i]
          hist,
          par,      \* who spawned a core (0 = the host)
          jn,       \* the join a core is in: [d |-> thread, st |-> "none" | "wait" | "failed" | "out"]
          joins,    \* joins begun so far
          wt        \* the watcher: [pc |-> "off" | "look" | "locked" | "ret", seen |-> length last seen (-1: none), n |-> read locks held,
                    \* z |-> (trace validation only, where several watchers share this record) looks which saw an empty list and
                    \* whose watcher has not returned yet]

ext == <<par, jn, joins, wt>>
vars == <<list, rw, cst, res, work, cancelled, spawned, fatals, w, sp, calls, ret, hist, par, jn, joins, wt>>

Cores == 1..MaxCores
Spawners == 0..MaxCores      \* 0 is the host

H(p, a) == hist' = IF RecordHist THEN Append(hist, <<p, a>>) ELSE hist

WIdle == [pc |-> "idle", snap |-> <<>>, i |-> 0, new |-> <<>>, got |-> 0, goti |-> "nil", drain |-> FALSE,
          fc |-> 0, fi |-> "nil"]     \* fc/fi: the first interrupt seen (fixed variant)

NoJoin == [d |-> 0, st |-> "none"]

Init ==
    /\ list = <<>> /\ rw = [r |-> 0, w |-> FALSE]
    /\ cst = [c \in Cores |-> "unborn"] /\ res = [c \in Cores |-> "nil"]
    /\ work = [c \in Cores |-> InitWork]
    /\ cancelled = FALSE /\ spawned = 0 /\ fatals = 0
    /\ w = WIdle
    /\ sp = [s \in Spawners |-> [st |-> "idle", new |-> 0]]
    /\ calls = 0 /\ ret = [k |-> "none"] /\ hist = <<>>
    /\ par = [c \in Cores |-> 0] /\ jn = [c \in Cores |-> NoJoin] /\ joins = 0
    /\ wt = [pc |-> IF Watch = "none" THEN "off" ELSE "look", seen |-> -1, n |-> 0, z |-> 0]

NextId == Cardinality({c \in Cores : cst[c] # "unborn"}) + Cardinality({s \in Spawners : sp[s].st \in {"locked"}}) + 1
CoreRemove(s, c) == SelectSeq(s, LAMBDA x : x # c)

-----------------------------------------------------------------------------
(* spawnCore + spawnCoreInternal, executed by spawner s (host or a core)   *)
CanSpawn(s) ==
    IF s = 0 THEN w.pc = "idle" /\ calls < MaxCalls /\ sp[0].st = "idle"
    ELSE cst[s] = "run" /\ spawned < MaxSpawns /\ sp[s].st = "idle" /\ (StrictCancel => ~cancelled) /\ jn[s].st = "none"

SpawnLock(s) ==          \* self.Cores.Lock.Lock()
    /\ CanSpawn(s) /\ sp[s].st = "idle"
    /\ Cardinality({c \in Cores : cst[c] # "unborn"}) < MaxCores
    /\ rw.r = 0 /\ ~rw.w
    /\ rw' = [rw EXCEPT !.w = TRUE]
    /\ sp' = [sp EXCEPT ![s] = [st |-> "locked", new |-> 0]]
    /\ IF s = 0 THEN calls' = calls + 1 /\ spawned' = spawned ELSE spawned' = spawned + 1 /\ calls' = calls
    /\ H(s, "SpawnLock")
    /\ UNCHANGED <<list, cst, res, work, cancelled, fatals, w, ret>> /\ UNCHANGED ext

SpawnAppend(s) ==        \* self.Cores.Cores = append(...); coreCnt++
    /\ sp[s].st = "locked"
    /\ LET id == CHOOSE c \in Cores : cst[c] = "unborn" /\ \A d \in Cores : cst[d] = "unborn" => c <= d IN
        /\ list' = Append(list, id)
        /\ cst' = [cst EXCEPT ![id] = "listed"]
        /\ sp' = [sp EXCEPT ![s] = [st |-> "appended", new |-> id]]
        /\ par' = IF JoinParentOnly THEN [par EXCEPT ![id] = s] ELSE par      \* (only kept where it is used)
    /\ H(s, "SpawnAppend")
    /\ UNCHANGED <<rw, res, work, cancelled, spawned, fatals, w, calls, ret, jn, joins, wt>>

SpawnUnlock(s) ==        \* deferred Unlock()
    /\ sp[s].st = "appended"
    /\ rw' = [rw EXCEPT !.w = FALSE]
    /\ sp' = [sp EXCEPT ![s].st = "unlocked"]
    /\ H(s, "SpawnUnlock")
    /\ UNCHANGED <<list, cst, res, work, cancelled, spawned, fatals, w, calls, ret>> /\ UNCHANGED ext

SpawnGo(s) ==            \* go func() { core.Run(...) }()
    /\ sp[s].st = "unlocked"
    /\ cst' = [cst EXCEPT ![sp[s].new] = "run"]
    /\ sp' = [sp EXCEPT ![s] = [st |-> "idle", new |-> 0]]
    /\ IF s = 0 THEN w' = [WIdle EXCEPT !.pc = "start"] ELSE w' = w     \* SpawnSync goes on to Wait
    /\ IF s = 0 THEN ret' = [k |-> "none"] ELSE ret' = ret
    /\ H(s, "SpawnGo")
    /\ UNCHANGED <<list, rw, res, work, cancelled, spawned, fatals, calls>> /\ UNCHANGED ext

-----------------------------------------------------------------------------
(* A core: up to 50 instructions, then the poll of the context *)
CoreWork(c) ==
    /\ cst[c] = "run" /\ sp[c].st = "idle" /\ work[c] > 0 /\ ~cancelled /\ jn[c].st = "none"
    /\ work' = [work EXCEPT ![c] = work[c] - 1]
    /\ H(c, "Quantum")
    /\ UNCHANGED <<list, rw, cst, res, cancelled, spawned, fatals, w, sp, calls, ret>> /\ UNCHANGED ext

CoreOffer(c) ==          \* close(self.finished); self.SignalHandle <- i   (the send blocks until Wait receives)
    /\ cst[c] = "run" /\ sp[c].st = "idle" /\ jn[c].st = "none"
    \* a termination interrupt needs a cancelled context; the program's own outcome (nil / fatal) may
    \* still come first when the core finishes within its current quantum
    /\ \/ /\ cancelled /\ res' = [res EXCEPT ![c] = "term"] /\ fatals' = fatals
       \/ /\ work[c] = 0 /\ (StrictCancel => ~cancelled) /\ res' = [res EXCEPT ![c] = "nil"] /\ fatals' = fatals
       \/ /\ fatals < MaxFatal /\ (StrictCancel => ~cancelled) /\ res' = [res EXCEPT ![c] = "fatal"] /\ fatals' = fatals + 1
    /\ cst' = [cst EXCEPT ![c] = "offer"]
    /\ H(c, "Offer")
    /\ UNCHANGED <<list, rw, work, cancelled, spawned, w, sp, calls, ret>> /\ UNCHANGED ext

-----------------------------------------------------------------------------
(* h.join(): the builtin behind the handle which `spawn` evaluates to       *)
Ended(d) == cst[d] \in {"offer", "done"}      \* `finished` is closed right before the hand-off

JoinBegin(c, d) ==       \* select { case <-thread.finished: case <-ctx.Done(): }  is entered
    /\ cst[c] = "run" /\ sp[c].st = "idle" /\ jn[c].st = "none" /\ (StrictCancel => ~cancelled)
    /\ cst[d] # "unborn" /\ joins < MaxJoins
    /\ JoinParentOnly => par[d] = c /\ c # d       \* (through a global a thread can even get hold of its own handle)
    /\ jn' = [jn EXCEPT ![c] = [d |-> d, st |-> "wait"]] /\ joins' = joins + 1
    /\ H(d, "JoinBegin")
    /\ UNCHANGED <<list, rw, cst, res, work, cancelled, spawned, fatals, w, sp, calls, ret, par, wt>>

JoinEnd(c) ==            \* the thread has ended normally: its result is taken, the joiner goes on
    /\ jn[c].st = "wait" /\ Ended(jn[c].d) /\ res[jn[c].d] = "nil"
    /\ jn' = [jn EXCEPT ![c] = NoJoin]
    /\ H(jn[c].d, "JoinEnd")
    /\ UNCHANGED <<list, rw, cst, res, work, cancelled, spawned, fatals, w, sp, calls, ret, par, joins, wt>>

JoinFailed(c) ==         \* the thread ended with an interrupt: there is no result; the joiner waits for the cancellation
    /\ jn[c].st = "wait" /\ Ended(jn[c].d) /\ res[jn[c].d] # "nil"         \* which Wait issues when it gets that interrupt
    /\ jn' = [jn EXCEPT ![c].st = "failed"]
    /\ H(jn[c].d, "JoinFailed")
    /\ UNCHANGED <<list, rw, cst, res, work, cancelled, spawned, fatals, w, sp, calls, ret, par, joins, wt>>

JoinCancelled(c) ==      \* the context is cancelled while the joiner waits
    /\ jn[c].st = "wait" /\ cancelled
    /\ jn' = [jn EXCEPT ![c].st = "out"]
    /\ H(jn[c].d, "JoinCancelled")
    /\ UNCHANGED <<list, rw, cst, res, work, cancelled, spawned, fatals, w, sp, calls, ret, par, joins, wt>>

JoinOffer(c) ==          \* join returned a termination interrupt: the core ends with it
    /\ jn[c].st \in {"out", "failed"} /\ cancelled /\ cst[c] = "run"
    /\ cst' = [cst EXCEPT ![c] = "offer"] /\ res' = [res EXCEPT ![c] = "term"]
    /\ jn' = [jn EXCEPT ![c] = NoJoin]
    /\ H(c, "Offer")
    /\ UNCHANGED <<list, rw, work, cancelled, spawned, fatals, w, sp, calls, ret, par, joins, wt>>

JoinStep(c) == (\E d \in Cores : JoinBegin(c, d)) \/ JoinEnd(c) \/ JoinFailed(c) \/ JoinCancelled(c) \/ JoinOffer(c)

-----------------------------------------------------------------------------
(* WaitNonConsuming                                                         *)
WatchRLock ==            \* RLock(); remaining := len(self.Cores.Cores)
    /\ wt.pc = "look" /\ ~rw.w
    /\ Watch = "orig" => wt.n < 3                   \* (orig takes one more read lock per round: bounded here)
    /\ rw' = [rw EXCEPT !.r = rw.r + 1]
    /\ wt' = [pc |-> IF Watch = "orig" THEN (IF Len(list) = 0 THEN "locked" ELSE "look") ELSE "locked",
              seen |-> Len(list), n |-> wt.n + 1, z |-> 0]
    /\ H(-2, "WatchRLock")
    /\ UNCHANGED <<list, cst, res, work, cancelled, spawned, fatals, w, sp, calls, ret, par, jn, joins>>

WatchRUnlock ==          \* fixed: RUnlock() after every look; orig: all deferred RUnlock()s, when it returns
    /\ wt.pc = "locked"
    /\ rw' = [rw EXCEPT !.r = rw.r - wt.n]
    /\ wt' = [wt EXCEPT !.pc = IF wt.seen = 0 THEN "ret" ELSE "look", !.n = 0]
    /\ H(-2, "WatchRUnlock")
    /\ UNCHANGED <<list, cst, res, work, cancelled, spawned, fatals, w, sp, calls, ret, par, jn, joins>>

WatchStep == WatchRLock \/ WatchRUnlock

HostCancel ==
    /\ AllowCancel /\ ~cancelled /\ calls > 0
    /\ cancelled' = TRUE
    /\ H(-1, "Cancel")
    /\ UNCHANGED <<list, rw, cst, res, work, spawned, fatals, w, sp, calls, ret>> /\ UNCHANGED ext

-----------------------------------------------------------------------------
(* Wait.  The waiter's pcs                                                 *)
(*   orig :  start -RLock-> iter (polls while holding the read lock)       *)
(*           nil: nilRU nilL nilA nilU nilRL -> iter                       *)
(*           err: errRU errL errC errU errRL -> return (holding RLock!)    *)
(*   fixed:  start -RLock-> snapL -SnapUnlock-> iterU (polls, no lock)     *)
(*           nil: nilL nilA nilU -> iterU                                  *)
(*           err: errL errC errU -> drain: snapshot, blocking receive of   *)
(*                every remaining core, removal as in the nil case,        *)
(*                until the list is empty -> return                        *)
Others == <<cst, res, work, cancelled, spawned, fatals, sp, calls, par, jn, joins, wt>>
Fixed == Variant = "fixed"

WaitRLock ==             \* RLock(); the slice header is read once (range / coreSnapshot)
    /\ w.pc \in {"start", "sleep", "drainStart"} /\ ~rw.w
    /\ w.pc = "drainStart" => Fixed
    /\ rw' = [rw EXCEPT !.r = rw.r + 1]
    /\ w' = [w EXCEPT !.pc = IF Fixed THEN "snapL" ELSE "iter", !.snap = list, !.i = 1]
    /\ H(0, "WaitRLock")
    /\ UNCHANGED <<list, ret>> /\ UNCHANGED Others

WaitSnapUnlock ==        \* fixed: the read lock is released before the cores are polled
    /\ Fixed /\ w.pc = "snapL"
    /\ rw' = [rw EXCEPT !.r = rw.r - 1]
    /\ w' = [w EXCEPT !.pc = IF w.drain THEN (IF w.snap = <<>> THEN "retErr" ELSE "drainRecv")
                             ELSE (IF w.snap = <<>> THEN "retNil" ELSE "iterU")]
    /\ H(0, "WaitSnapUnlock")
    /\ UNCHANGED <<list, ret>> /\ UNCHANGED Others

IterPc == IF Fixed THEN "iterU" ELSE "iter"

WaitPoll ==              \* select { case i := <-core.SignalHandle: ... default: }
    /\ w.pc = IterPc /\ w.i <= Len(w.snap)
    /\ LET c == w.snap[w.i] IN
       IF cst[c] = "offer"
       THEN /\ cst' = [cst EXCEPT ![c] = "done"]                  \* the core's send completes
            /\ w' = [w EXCEPT !.got = c, !.goti = res[c],
                              !.new = IF Fixed THEN <<>> ELSE CoreRemove(list, c),   \* orig: computed under the READ lock
                              !.fc = IF res[c] = "nil" THEN w.fc ELSE c, !.fi = IF res[c] = "nil" THEN w.fi ELSE res[c],
                              !.pc = IF res[c] = "nil" THEN (IF Fixed THEN "nilL" ELSE "nilRU")
                                     ELSE (IF Fixed THEN "errL" ELSE "errRU")]
            /\ H(0, "WaitRecv")
       ELSE /\ cst' = cst
            /\ w' = [w EXCEPT !.i = w.i + 1]
            /\ H(0, "WaitPollEmpty")
    /\ UNCHANGED <<list, rw, res, work, cancelled, spawned, fatals, sp, calls, ret>> /\ UNCHANGED ext

\* ---- a core finished with nil: remove it from the list
WaitNilRUnlock ==
    /\ ~Fixed /\ w.pc = "nilRU"
    /\ rw' = [rw EXCEPT !.r = rw.r - 1]
    /\ w' = [w EXCEPT !.pc = "nilL"]
    /\ H(0, "WaitNilRUnlock")
    /\ UNCHANGED <<list, ret>> /\ UNCHANGED Others

WaitNilLock ==
    /\ w.pc = "nilL" /\ rw.r = 0 /\ ~rw.w
    /\ rw' = [rw EXCEPT !.w = TRUE]
    /\ w' = [w EXCEPT !.pc = "nilA"]
    /\ H(0, "WaitNilLock")
    /\ UNCHANGED <<list, ret>> /\ UNCHANGED Others

WaitNilAssign ==
    /\ w.pc = "nilA"
    /\ list' = IF Fixed THEN CoreRemove(list, w.got) ELSE w.new    \* fixed: recomputed under the WRITE lock
    /\ w' = [w EXCEPT !.pc = "nilU"]
    /\ H(0, "WaitNilAssign")
    /\ UNCHANGED <<rw, ret>> /\ UNCHANGED Others

WaitNilUnlock ==
    /\ w.pc = "nilU"
    /\ rw' = [rw EXCEPT !.w = FALSE]
    /\ w' = [w EXCEPT !.i = w.i + 1,
                      !.pc = IF ~Fixed THEN "nilRL"
                             ELSE IF ~w.drain THEN "iterU"
                             ELSE IF w.i + 1 <= Len(w.snap) THEN "drainRecv" ELSE "drainStart"]
    /\ H(0, "WaitNilUnlock")
    /\ UNCHANGED <<list, ret>> /\ UNCHANGED Others

WaitNilRLock ==
    /\ ~Fixed /\ w.pc = "nilRL" /\ ~rw.w
    /\ rw' = [rw EXCEPT !.r = rw.r + 1]
    /\ w' = [w EXCEPT !.pc = "iter"]
    /\ H(0, "WaitNilRLock")
    /\ UNCHANGED <<list, ret>> /\ UNCHANGED Others

\* ---- a core finished with an interrupt
WaitErrRUnlock ==
    /\ ~Fixed /\ w.pc = "errRU"
    /\ rw' = [rw EXCEPT !.r = rw.r - 1]
    /\ w' = [w EXCEPT !.pc = "errL"]
    /\ H(0, "WaitErrRUnlock")
    /\ UNCHANGED <<list, ret>> /\ UNCHANGED Others

WaitErrLock ==
    /\ w.pc = "errL" /\ rw.r = 0 /\ ~rw.w
    /\ rw' = [rw EXCEPT !.w = TRUE]
    /\ w' = [w EXCEPT !.pc = "errC"]
    /\ H(0, "WaitErrLock")
    /\ UNCHANGED <<list, ret>> /\ UNCHANGED Others

WaitErrCancel ==         \* (*self.CancelFunc)(); orig: the list is cleared; fixed: this core only is removed
    /\ w.pc = "errC"
    /\ cancelled' = TRUE
    /\ list' = IF Fixed THEN CoreRemove(list, w.got) ELSE <<>>
    /\ w' = [w EXCEPT !.pc = "errU"]
    /\ H(0, "WaitErrCancel")
    /\ UNCHANGED <<rw, cst, res, work, spawned, fatals, sp, calls, ret>> /\ UNCHANGED ext

WaitErrUnlock ==
    /\ w.pc = "errU"
    /\ rw' = [rw EXCEPT !.w = FALSE]
    /\ w' = [w EXCEPT !.pc = IF Fixed THEN "drainStart" ELSE "errRL", !.drain = Fixed]
    /\ H(0, "WaitErrUnlock")
    /\ UNCHANGED <<list, ret>> /\ UNCHANGED Others

WaitErrRLockReturn ==    \* orig: RLock() and return while still holding it
    /\ ~Fixed /\ w.pc = "errRL" /\ ~rw.w
    /\ rw' = [rw EXCEPT !.r = rw.r + 1]
    /\ w' = WIdle
    /\ ret' = [k |-> "err", c |-> w.got, i |-> w.goti]
    /\ H(0, "WaitReturnErr")
    /\ UNCHANGED <<list>> /\ UNCHANGED Others

\* ---- fixed: after the first interrupt the rest is cancelled and waited for (blocking receives)
WaitDrainRecv ==         \* <-other.SignalHandle  (blocking)
    /\ Fixed /\ w.pc = "drainRecv"
    /\ LET c == w.snap[w.i] IN
        /\ cst[c] = "offer"
        /\ cst' = [cst EXCEPT ![c] = "done"]
        /\ w' = [w EXCEPT !.got = c, !.pc = "nilL"]      \* removal of c goes through the same write-locked path
    /\ H(0, "WaitDrainRecv")
    /\ UNCHANGED <<list, rw, res, work, cancelled, spawned, fatals, sp, calls, ret>> /\ UNCHANGED ext

WaitReturnErr ==
    /\ Fixed /\ w.pc = "retErr"
    /\ w' = WIdle /\ ret' = [k |-> "err", c |-> w.fc, i |-> w.fi]
    /\ H(0, "WaitReturnErr")
    /\ UNCHANGED <<list, rw>> /\ UNCHANGED Others

WaitReturnNil ==
    /\ Fixed /\ w.pc = "retNil"
    /\ w' = WIdle /\ ret' = [k |-> "nil"]
    /\ H(0, "WaitReturnNil")
    /\ UNCHANGED <<list, rw>> /\ UNCHANGED Others

\* ---- end of one pass over the snapshot
WaitPassEnd ==
    /\ w.pc = IterPc /\ w.i > Len(w.snap)
    /\ IF Fixed
       THEN /\ rw' = rw /\ w' = [w EXCEPT !.pc = "sleep"] /\ ret' = ret /\ H(0, "WaitSleep")
       ELSE /\ rw' = [rw EXCEPT !.r = rw.r - 1]
            /\ IF list = <<>> THEN w' = WIdle /\ ret' = [k |-> "nil"] /\ H(0, "WaitReturnNil")
               ELSE w' = [w EXCEPT !.pc = "sleep"] /\ ret' = ret /\ H(0, "WaitSleep")
    /\ UNCHANGED <<list>> /\ UNCHANGED Others

WaitStep == WaitRLock \/ WaitSnapUnlock \/ WaitPoll \/ WaitNilRUnlock \/ WaitNilLock \/ WaitNilAssign \/ WaitNilUnlock
            \/ WaitNilRLock \/ WaitErrRUnlock \/ WaitErrLock \/ WaitErrCancel \/ WaitErrUnlock \/ WaitErrRLockReturn
            \/ WaitDrainRecv \/ WaitReturnErr \/ WaitReturnNil \/ WaitPassEnd

SpawnStep(s) == SpawnLock(s) \/ SpawnAppend(s) \/ SpawnUnlock(s) \/ SpawnGo(s)
CoreStep(c) == CoreWork(c) \/ CoreOffer(c) \/ SpawnStep(c) \/ JoinStep(c)

\* everything but the watcher (which may go round for ever while cores are listed)
Main == WaitStep \/ SpawnStep(0) \/ HostCancel \/ \E c \in Cores : CoreStep(c)
Next == Main \/ WatchStep

Spec == Init /\ [][Next]_vars
FairSpec == Spec /\ WF_vars(WaitStep) /\ WF_vars(SpawnStep(0)) /\ \A c \in Cores : WF_vars(CoreStep(c))
\* with a watcher: sync.RWMutex does not let readers starve a writer (a blocked Lock keeps new readers out), hence strong
\* fairness for the acquisitions of the write lock, which the watcher's read locks enable and disable over and over
FairSpecW == FairSpec /\ WF_vars(WatchStep)
             /\ SF_vars(WaitNilLock) /\ SF_vars(WaitErrLock) /\ \A s \in Spawners : SF_vars(SpawnLock(s))

-----------------------------------------------------------------------------
(* What C10 / C16 / C17 require *)
Returned == ret.k # "none" /\ w.pc = "idle" /\ sp[0].st = "idle"

\* the wait returns only after all cores have finished
WaitOnlyAfterAllDone == Returned => \A c \in Cores : cst[c] \in {"unborn", "done"}

\* a fatal interrupt of any core is reported (never swallowed into a nil return)
FatalReported == (Returned /\ ret.k = "nil") => \A c \in Cores : cst[c] = "done" => res[c] = "nil"
ReportedIsReal == (Returned /\ ret.k = "err") => cst[ret.c] = "done" /\ res[ret.c] = ret.i /\ ret.i # "nil"

\* nothing is left behind that blocks a later call
LocksReleasedOnReturn == Returned => rw.r = wt.n /\ ~rw.w       \* (a watcher may be inside one of its looks)
ListEmptyOnReturn == Returned => list = <<>>

\* the read/write lock is used consistently
LockDiscipline == ~(rw.w /\ rw.r > 0) /\ rw.r >= 0

\* no core stays blocked on its hand-off forever: whenever nothing can move any more, no core is offering
\* nothing can move any more (a watcher inside its read lock is about to release it; one that cannot move does not count)
Stuck == ~ENABLED Main /\ (wt.n = 0 \/ ~ENABLED WatchStep)
NoCoreStranded == Stuck => \A c \in Cores : cst[c] # "offer"

\* and the host can always go on: a terminal state is one where all calls were made and returned
DeadlockFree == Stuck => (calls = MaxCalls \/ Cardinality({c \in Cores : cst[c] # "unborn"}) = MaxCores) /\ Returned

\* a join ends only after the thread has ended, with its result only if there is one
JoinSound == \A c \in Cores : /\ jn[c].st # "none" => cst[c] = "run" /\ cst[jn[c].d] # "unborn"
                              /\ jn[c].st = "failed" => Ended(jn[c].d) /\ res[jn[c].d] # "nil"
JoinEndsAfterThread == [][\A c \in Cores : (jn[c].st = "wait" /\ jn'[c].st = "none" /\ cst'[c] = "run")
                                             => Ended(jn[c].d) /\ res[jn[c].d] = "nil"]_vars
\* nobody is left inside a join when the wait has returned
NoJoinerLeft == Returned => \A c \in Cores : jn[c].st = "none"

\* the watcher returns only on an empty list, and holds nothing afterwards
WatchSound == wt.pc = "ret" => wt.seen = 0 /\ wt.n = 0
WatchHoldsNoLockWhileCoresRun == (Watch = "fixed" /\ wt.pc = "look") => wt.n = 0

\* liveness (checked under FairSpec only): cancellation leads to the wait returning, every offer is taken
CancelLeadsToReturn == (cancelled /\ calls > 0) ~> (w.pc = "idle")
OffersAreTaken == \A c \in Cores : (cst[c] = "offer") ~> (cst[c] = "done")
JoinsEnd == \A c \in Cores : (jn[c].st # "none") ~> (jn[c].st = "none")
WatchReturns == (wt.pc = "look") ~> (wt.pc = "ret")

\* export of schedules (simulation mode with RecordHist = TRUE)
Quiescent == ~ENABLED Main
ExportSched == Quiescent => PrintT(<<"SCHED", ToJson([hist |-> hist, ret |-> ret, cst |-> [c \in Cores |-> cst[c]],
                                                       res |-> [c \in Cores |-> res[c]], rw |-> rw, list |-> list])>>)
=============================================================================
