-------------------------------- MODULE HmsVM --------------------------------
(***************************************************************************)
(* The bytecode machine of Homescript (runtime/core.go, execute.go) as far *)
(* as its bookkeeping goes: per core the call stack, the operand-stack     *)
(* height, the memory pointer and the stack of exception handlers.  One    *)
(* rule per opcode says how an instruction moves these (Effect), and the   *)
(* properties say what must hold in every state of every execution:        *)
(*                                                                         *)
(*   NoUnderflow     the operand stack never drops below what the frame    *)
(*                   may consume (its base minus its parameters)           *)
(*   LoopNeutral     a program point is always reached with the same       *)
(*                   operand-stack height (relative to the frame), memory  *)
(*                   pointer and handler count within one activation:      *)
(*                   statements leave the stack as they found it, nothing  *)
(*                   leaks per iteration                                   *)
(*   ReturnBalanced  a return gives back the frame's memory and handlers   *)
(*                   and leaves exactly its result on the stack            *)
(*   HandlersLive    no installed handler belongs to a frame that is gone  *)
(*   LimitOvershoot  the configured limits are exceeded by at most one     *)
(*                   quantum (50 instructions)                             *)
(*   StepsFollow     every instruction moves the machine as its rule says  *)
(*                   (next ip, frame, height)                              *)
(*                                                                         *)
(* The module is driven by recorded executions (TraceVM): the verif hooks  *)
(* log one event per instruction BEFORE it executes, so the next event of  *)
(* the same core is the instruction's post-state.  The machine state kept  *)
(* here (frames, handlers, seen program points) is reconstructed by the    *)
(* rules, not read from the log, and compared with the log at every step.  *)
(***************************************************************************)
EXTENDS Integers, Sequences, FiniteSets, TLC, Json, SequencesExt

Quantum == 50

\* operand-stack effect of the opcodes with a fixed effect
Plus1  == {"CopyPush", "CloningPush", "Duplicate", "GetVarImm", "GetGlobImm", "IterAdvance"}
Zero0  == {"Nop", "Clone", "Detach", "Neg", "Some", "Not", "Cast", "Member", "Unwrap", "LoadSingleton", "IntoIter", "Label",
           "SetTryLabel", "PopTryLabel", "AddMempointer", "Jump", "Eq_PopOnce", "Import", "Call_Imm", "Return"}
Minus1 == {"Drop", "SetVarImm", "SetGlobImm", "Add", "Sub", "Mul", "Pow", "Div", "Rem", "Eq", "Lt", "Gt", "Le", "Ge", "Shl", "Shr",
           "BitOr", "BitAnd", "BitXor", "Index", "Into_Range", "JumpIfFalse"}
Minus2 == {"Assign"}
\* Call_Val, HostCall, Spawn take their argument count from the stack; MemberAnyobj is specified as 0
Variable == {"Call_Val", "HostCall", "Spawn"}

\* the admissible operand-stack heights after instruction e (pre-state e, argument count n of the
\* preceding CopyPush where it matters); a set, because a builtin may or may not return a value
HeightsAfter(e, n) ==
    CASE e.op \in Plus1 -> {e.sh + 1}
      [] e.op \in Zero0 -> {e.sh}
      [] e.op = "MemberAnyobj" -> {e.sh}
      [] e.op \in Minus1 -> {e.sh - 1}
      [] e.op \in Minus2 -> {e.sh - 2}
      [] e.op = "Call_Val" -> {e.sh - 2 - n, e.sh - 2 - n + 1, e.sh - 2}      \* builtin (with / without result), or a VM function
      [] e.op = "HostCall" -> {e.sh - 1 - n + 1, e.sh - 1 - n}      \* with or without a result
      [] e.op = "Spawn" -> {e.sh - 1 - n + 1}
      [] e.op = "Throw" -> {e.sh - 1}
      [] OTHER -> {e.sh}

\* what one instruction needs on the stack
Binary == {"Add", "Sub", "Mul", "Pow", "Div", "Rem", "Eq", "Lt", "Gt", "Le", "Ge", "Shl", "Shr", "BitOr", "BitAnd", "BitXor",
           "Index", "Into_Range", "Assign", "Eq_PopOnce"}
Unary == {"Drop", "SetVarImm", "SetGlobImm", "JumpIfFalse", "Neg", "Some", "Not", "Cast", "Member", "MemberAnyobj", "Unwrap",
          "IntoIter", "IterAdvance", "Clone", "Detach", "Duplicate", "Throw"}
Needs(e, n) ==
    IF e.op \in Binary THEN 2
    ELSE IF e.op \in Unary THEN 1
    ELSE IF e.op = "Call_Val" THEN 2 + n
    ELSE IF e.op \in {"HostCall", "Spawn"} THEN 1 + n
    ELSE 0

-----------------------------------------------------------------------------
(* The machine state of one core and the rules that move it.              *)
(*   frames   <<[fn, act, base, np, ret, known, mp0, nh0, rip]>>          *)
(*            act: activation number, base: operand height at entry,     *)
(*            rip: where the caller continues                             *)
(*   handlers <<[cs, sh, mp]>> state to restore, one per open try         *)
(*   seen     program point <<act, ip>> |-> <<height - base, mp, nh>>     *)
NoCore == [frames |-> <<>>, handlers |-> <<>>, seen |-> <<>>, prev |-> [op |-> "none"], lastpush |-> 0, acts |-> 0,
           viol |-> "none", fin |-> FALSE]

Top(s) == s[Len(s)]
Pop(s) == SubSeq(s, 1, Len(s) - 1)

SeenGet(seen, key) == LET hits == {j \in 1..Len(seen) : seen[j][1] = key} IN
                      IF hits = {} THEN <<>> ELSE seen[CHOOSE j \in hits : TRUE][2]

\* first violated property of event e in core state st (frames already updated for e), "none" if all hold
Check(st, e, sigs, lim) ==
    LET fr == Top(st.frames)
        n == st.lastpush
        old == SeenGet(st.seen, <<fr.act, e.ip>>) IN
    IF e.sh - Needs(e, n) < fr.base - fr.np THEN "NoUnderflow"
    ELSE IF old # <<>> /\ old # <<e.sh - fr.base, e.mp, e.nh>> THEN "LoopNeutral"
    ELSE IF \E j \in 1..Len(st.handlers) : st.handlers[j].cs > e.cs THEN "HandlersLive"
    ELSE IF e.sh > lim.stack + Quantum \/ e.cs > lim.call + Quantum \/ e.mp >= lim.mem THEN "LimitOvershoot"
    ELSE IF e.op = "Return" /\ (e.mp # fr.mp0 \/ e.nh # fr.nh0) THEN "ReturnBalanced"
    ELSE IF e.op = "Return" /\ fr.known /\ e.sh # fr.base - fr.np + (IF fr.ret THEN 1 ELSE 0) THEN "ReturnBalanced"
    ELSE "none"
=============================================================================
=============================================================================
