------------------------------- MODULE HmsValue -------------------------------
(***************************************************************************)
(* Runtime values: equality, copying, JSON (C13).                          *)
(*                                                                         *)
(* Values are trees (HmsCast's representation plus ranges); a list and an  *)
(* object are mutable containers.  The specification of a clone is: an     *)
(* independent copy.  So the model state is simply the pair of trees       *)
(* <<orig, copy>>, a mutation changes one of them, and the conformance     *)
(* check compares the REAL projected values with both trees after every    *)
(* action (a shared cell in the implementation makes the untouched side    *)
(* differ from the model).                                                 *)
(*                                                                         *)
(* Mode "eq":    (T, a, b) for all a, b of one static type T               *)
(* Mode "clone": (T, v, history) with <= MaxMut mutations after Clone      *)
(* Mode "json":  (T, v) for the JSON-representable types                   *)
(***************************************************************************)
EXTENDS Integers, Sequences, FiniteSets, TLC, Json, SequencesExt

CONSTANTS Mode, MaxMut

VARIABLES ty, a, b, hist, done, v0     \* v0: the value the history started from
vars == <<ty, a, b, hist, done, v0>>

-----------------------------------------------------------------------------
(* Types and their (small) value sets *)
TInt == [t |-> "int"]  TFlt == [t |-> "flt"]  TStr == [t |-> "str"]  TBool == [t |-> "bool"]  TNull == [t |-> "null"]
TList(e) == [t |-> "list", e |-> e]
TOpt(e) == [t |-> "opt", e |-> e]
TObj(ks, ts) == [t |-> "obj", ks |-> ks, ts |-> ts]
TAnyObj == [t |-> "anyobj"]
TRange == [t |-> "range"]

Types == { TInt, TFlt, TStr, TBool, TNull, TRange, TAnyObj,
           TList(TInt), TList(TStr), TList(TFlt), TList(TList(TInt)), TList(TOpt(TInt)), TList(TObj(<<"a">>, <<TInt>>)),
           TOpt(TInt), TOpt(TList(TInt)), TOpt(TStr),
           TObj(<<"a">>, <<TInt>>), TObj(<<"a", "b">>, <<TInt, TStr>>), TObj(<<"a">>, <<TList(TInt)>>),
           TObj(<<"a", "b">>, <<TOpt(TInt), TList(TStr)>>),
           TObj(<<"n", "t">>, <<TStr, TOpt(TList(TInt))>>), TList(TOpt(TObj(<<"a">>, <<TList(TInt)>>))),
           TObj(<<"m", "o">>, <<TInt, TAnyObj>>), TOpt(TAnyObj), TList(TAnyObj) }

JsonTypes == { T \in Types : T.t # "range" }    \* (ranges have no JSON form)

VI(n) == [k |-> "int", v |-> n]
VF(n) == [k |-> "flt", v |-> n]          \* twice the value: 3 = 1.5, 4 = 2.0, -1 = -0.5
VS(s) == [k |-> "str", v |-> s]
VB(x) == [k |-> "bool", v |-> x]
VNone == [k |-> "opt", some |-> FALSE]
VSome(x) == [k |-> "opt", some |-> TRUE, v |-> x]

\* any-objects hold values of any type: a few mixed ones
AnyObjs == { [k |-> "anyobj", ks |-> <<>>, vs |-> <<>>],
             [k |-> "anyobj", ks |-> <<"a">>, vs |-> <<VI(1)>>],
             [k |-> "anyobj", ks |-> <<"a">>, vs |-> <<VI(2)>>],
             [k |-> "anyobj", ks |-> <<"a">>, vs |-> <<VS("x")>>],
             [k |-> "anyobj", ks |-> <<"b">>, vs |-> <<VI(1)>>],
             [k |-> "anyobj", ks |-> <<"a", "b">>, vs |-> <<VI(1), VI(1)>>],
             [k |-> "anyobj", ks |-> <<"a", "b">>, vs |-> <<VI(1), VS("x")>>],
             \* members which are containers themselves (their display spans several lines) and members of different kinds
             \* under one key (an any-object is where a list can meet an int)
             [k |-> "anyobj", ks |-> <<"a">>, vs |-> <<[k |-> "list", es |-> <<VI(1)>>]>>],
             [k |-> "anyobj", ks |-> <<"a">>, vs |-> <<[k |-> "obj", ks |-> <<"x">>, vs |-> <<VI(1)>>]>>],
             [k |-> "anyobj", ks |-> <<"a">>, vs |-> <<[k |-> "anyobj", ks |-> <<"x">>, vs |-> <<VI(1)>>]>>],
             [k |-> "anyobj", ks |-> <<"a">>, vs |-> <<[k |-> "anyobj", ks |-> <<"x">>, vs |-> <<[k |-> "anyobj", ks |-> <<"y">>, vs |-> <<VS("x")>>]>>]>>],
             [k |-> "anyobj", ks |-> <<"a", "b">>, vs |-> <<VSome([k |-> "obj", ks |-> <<"x">>, vs |-> <<VI(1)>>]), VS("s\nt")>>],
             [k |-> "anyobj", ks |-> <<"a">>, vs |-> <<[k |-> "list", es |-> <<[k |-> "obj", ks |-> <<"x", "y">>, vs |-> <<VI(1), VS("x")>>]>>]>>],
             [k |-> "anyobj", ks |-> <<"a">>, vs |-> <<VSome(VI(1))>>],
             [k |-> "anyobj", ks |-> <<"a">>, vs |-> <<VSome([k |-> "list", es |-> <<VI(1)>>])>>],
             [k |-> "anyobj", ks |-> <<"a">>, vs |-> <<VSome([k |-> "obj", ks |-> <<"x">>, vs |-> <<VI(1)>>])>>],
             [k |-> "anyobj", ks |-> <<"a">>, vs |-> <<VSome([k |-> "anyobj", ks |-> <<"x">>, vs |-> <<VI(1)>>])>>],
             [k |-> "anyobj", ks |-> <<"a">>, vs |-> <<VNone>>] }

RECURSIVE ValsOf(_)
ValsOf(T) ==
    CASE T.t = "int" -> {VI(0), VI(1), VI(-7)}
      [] T.t = "flt" -> {VF(3), VF(4), VF(-1)}
      [] T.t = "str" -> {VS(""), VS("s"), VS("s t")}
      [] T.t = "bool" -> {VB(TRUE), VB(FALSE)}
      [] T.t = "null" -> {[k |-> "null"]}
      [] T.t = "range" -> { [k |-> "range", l |-> 0, r |-> 2, incl |-> FALSE], [k |-> "range", l |-> 0, r |-> 2, incl |-> TRUE],
                            [k |-> "range", l |-> 1, r |-> 2, incl |-> FALSE], [k |-> "range", l |-> 2, r |-> 0, incl |-> FALSE] }
      [] T.t = "anyobj" -> AnyObjs
      [] T.t = "list" -> LET S == ValsOf(T.e)
                             S2 == IF Cardinality(S) > 4 THEN {x \in S : TRUE} ELSE S IN
                         UNION { { [k |-> "list", es |-> es] : es \in [1..m -> S2] } : m \in 0..(IF Cardinality(S2) > 4 THEN 1 ELSE 2) }
      [] T.t = "opt" -> {VNone} \cup { VSome(x) : x \in ValsOf(T.e) }
      [] T.t = "obj" -> LET sets == [j \in 1..Len(T.ks) |-> ValsOf(T.ts[j])] IN
                        { [k |-> "obj", ks |-> T.ks, vs |-> vs] : vs \in { f \in [1..Len(T.ks) -> UNION {sets[j] : j \in 1..Len(T.ks)}] :
                                                                          \A j \in 1..Len(T.ks) : f[j] \in sets[j] } }

-----------------------------------------------------------------------------
(* equality: structural content; objects and any-objects are unordered *)
RECURSIVE ValEq(_, _)
ValEq(x, y) ==
    IF x.k # y.k THEN FALSE
    ELSE CASE x.k = "list" -> Len(x.es) = Len(y.es) /\ \A j \in 1..Len(x.es) : ValEq(x.es[j], y.es[j])
           [] x.k \in {"obj", "anyobj"} ->
                /\ {x.ks[j] : j \in 1..Len(x.ks)} = {y.ks[j] : j \in 1..Len(y.ks)}
                /\ \A j \in 1..Len(x.ks) : \E h \in 1..Len(y.ks) : y.ks[h] = x.ks[j] /\ ValEq(x.vs[j], y.vs[h])
           [] x.k = "opt" -> x.some = y.some /\ (x.some => ValEq(x.v, y.v))
           [] x.k = "range" -> x.l = y.l /\ x.r = y.r /\ x.incl = y.incl
           [] x.k = "null" -> TRUE
           [] OTHER -> x.v = y.v

-----------------------------------------------------------------------------
(* mutations of a container, addressed by a path of list indices (0-based) / field names *)
\* path elements: <<"i", n>> list index (0-based), <<"f", name>> field, <<"o", 0>> option inner
RECURSIVE SubAt(_, _)
SubAt(v, p) ==
    IF p = <<>> THEN v
    ELSE LET h == Head(p) IN
         IF h[1] = "i" THEN SubAt(v.es[h[2] + 1], Tail(p))
         ELSE IF h[1] = "f" THEN SubAt(v.vs[CHOOSE j \in 1..Len(v.ks) : v.ks[j] = h[2]], Tail(p))
         ELSE SubAt(v.v, Tail(p))

RECURSIVE PathsOf(_)
\* paths to all positions (the value itself and everything inside)
PathsOf(v) ==
    {<<>>} \cup
    (CASE v.k = "list" -> UNION { { << <<"i", j - 1>> >> \o q : q \in PathsOf(v.es[j]) } : j \in 1..Len(v.es) }
       [] v.k \in {"obj", "anyobj"} -> UNION { { << <<"f", v.ks[j]>> >> \o q : q \in PathsOf(v.vs[j]) } : j \in 1..Len(v.ks) }
       [] v.k = "opt" -> IF v.some THEN { << <<"o", 0>> >> \o q : q \in PathsOf(v.v) } ELSE {}
       [] OTHER -> {})

RECURSIVE ValReplaceAt(_, _, _)
ValReplaceAt(v, p, new) ==
    IF p = <<>> THEN new
    ELSE LET h == Head(p) IN
         IF h[1] = "i" THEN [v EXCEPT !.es[h[2] + 1] = ValReplaceAt(@, Tail(p), new)]
         ELSE IF h[1] = "f" THEN
            LET j == CHOOSE q \in 1..Len(v.ks) : v.ks[q] = h[2] IN [v EXCEPT !.vs[j] = ValReplaceAt(@, Tail(p), new)]
         ELSE [v EXCEPT !.v = ValReplaceAt(@, Tail(p), new)]

\* The language cannot overwrite the value directly inside an option (`o.unwrap() = x` is no place), but it can
\* write to an element / field of, or push onto, a container it reached through unwrap().
NotOptInner(q) == q[Len(q)][1] # "o"

\* a different value of the same type as x (for overwriting a scalar position)
Other(x) ==
    CASE x.k = "int" -> VI(x.v + 40) [] x.k = "flt" -> VF(x.v + 40) [] x.k = "str" -> VS("changed")
      [] x.k = "bool" -> VB(~x.v) [] OTHER -> x

\* the mutations applicable to value v: overwrite a scalar element / field, push onto a list
Mutations(v) ==
    { [op |-> "set", p |-> p] : p \in { q \in PathsOf(v) : q # <<>> /\ SubAt(v, q).k \in {"int", "flt", "str", "bool"}
                                                            /\ NotOptInner(q) } }
    \cup { [op |-> "push", p |-> p] : p \in { q \in PathsOf(v) : SubAt(v, q).k = "list" /\ SubAt(v, q).es # <<>> } }

ApplyMut(v, mu) ==
    IF mu.op = "set" THEN ValReplaceAt(v, mu.p, Other(SubAt(v, mu.p)))
    ELSE LET l == SubAt(v, mu.p) IN ValReplaceAt(v, mu.p, [l EXCEPT !.es = Append(@, l.es[1])])    \* push a copy of the first element

-----------------------------------------------------------------------------
\* JSON has one kind of object and no options: below a member of an any-object (whose static type is `any`) nothing says
\* that a JSON object was an any-object or that a value was wrapped in an option, so such values are not JSON-representable
\* (under a declared type both are: the type says what to build)
RECURSIVE Plain(_)
Plain(v) ==
    CASE v.k = "list" -> \A j \in 1..Len(v.es) : Plain(v.es[j])
      [] v.k = "obj" -> \A j \in 1..Len(v.vs) : Plain(v.vs[j])
      [] v.k \in {"anyobj", "opt"} -> FALSE
      [] OTHER -> TRUE
RECURSIVE JsonRepresentable(_)
JsonRepresentable(v) ==
    CASE v.k = "list" -> \A j \in 1..Len(v.es) : JsonRepresentable(v.es[j])
      [] v.k = "obj" -> \A j \in 1..Len(v.vs) : JsonRepresentable(v.vs[j])
      [] v.k = "anyobj" -> \A j \in 1..Len(v.vs) : Plain(v.vs[j])
      [] v.k = "opt" -> ~v.some \/ JsonRepresentable(v.v)
      [] OTHER -> TRUE

Init ==
    /\ done = FALSE /\ hist = <<>>
    /\ ty \in (IF Mode = "json" THEN JsonTypes ELSE Types)
    /\ a \in (IF Mode = "json" THEN {x \in ValsOf(ty) : JsonRepresentable(x)} ELSE ValsOf(ty))
    /\ IF Mode = "eq" THEN b \in ValsOf(ty) ELSE b = a       \* clone: b is the copy
    /\ v0 = a

Mutate ==
    /\ Mode = "clone" /\ ~done /\ Len(hist) < MaxMut
    /\ \E side \in {"orig", "copy"} :
         LET cur == IF side = "orig" THEN a ELSE b IN
         \E mu \in Mutations(cur) :
            /\ hist' = Append(hist, [side |-> side, op |-> mu.op, p |-> mu.p])
            /\ IF side = "orig" THEN a' = ApplyMut(a, mu) /\ b' = b ELSE b' = ApplyMut(b, mu) /\ a' = a
    /\ UNCHANGED <<ty, done, v0>>

Finish == ~done /\ done' = TRUE /\ UNCHANGED <<ty, a, b, hist, v0>>
Next == Mutate \/ Finish
Spec == Init /\ [][Next]_vars

-----------------------------------------------------------------------------
(* laws of the specification itself *)
EqReflexive == Mode = "eq" => ValEq(a, a) /\ ValEq(b, b)
EqSymmetric == Mode = "eq" => (ValEq(a, b) <=> ValEq(b, a))
\* a mutation really changes the mutated side and nothing else (clone: the copy starts equal)
CloneStartsEqual == (Mode = "clone" /\ hist = <<>>) => ValEq(a, b)

Export == done => PrintT(<<"CASE", ToJson([t |-> ty, a |-> a, b |-> b, eq |-> ValEq(a, b), hist |-> hist, v0 |-> v0])>>)
=============================================================================
